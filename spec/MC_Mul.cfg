INIT Init
NEXT Next
INVARIANT SplitInv
INVARIANT ConstInv
INVARIANT MulInv
INVARIANT DsmInv
INVARIANT Msm2Inv
CHECK_DEADLOCK FALSE
