------------------------------ MODULE Trace_Ecdsa ------------------------------
(***************************************************************************)
(* C07, C08, C09, C10, C11 — trace specification for package secec at      *)
(* full size: verification (raw, encoded, Bitcoin envelope, private-key    *)
(* path), signing (raw and encoded, all option combinations), the nonce    *)
(* machinery (entropy reader protocol, rejection sampler, RFC 6979 DRBG),  *)
(* key objects / ECDH and public-key recovery.                             *)
(*                                                                         *)
(* State: `seenKey` / `seenR` remember, for every successful hedged        *)
(* signature, the triple (private key, e, entropy) and the r it produced,  *)
(* so that nonce reuse across DIFFERENT triples and non-determinism for    *)
(* EQUAL triples are violations of the trace, not of a single event.       *)
(***************************************************************************)
EXTENDS TraceBase, Ecdsa, Rfc6979, Projective

VARIABLES tl, tBad, tCnt, seenKey, seenR

H(s)      == HexToInt(s)
HB(s)     == HexToBytes(s)
FlagOf(b) == IF b THEN 1 ELSE 0
ToAffRaw(h) == ToAff(<<H(HexSlice(h, 0, 32)), H(HexSlice(h, 32, 64)), H(HexSlice(h, 64, 96))>>)
PtOfEnc(h) == LET dd == DecodeB(HB(h)) IN IF dd[1] = "ok" THEN dd[2] ELSE Inf    \* validity is demanded separately by KeyOK
KeyOK(h)  == LET dd == DecodeB(HB(h)) IN dd[1] = "ok" /\ ~IsInf(dd[2])
EOf(dg)   == HashToScalarB(HB(dg))                         \* <<"ok", e>> / <<"err">>

Classes == {"r_zero", "s_zero", "high_s_rej", "high_s_acc", "x_ge_n", "R_inf", "e_zero", "digest_ge_n", "digest_short",
            "digest_long", "digest_huge", "accept", "reject", "enc_asn1", "enc_compact", "enc_rec", "enc_bogus", "rec_wrong_v", "btc_accept",
            "btc_badenv", "btc_high_s", "hash_mismatch", "hash_exotic_accept", "parse_reject", "pub_from_recycled_point", "cmp_shift_n", "digest_scribbled", "kept_key", "rfc6979_short_nonce", "alt_path", "nil_opts",
            "d_one", "d_nm1", "pub_yodd", "pub_yeven", "digest_zero", "digest_ones", "neg_s", "noneg_s", "v0", "v1",
            "sv_same", "build_der", "build_short", "build_compact", "inadmissible_len", "inadmissible_enc", "rfc6979", "hedged", "split_key", "sign_len_long",
            "reader_short_reads", "reader_fail_0", "reader_fail_mid", "reader_fail_31", "reader_err_with_last", "reader_ok",
            "same_triple", "entropy_one_byte_diff", "constant_entropy_diff_msg", "nil_rand", "wiped_import",
            "sample_first", "sample_after_zero", "sample_after_ge_n", "sample_exhausted", "sample_short", "sample_edge_accept",
            "drbg_multi", "drbg_vector", "drbg_long",
            "priv_ok", "priv_zero", "priv_ge_n", "priv_badlen", "pub_ok_unc", "pub_ok_cmp", "pub_identity", "pub_invalid",
            "pub_twist", "ecdh_ok", "ecdh_edge", "ecdh_repeat", "key_immutable", "after_scribble", "after_derive", "steered_u2", "near_miss_r", "sig_stable", "key_after_rejected_decode",
            "rec_v_ge4", "rec_hi_ok", "rec_hi_overflow", "rec_not_x", "rec_q_inf", "rec_rs_zero", "rec_ok", "rec_honest_other_v"}

RPointOf(q, e, r, s) == LET w == SInv(s) IN PAdd(PMulG(SMul(e, w)), PMul(SMul(r, w), q))

VerifyClasses(q, eo, r, s, out) ==
  (IF BigEq(r, 0) THEN {"r_zero"} ELSE {}) \cup (IF BigEq(s, 0) THEN {"s_zero"} ELSE {})
  \cup (IF eo[1] = "err" THEN {"digest_short"} ELSE
          (IF BigEq(eo[2], 0) THEN {"e_zero"} ELSE {})
          \cup (IF ~BigEq(r, 0) /\ ~BigEq(s, 0) /\ (r \prec N) /\ (s \prec N)
                THEN LET rr == RPointOf(q, eo[2], r, s) IN
                     (IF IsInf(rr) THEN {"R_inf"} ELSE IF out /\ (N \preceq rr[1]) THEN {"x_ge_n"} ELSE {})
                ELSE {}))
  \cup (IF out THEN {"accept"} ELSE {"reject"})

DigestClasses(dg) == (IF HexLen(dg) > W THEN {"digest_long"} ELSE {}) \cup (IF HexLen(dg) > 2 * W THEN {"digest_huge"} ELSE {})
                     \cup (IF HexLen(dg) < W /\ HexLen(dg) > 0 THEN {"digest_short"} ELSE {})
                     \cup (IF HexLen(dg) >= W /\ (N \preceq H(HexSlice(dg, 0, W))) THEN {"digest_ge_n"} ELSE {})
                     \cup (IF HexLen(dg) >= W /\ BigEq(H(HexSlice(dg, 0, W)), 0) THEN {"digest_zero"} ELSE {})
                     \cup (IF HexLen(dg) = W /\ BigEq(H(dg), Pow2(8 * W) -- 1) THEN {"digest_ones"} ELSE {})

EncClass(enc) == CASE enc = "asn1" -> {"enc_asn1"} [] enc = "compact" -> {"enc_compact"} [] enc = "recoverable" -> {"enc_rec"} [] OTHER -> {"enc_bogus"}

(* a successful signature (r, s, v) by key d over e is THE output of the signing step for one of the two nonces   *)
(* +-k = +-s^-1 (e + r d) consistent with (r, s): that pins low-s, the ranges and the recovery id exactly         *)
SigIsSignOutput(d, e, r, s, v) ==
  LET k1 == SMul(SInv(s), SAdd(e, SMul(r, d)))
      k2 == SNeg(k1)
      want == <<"sig", r, s, v>>
  IN  ~BigEq(k1, 0) /\ (SignWithNonce(d, e, k1) = want \/ SignWithNonce(d, e, k2) = want)

SigFullyOK(d, e, r, s, v) ==
  LET q == PMulG(d) IN
  /\ ~BigEq(r, 0) /\ (r \prec N) /\ ~BigEq(s, 0) /\ (s \preceq HalfN) /\ v \in 0..3
  /\ VerifyPred(q, e, r, s)
  /\ SigIsSignOutput(d, e, r, s, v)
  /\ \A vv \in 0..3 : LET rc == Recover(e, r, s, vv) IN (rc[1] = "ok" /\ PEq(rc[2], q)) <=> vv = v

SignClasses(d, e, r, s, v) ==
  LET q == PMulG(d)
      k1 == SMul(SInv(s), SAdd(e, SMul(r, d)))
      sg1 == SignWithNonce(d, e, k1)
      kk == IF sg1 = <<"sig", r, s, v>> THEN k1 ELSE SNeg(k1)
      s0 == SMul(SInv(kk), SAdd(e, SMul(r, d)))
  IN  (IF BigEq(d, 1) THEN {"d_one"} ELSE {}) \cup (IF BigEq(d, N -- 1) THEN {"d_nm1"} ELSE {})
      \cup (IF FIsOdd(q[2]) THEN {"pub_yodd"} ELSE {"pub_yeven"})
      \cup (IF SGreaterThanHalfN(s0) THEN {"neg_s"} ELSE {"noneg_s"})
      \cup (IF v = 0 THEN {"v0"} ELSE IF v = 1 THEN {"v1"} ELSE {})

(* io.ReadFull over a scripted reader: reads = << <<asked, n, err>>, ... >>; returns <<wellFormed, delivered, sawErrBeforeFull>> *)
RECURSIVE WalkReads(_, _, _)
WalkReads(reads, i, got) ==
  IF i > Len(reads) THEN <<TRUE, got, FALSE>>
  ELSE LET rd == reads[i] IN
       IF got >= 32 THEN <<FALSE, got, FALSE>>                              \* no read may follow a satisfied request
       ELSE IF rd[1] # 32 - got \/ rd[2] < 0 \/ rd[2] > rd[1] THEN <<FALSE, got, FALSE>>   \* asks exactly for what is missing
       ELSE IF got + rd[2] >= 32 THEN WalkReads(reads, i + 1, got + rd[2])  \* request satisfied: success even if err came along
       ELSE IF rd[3] THEN <<i = Len(reads), got + rd[2], TRUE>>             \* error before 32 bytes: must be the last read
       ELSE WalkReads(reads, i + 1, got + rd[2])

VecB(v) == [i \in 1..Len(v) |-> HB(v[i])]

(* rejection sampler over a finite candidate stream: <<kind, value, candidatesConsumed>> *)
RECURSIVE SampleFrom(_, _)
SampleFrom(stream, i) ==
  IF i > 8 THEN <<"rejection", 0, 8>>
  ELSE IF i > Len(stream) THEN <<"entropy", 0, i - 1>>
  ELSE LET cc == H(stream[i]) IN
       IF (cc \prec N) /\ ~BigEq(cc, 0) THEN <<"ok", cc, i>> ELSE SampleFrom(stream, i + 1)

RECURSIVE DrbgOutputs(_, _)
DrbgOutputs(st, k) == IF k = 0 THEN <<>> ELSE LET rd == DrbgRead(st) IN <<rd[2]>> \o DrbgOutputs(rd[1], k - 1)

Verdict(ev) ==
  CASE ev.ev = "lib.Unexpected" -> << FALSE, {} >>                 \* a call that must succeed failed or panicked
    [] ev.ev = "vfy.Raw" ->
         LET q == PtOfEnc(ev.q)  eo == EOf(ev.digest)  r == H(ev.r)  s == H(ev.s)
             want == eo[1] = "ok" /\ VerifyPred(q, eo[2], r, s) IN
         << KeyOK(ev.q) /\ (ev.out <=> want),
            VerifyClasses(q, eo, r, s, ev.out) \cup DigestClasses(ev.digest) \cup (IF Has(ev, "after_scribble") THEN {"after_scribble"} ELSE {})
            \cup (IF Has(ev, "after_derive") THEN {"after_derive"} ELSE {})
            \cup (IF Has(ev, "near_miss") /\ ~want THEN {"near_miss_r"} ELSE {})
            \cup (IF Has(ev, "kept_key") /\ want THEN {"kept_key"} ELSE {}) >>
    [] ev.ev = "vfy.Alt" ->
         LET d == H(ev.d)  eo == EOf(ev.digest)  r == H(ev.r)  s == H(ev.s)
             want == eo[1] = "ok" /\ VerifyPred(PMulG(d), eo[2], r, s) IN
         << (ev.out <=> want) /\ (eo[1] = "ok" => (want <=> VerifyAltM(PMul, d, eo[2], r, s))), {"alt_path"} >>
    [] ev.ev = "vfy.Enc" ->
         LET q == PtOfEnc(ev.q)  dg == HB(ev.digest)  sig == HB(ev.sig)
             want == VerifyEncoded(q, dg, sig, ev.hasopts, ev.hash, ev.enc, ev.rejmal)
             eff == IF ev.hasopts THEN ev.enc ELSE "asn1"
             p == CASE eff = "asn1" -> ParseDerSig(sig) [] eff = "compact" -> ParseCompact(sig, FALSE)
                    [] eff = "recoverable" -> ParseCompact(sig, TRUE) [] OTHER -> <<"err">>
         IN
         << KeyOK(ev.q) /\ (ev.out <=> want),
            EncClass(eff) \cup (IF ev.out THEN {"accept"} ELSE {"reject"}) \cup (IF ~ev.hasopts THEN {"nil_opts"} ELSE {})
            \cup (IF ev.hasopts /\ Len(dg) # ev.hash THEN {"hash_mismatch"} ELSE {})
            \cup (IF Has(ev, "hashid") /\ ev.hashid >= 8 /\ want THEN {"hash_exotic_accept"} ELSE {})      \* a selector of a hash nobody links only sizes the digest
            \cup (IF p[1] = "err" THEN {"parse_reject"} ELSE
                    (IF SGreaterThanHalfN(p[3]) /\ ev.hasopts /\ ev.rejmal /\ ~ev.out THEN {"high_s_rej"} ELSE {})
                    \cup (IF SGreaterThanHalfN(p[3]) /\ ev.out THEN {"high_s_acc"} ELSE {})
                    \cup (IF eff = "recoverable" /\ ~ev.out /\ Len(dg) >= W /\ VerifyPred(q, HashToScalarB(dg)[2], p[2], p[3])
                          THEN {"rec_wrong_v"} ELSE {}))
            \cup (IF eff \in {"compact", "recoverable"} /\ p[1] = "err" /\ Len(sig) >= 2 * W /\ Len(dg) >= W /\ ~ev.out
                     /\ LET r0 == OS2IP(SubSeq(sig, 1, W))  s0 == OS2IP(SubSeq(sig, W + 1, 2 * W)) IN
                        ((N \preceq r0) # (N \preceq s0)) /\ VerifyPred(q, HashToScalarB(dg)[2], r0 %% N, s0 %% N)
                  THEN {"cmp_shift_n"} ELSE {})                       \* valid once reduced, rejected as written: one half carries value + n
            \cup DigestClasses(ev.digest) >>
    [] ev.ev = "vfy.Btc" ->
         LET q == PtOfEnc(ev.q)  dg == HB(ev.digest)  sig == HB(ev.sig)
             inner == IF Len(sig) >= 1 THEN ParseDerSig(SubSeq(sig, 1, Len(sig) - 1)) ELSE <<"err">> IN
         << KeyOK(ev.q) /\ (ev.out <=> VerifyBitcoin(q, dg, sig)),
            (IF ev.out THEN {"btc_accept"} ELSE {}) \cup (IF ~IsBip66(sig) THEN {"btc_badenv"} ELSE {})
            \cup (IF IsBip66(sig) /\ inner[1] = "ok" /\ SGreaterThanHalfN(inner[3]) /\ ~ev.out THEN {"btc_high_s"} ELSE {}) >>
    (* ---------------- C08 ---------------- *)
    [] ev.ev = "sig.Raw" /\ ev.rng # "reader" ->
         LET d == H(ev.d)  eo == EOf(ev.digest) IN
         IF eo[1] = "err" THEN << ~ev.ok, {"inadmissible_len"} >>
         ELSE LET e == eo[2]  r == H(ev.r)  s == H(ev.s) IN
         << ev.ok /\ HexLen(ev.r) = W /\ HexLen(ev.s) = W /\ SigFullyOK(d, e, r, s, ev.v)
              /\ (ev.rng = "rfc6979" =>
                    LET k == OS2IP(Candidate(I2OSP(d, W), I2OSP(e, W), 1)) IN
                    ((k \prec N) /\ ~BigEq(k, 0)) => SignWithNonce(d, e, k) = <<"sig", r, s, ev.v>>),
            SignClasses(d, e, r, s, ev.v) \cup DigestClasses(ev.digest) \cup (IF ev.rng = "rfc6979" THEN {"rfc6979"} ELSE {"hedged"})
            \cup (IF ev.rng = "rfc6979" /\ Has(ev, "shape") /\ (OS2IP(Candidate(I2OSP(d, W), I2OSP(e, W), 1)) \prec Pow2(8 * W - 8)) THEN {"rfc6979_short_nonce"} ELSE {}) >>
    [] ev.ev = "sig.Enc" ->
         LET d == H(ev.d)  dg == HB(ev.digest)
             admissible == /\ Len(dg) >= W
                           /\ (ev.optkind # "nil" => Len(dg) = ev.hash)
                           /\ (ev.optkind = "ecdsa" => ev.enc \in {"asn1", "compact", "recoverable"})
             eff == IF ev.optkind = "ecdsa" THEN ev.enc ELSE "asn1"
         IN
         IF ~admissible THEN << ~ev.ok /\ ev.sig = "" /\ ~ev.ok_sv /\ ev.sig_sv = "",
                                (IF Len(dg) < W \/ (ev.optkind # "nil" /\ Len(dg) # ev.hash) THEN {"inadmissible_len"} ELSE {"inadmissible_enc"}) >>
         ELSE LET sig == HB(ev.sig)  e == HashToScalarB(dg)[2]
                  p == CASE eff = "asn1" -> ParseDerSig(sig) [] eff = "compact" -> ParseCompact(sig, FALSE)
                         [] eff = "recoverable" -> ParseCompact(sig, TRUE)
                  q == PMulG(d)
         IN << /\ ev.ok /\ ev.ok_sv /\ ev.sig_sv = ev.sig                                 \* self-verification never changes the output
               /\ p[1] = "ok"
               /\ sig = (CASE eff = "asn1" -> BuildDerSig(p[2], p[3]) [] eff = "compact" -> BuildCompact(p[2], p[3])
                           [] eff = "recoverable" -> BuildCompactRec(p[2], p[3], p[4]))     \* the one canonical encoding
               /\ (p[3] \preceq HalfN) /\ VerifyPred(q, e, p[2], p[3])
               /\ (eff = "recoverable" => SigFullyOK(d, e, p[2], p[3], p[4]))
               /\ \E v \in 0..3 : SigIsSignOutput(d, e, p[2], p[3], v),
               EncClass(eff) \cup {"sv_same"} \cup (IF Len(dg) > W THEN {"sign_len_long"} ELSE {})
               \cup (IF ev.optkind = "nil" THEN {"nil_opts"} ELSE {}) \cup DigestClasses(ev.digest) >>
    [] ev.ev = "key.AfterRejectedDecode" ->      \* a Point holding d*G was the receiver of rejected decodes; the key built from it is d*G's
         LET a == PMulG(H(ev.d)) IN
         << ev.rejected /\ ev.ok /\ ev.unc = EncUncompressedH(a) /\ ev.cmp = EncCompressedH(a), {"key_after_rejected_decode"} >>
    [] ev.ev = "sig.Stable" -> << ev.now = ev.then, {"sig_stable"} >>     \* a signature handed out earlier is untouched by later signing
    [] ev.ev = "der.Build" ->           \* the encoder Sign uses: canonical DER and it parses back
         LET r == H(ev.r)  s == H(ev.s)  want == BuildDerSig(r, s) IN
         << HB(ev.out) = want /\ ParseDerSig(want) = <<"ok", r, s>> /\ ev.reparsed,
            {"build_der"} \cup (IF (r \prec Pow2(8 * W - 16)) \/ (s \prec Pow2(8 * W - 16)) THEN {"build_short"} ELSE {}) >>
    [] ev.ev = "cmp.Build" ->
         << HB(ev.out) = BuildCompactRec(H(ev.r), H(ev.s), ev.v) /\ ev.reparsed, {"build_compact"} >>
    (* ---------------- C09 ---------------- *)
    [] ev.ev = "nonce.Sample" ->
         LET sm == SampleFrom(ev.stream, 1) IN
         << CASE sm[1] = "ok" -> ev.ok /\ IntIsHex(sm[2], W, ev.out) /\ ev.consumed = 32 * sm[3]
              [] sm[1] = "rejection" -> ~ev.ok /\ ev.errkind = "rejection" /\ ev.consumed = 32 * 8
              [] sm[1] = "entropy" -> ~ev.ok /\ ev.errkind = "entropy",
            (IF sm[1] = "ok" /\ sm[3] = 1 THEN {"sample_first"} ELSE {})
            \cup (IF sm[1] = "ok" /\ sm[3] > 1 /\ \E i \in 1..(sm[3] - 1) : BigEq(H(ev.stream[i]), 0) THEN {"sample_after_zero"} ELSE {})
            \cup (IF sm[1] = "ok" /\ sm[3] > 1 /\ \E i \in 1..(sm[3] - 1) : N \preceq H(ev.stream[i]) THEN {"sample_after_ge_n"} ELSE {})
            \cup (IF sm[1] = "rejection" THEN {"sample_exhausted"} ELSE {}) \cup (IF sm[1] = "entropy" THEN {"sample_short"} ELSE {})
            \cup (IF sm[1] = "ok" /\ (BigEq(sm[2], 1) \/ BigEq(sm[2], N -- 1)) THEN {"sample_edge_accept"} ELSE {}) >>
    [] ev.ev = "drbg.Read" ->
         LET x == HB(ev.x)  h1 == HB(ev.e)  k == Len(ev.outs)
             outs == DrbgOutputs(DrbgInit(x, h1), k) IN
         << outs = VecB(ev.outs) /\ \A i \in (1..k) \cap ((1..6) \cup {k}) : outs[i] = Candidate(x, h1, i),     \* deferred-update machine = RFC's eager loop
            (IF k > 1 THEN {"drbg_multi"} ELSE {}) \cup (IF ev.vector THEN {"drbg_vector"} ELSE {})
            \cup (IF k > 256 THEN {"drbg_long"} ELSE {}) >>      \* (long runs: every output against the machine, the first six and the last against the eager loop)
    (* ---------------- C10 ---------------- *)
    [] ev.ev = "key.Private" ->
         LET b == HB(ev["in"])  v == IF Len(b) = W THEN OS2IP(b) ELSE 0
             good == Len(b) = W /\ ~BigEq(v, 0) /\ (v \prec N) IN
         << IF good THEN /\ ev.ok /\ ev.bytes = ev["in"] /\ ev.scalar = ev["in"]
                         /\ ev.pub = EncUncompressedH(PMulG(v)) /\ ev.pubcmp = EncCompressedH(PMulG(v))
                         /\ ev.pubpoint = ev.pub
                    ELSE ~ev.ok,
            IF good THEN {"priv_ok"} ELSE IF Len(b) # W THEN {"priv_badlen"} ELSE IF BigEq(v, 0) THEN {"priv_zero"} ELSE {"priv_ge_n"} >>
    [] ev.ev = "key.PrivateFromScalar" ->
         LET v == H(ev.s) IN
         << IF BigEq(v, 0) THEN ~ev.ok ELSE ev.ok /\ ev.bytes = ev.s /\ ev.pub = EncUncompressedH(PMulG(v)),
            IF BigEq(v, 0) THEN {"priv_zero"} ELSE {"priv_ok"} >>
    [] ev.ev = "key.Public" ->
         LET b == HB(ev["in"])  dd == DecodeB(b)  good == dd[1] = "ok" /\ ~IsInf(dd[2]) IN
         << IF good THEN /\ ev.ok /\ ev.unc = EncUncompressedH(dd[2]) /\ ev.cmp = EncCompressedH(dd[2])
                         /\ ev.point = ev.unc /\ HB(ev.asn1) = BuildSpki(HB(ev.unc))
                    ELSE ~ev.ok,
            IF good THEN (IF Len(b) = W + 1 THEN {"pub_ok_cmp"} ELSE {"pub_ok_unc"})
            ELSE (IF dd[1] = "ok" THEN {"pub_identity"} ELSE {"pub_invalid"}) \cup (IF ev.twist THEN {"pub_twist"} ELSE {}) >>
    [] ev.ev = "key.PublicFromPoint" ->
         LET a == ToAffRaw(ev.p) IN
         << IF IsInf(a) THEN ~ev.ok ELSE ev.ok /\ ev.unc = EncUncompressedH(a) /\ ev.cmp = EncCompressedH(a),
            (IF IsInf(a) THEN {"pub_identity"} ELSE {"pub_ok_unc"}) \cup (IF Has(ev, "recycled") /\ ~IsInf(a) THEN {"pub_from_recycled_point"} ELSE {}) >>
    [] ev.ev = "key.Immutable" ->         \* the caller scribbled over every slice / scalar / point handed out or passed in
         << /\ ev.kb2 = ev.kb1 /\ ev.pb2 = ev.pb1 /\ ev.pc2 = ev.pc1 /\ ev.pa2 = ev.pa1 /\ ev.pp2 = ev.pp1 /\ ev.sig2 = ev.sig1
            /\ ev.copies_ok /\ ev.verify_after /\ ev.kb1 = ev.d /\ ev.pb1 = EncUncompressedH(PMulG(H(ev.d))) /\ ev.pp1 = ev.pb1,
            {"key_immutable"} >>
    [] ev.ev = "ecdh.Repeat" ->           \* the same key objects used twice: identical secrets, operands untouched
         LET a == H(ev.a)  b == H(ev.b)  want == EcdhM(PMul, SMul(a, b), GenPt) IN
         << /\ ev.ok /\ want[1] = "ok" /\ IntIsHex(want[2], W, ev.ab1) /\ ev.ab2 = ev.ab1 /\ ev.ba1 = ev.ab1 /\ ev.ba2 = ev.ab1
            /\ ev.peer_bytes = EncUncompressedH(PMulG(b)) /\ ev.peer_point = ev.peer_bytes
            /\ ev.apub_bytes = EncUncompressedH(PMulG(a)) /\ ev.apub_point = ev.apub_bytes,
            {"ecdh_repeat"} >>
    [] ev.ev = "ecdh" ->
         LET a == H(ev.a)  b == H(ev.b)  want == EcdhM(PMul, SMul(a, b), GenPt) IN
         << /\ KeyOK(ev.bpub) /\ PEq(PtOfEnc(ev.bpub), PMulG(b)) /\ KeyOK(ev.apub) /\ PEq(PtOfEnc(ev.apub), PMulG(a))
            /\ ev.okab /\ ev.okba /\ ev.ab = ev.ba /\ want[1] = "ok" /\ IntIsHex(want[2], W, ev.ab)
            /\ EcdhM(PMul, a, PMulG(b)) = EcdhM(PMul, b, PMulG(a)),
            {"ecdh_ok"} \cup (IF BigEq(a, 1) \/ BigEq(a, N -- 1) \/ BigEq(b, 1) \/ BigEq(b, N -- 1) THEN {"ecdh_edge"} ELSE {}) >>
    (* ---------------- C11 ---------------- *)
    [] ev.ev = "rec.Recover" ->
         LET eo == EOf(ev.digest)  r == H(ev.r)  s == H(ev.s)
             rc == IF eo[1] = "err" THEN <<"err">> ELSE Recover(eo[2], r, s, ev.v)
             rp == RecoverPointD(r, ev.v) IN
         << IF rc[1] = "ok" THEN ev.ok /\ ev.q = EncUncompressedH(rc[2]) /\ VerifyPred(rc[2], eo[2], r, s)
                            ELSE ~ev.ok /\ ev.q = "",
            (IF ev.v >= 4 THEN {"rec_v_ge4"} ELSE {})
            \cup (IF ev.v \in {2, 3} /\ rp[1] = "ok" THEN {"rec_hi_ok"} ELSE {})
            \cup (IF ev.v \in {2, 3} /\ ~((r ++ N) \prec P) THEN {"rec_hi_overflow"} ELSE {})
            \cup (IF ev.v \in {0, 1} /\ rp[1] = "err" THEN {"rec_not_x"} ELSE {})
            \cup (IF BigEq(r, 0) \/ BigEq(s, 0) THEN {"rec_rs_zero"} ELSE {})
            \cup (IF rp[1] = "ok" /\ ~BigEq(r, 0) /\ ~BigEq(s, 0) /\ eo[1] = "ok" /\ rc[1] = "err" THEN {"rec_q_inf"} ELSE {})
            \cup (IF rc[1] = "ok" THEN {"rec_ok"} ELSE {}) \cup (IF rc[1] = "ok" THEN DigestClasses(ev.digest) ELSE {})
            \cup (IF Has(ev, "honest") /\ ev.honest /\ rc[1] = "ok" /\ ev.q # ev.signer THEN {"rec_honest_other_v"} ELSE {}) >>

(* ---- stateful: hedged signing through a scripted entropy reader ---- *)
IsStateful(ev) == ev.ev = "sig.Raw" /\ ev.rng = "reader"

Key3(ev, e) == <<ev.d, IntToHex(e, W), ev.entropy>>

(* <<ok, classes, seenKey', seenR'>> *)
StatefulVerdict(ev) ==
  LET wk == WalkReads(ev.reads, 1, 0)  eo == EOf(ev.digest) IN
  IF eo[1] = "err" THEN << ~ev.ok /\ Len(ev.reads) = 0, {"inadmissible_len"}, seenKey, seenR >>
  ELSE IF ~(wk[1] /\ wk[2] >= 32) THEN
       (* entropy request not satisfied: no signature; the reader protocol must still be ReadFull's *)
       << wk[1] /\ wk[3] /\ ~ev.ok,
          (IF wk[2] = 0 THEN {"reader_fail_0"} ELSE IF wk[2] = 31 THEN {"reader_fail_31"} ELSE {"reader_fail_mid"}), seenKey, seenR >>
  ELSE LET d == H(ev.d)  r == H(ev.r)  s == H(ev.s)
           (* a reader that rewrote the digest buffer during the call: the library may have signed either content; the triple is the signed one's *)
           ea == IF Has(ev, "digest_alt") THEN EOf(ev.digest_alt) ELSE eo
           e == IF Has(ev, "digest_alt") /\ ev.ok /\ ea[1] = "ok" /\ ~SigFullyOK(d, eo[2], r, s, ev.v) /\ SigFullyOK(d, ea[2], r, s, ev.v) THEN ea[2] ELSE eo[2]
           key == Key3(ev, e)
           known == key \in DOMAIN seenKey
           fresh == ev.r \notin DOMAIN seenR
       IN
       << /\ ev.ok /\ wk[2] = 32 /\ HexLen(ev.entropy) = 32                               \* exactly 32 bytes of caller entropy
          /\ SigFullyOK(d, e, r, s, ev.v)
          /\ (known => seenKey[key] = <<ev.r, ev.s>>)                                     \* deterministic in (d, e, entropy), however chunked
          /\ (~known => fresh)                                                            \* a different triple never shares r
          /\ (~fresh => seenR[ev.r] = key),
          {"reader_ok"} \cup (IF Len(ev.reads) > 1 THEN {"reader_short_reads"} ELSE {})
          \cup (IF \E i \in 1..Len(ev.reads) : ev.reads[i][3] THEN {"reader_err_with_last"} ELSE {})
          \cup (IF known THEN {"same_triple"} ELSE {})
          \cup (IF Has(ev, "nil_rand") THEN {"nil_rand"} ELSE {}) \cup (IF Has(ev, "wiped_import") THEN {"wiped_import"} ELSE {})
          \cup (IF Has(ev, "split_key") THEN {"split_key"} ELSE {}) \cup (IF Has(ev, "digest_alt") THEN {"digest_scribbled"} ELSE {})
          \cup (IF ~known /\ \E k \in DOMAIN seenKey : k[1] = key[1] /\ k[2] = key[2] THEN {"entropy_one_byte_diff"} ELSE {})
          \cup (IF ~known /\ \E k \in DOMAIN seenKey : k[3] = key[3] /\ (k[1] # key[1] \/ k[2] # key[2]) THEN {"constant_entropy_diff_msg"} ELSE {}),
          IF known THEN seenKey ELSE [k \in DOMAIN seenKey \cup {key} |-> IF k = key THEN <<ev.r, ev.s>> ELSE seenKey[k]],
          IF ~fresh THEN seenR ELSE [k \in DOMAIN seenR \cup {ev.r} |-> IF k = ev.r THEN key ELSE seenR[k]] >>

Init == /\ tl = 1 /\ tBad = 0 /\ tCnt = [k \in Classes \cup {"_any"} |-> 0]
        /\ seenKey = <<>> /\ seenR = <<>>

Step ==
  /\ tl <= NLog
  /\ LET ev == Log[tl] IN
     IF IsStateful(ev)
     THEN LET v == StatefulVerdict(ev) IN
          /\ tBad' = IF v[1] THEN tBad ELSE tBad + 1
          /\ (IF v[1] THEN TRUE ELSE Mismatch(tl, ev))
          /\ tCnt' = BumpAll(tCnt, v[2])
          /\ seenKey' = v[3] /\ seenR' = v[4]
     ELSE LET v == Verdict(ev) IN
          /\ tBad' = IF v[1] THEN tBad ELSE tBad + 1
          /\ (IF v[1] THEN TRUE ELSE Mismatch(tl, ev))
          /\ tCnt' = BumpAll(tCnt, v[2])
          /\ UNCHANGED <<seenKey, seenR>>
  /\ tl' = tl + 1

Finish == tl = NLog + 1 /\ Done(tl, tBad, tCnt) /\ tl' = tl + 1 /\ UNCHANGED <<tBad, tCnt, seenKey, seenR>>

Next == Step \/ Finish
Spec == Init /\ [][Next]_<<tl, tBad, tCnt, seenKey, seenR>>
=============================================================================
