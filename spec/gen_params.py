#!/usr/bin/env python3
"""Generate parameter files for the specification.

params/secp256k1.json : the real curve (SEC 2 / libsecp256k1 sage output / RFC 9380), hex strings.
params/mini<p>.json    : secp256k1-shaped miniature curves y^2 = x^3 + 7 over F_p with
                         p = 1 (mod 3), p = 3 (mod 4), prime order n != p, plus GLV constants
                         computed the way libsecp256k1's sage script computes them.
The generated numbers are NOT trusted: Params.tla re-verifies every relation with TLC (ASSUMEs).
"""
import json, os, sys
from math import isqrt

def is_prime(n):
    if n < 2: return False
    for q in range(2, isqrt(n) + 1):
        if n % q == 0: return False
    return True

def curve_points(p, b):
    sq = {}
    for y in range(p):
        sq.setdefault(y * y % p, []).append(y)
    pts = []
    for x in range(p):
        for y in sq.get((x * x * x + b) % p, []):
            pts.append((x, y))
    return pts

def add(P, Q, p):
    if P is None: return Q
    if Q is None: return P
    if P[0] == Q[0]:
        if (P[1] + Q[1]) % p == 0: return None
        lam = 3 * P[0] * P[0] * pow(2 * P[1], -1, p) % p
    else:
        lam = (Q[1] - P[1]) * pow(Q[0] - P[0], -1, p) % p
    x = (lam * lam - P[0] - Q[0]) % p
    return (x, (lam * (P[0] - x) - P[1]) % p)

def mul(k, P, p):
    R = None
    for bit in bin(k)[2:]:
        R = add(R, R, p)
        if bit == '1': R = add(R, P, p)
    return R

def rnd_div(a, b):
    """round(a/b), ties up, b > 0"""
    return (2 * a + b) // (2 * b)

def glv(n, lam, t):
    # truncated extended Euclid on (n, lam): find short vectors (a1,b1),(a2,b2) with a + b*lam = 0 mod n
    r0, r1, t0, t1 = n, lam, 0, 1
    rows = [(r0, t0), (r1, t1)]
    while r1 != 0:
        q = r0 // r1
        r0, r1, t0, t1 = r1, r0 - q * r1, t1, t0 - q * t1
        rows.append((r1, t1))
    s = isqrt(n)
    l = max(i for i, (r, _) in enumerate(rows) if r >= s)
    a1, b1 = rows[l + 1][0], -rows[l + 1][1]
    c0 = (rows[l][0], -rows[l][1]); c2 = (rows[l + 2][0], -rows[l + 2][1])
    a2, b2 = c0 if c0[0] ** 2 + c0[1] ** 2 <= c2[0] ** 2 + c2[1] ** 2 else c2
    assert (a1 + b1 * lam) % n == 0 and (a2 + b2 * lam) % n == 0
    # orient like the real curve: b1 < 0 < b2, so that both multipliers g1, g2 are non-negative
    if b1 > 0: a1, b1 = -a1, -b1
    if b2 < 0: a2, b2 = -a2, -b2
    assert b1 < 0 < b2
    det = a1 * b2 - a2 * b1
    assert abs(det) == n, (det, n)
    sgn = det // n
    g1 = rnd_div((1 << t) * b2, n)
    g2 = rnd_div((1 << t) * (-b1), n)
    # multipliers used by the code: k2 = c1*negb1 + c2*negb2 with c_i = round(k*g_i / 2^t)
    return (-sgn * b1) % n, (-sgn * b2) % n, g1, g2

def split(k, n, lam, negb1, negb2, g1, g2, t):
    def mulshift(k, g):
        prod = k * g
        return (prod >> t) + ((prod >> (t - 1)) & 1)
    c1 = mulshift(k, g1); c2 = mulshift(k, g2)
    k2 = (c1 * negb1 + c2 * negb2) % n
    k1 = (k - k2 * lam) % n
    return k1, k2

def mini(p):
    b = 7
    pts = curve_points(p, b)
    n = len(pts) + 1
    assert is_prime(n) and n != p and p % 3 == 1 and p % 4 == 3
    G = min(pts)                       # deterministic generator choice (prime order: any point generates)
    beta = next(x for x in range(2, p) if pow(x, 3, p) == 1)
    lam = next(l for l in range(2, n) if pow(l, 3, n) == 1 and mul(l, G, p) == (beta * G[0] % p, G[1]))
    bits = n.bit_length()
    # shift chosen like the real curve: 1.5x the scalar width, rounded to the byte width
    t = 2 * bits
    negb1, negb2, g1, g2 = glv(n, lam, t)
    half = (n - 1) // 2
    worst = 0
    for k in range(n):
        k1, k2 = split(k, n, lam, negb1, negb2, g1, g2, t)
        assert (k1 + k2 * lam) % n == k
        m1 = n - k1 if k1 > half else k1
        m2 = n - k2 if k2 > half else k2
        worst = max(worst, m1, m2)
    wbits = 2                                              # miniature window width (real curve: 4)
    hbits = ((worst.bit_length() + wbits - 1) // wbits) * wbits   # ladder consumes whole windows
    W = (p.bit_length() + 7) // 8
    return dict(mini=True, name="mini%d" % p, p=p, n=n, b=b, gx=G[0], gy=G[1], w=W,
                beta=beta, lam=lam, negb1=negb1, negb2=negb2, g1=g1, g2=g2, t=t, hbits=hbits, wbits=wbits,
                halfworst=worst)

SECP = dict(
    mini=False, name="secp256k1", w=32, b="07", t=384, hbits=128, wbits=4,
    p="fffffffffffffffffffffffffffffffffffffffffffffffffffffffefffffc2f",
    n="fffffffffffffffffffffffffffffffebaaedce6af48a03bbfd25e8cd0364141",
    gx="79be667ef9dcbbac55a06295ce870b07029bfcdb2dce28d959f2815b16f81798",
    gy="483ada7726a3c4655da4fbfc0e1108a8fd17b448a68554199c47d08ffb10d4b8",
    beta="7ae96a2b657c07106e64479eac3434e99cf0497512f58995c1396c28719501ee",
    lam="5363ad4cc05c30e0a5261c028812645a122e22ea20816678df02967c1b23bd72",
    negb1="00000000000000000000000000000000e4437ed6010e88286f547fa90abfe4c3",
    negb2="fffffffffffffffffffffffffffffffe8a280ac50774346dd765cda83db1562c",
    g1="3086d221a7d46bcde86c90e49284eb153daa8a1471e8ca7fe893209a45dbb031",
    g2="e4437ed6010e88286f547fa90abfe4c4221208ac9df506c61571b4ae8ac47f71",
)

if __name__ == "__main__":
    out = os.path.join(os.path.dirname(os.path.abspath(__file__)), "params")
    os.makedirs(out, exist_ok=True)
    json.dump(SECP, open(os.path.join(out, "secp256k1.json"), "w"), indent=1)
    for p in (43, 79, 163, 211):
        m = mini(p)
        json.dump(m, open(os.path.join(out, "mini%d.json" % p), "w"), indent=1)
        print(m)
