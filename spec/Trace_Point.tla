------------------------------ MODULE Trace_Point ------------------------------
(***************************************************************************)
(* C03, C04, C05, C06, C16 — trace specification for the Point type at     *)
(* full size.  Operands and results are logged as raw projective triples   *)
(* (96 bytes X || Y || Z in hex, read through the verif accessors) so that *)
(* the specification itself decides validity of representatives and maps   *)
(* them to abstract points; encodings returned by the library are compared *)
(* with the specification's own SEC 1 encoder.                             *)
(*                                                                         *)
(* State: the generator-table walk (C05) and operation chains (C03         *)
(* histories) are stateful: the specification carries its own abstract     *)
(* accumulator and never trusts an intermediate value from the log.        *)
(***************************************************************************)
EXTENDS TraceBase, Projective, Mul, Sec1

VARIABLES tl, tBad, tCnt,
          tblBase, tblAcc,      \* C05: <<i, enc(256^i G)>> and enc((j)*256^i G) of the row being walked ("" before a row)
          chain                 \* C03: abstract accumulator of the running operation chain, as an uncompressed encoding

H(s)      == HexToInt(s)
FlagOf(b) == IF b THEN 1 ELSE 0

Proj(h)   == <<H(HexSlice(h, 0, 32)), H(HexSlice(h, 32, 64)), H(HexSlice(h, 64, 96))>>
IsRaw(h)  == HexLen(h) = 96
AffOf(h)  == ToAff(Proj(h))                                  \* abstract point of a logged representative
DecPt(h)  == LET d == DecodeH(h) IN IF d[1] = "ok" THEN d[2] ELSE Inf   \* abstract point of an encoding; TOTAL: a garbage operand logged by a defective library can put a non-point into the carried state (round 10: the trace must be rejected, not crash)
RawOK(h, a) == IsRaw(h) /\ Represents(Proj(h), a)            \* h is a valid representative of the abstract point a
OperandOK(h) == IsRaw(h) /\ ProjValid(Proj(h))

Classes == {"add_inf_inf", "add_inf_p", "add_p_inf", "add_p_p", "add_p_negp", "add_generic", "add_inf_altrep",
            "z_not_one", "alias_recv", "alias_all", "mixed_p_p", "mixed_p_negp", "mixed_inf", "dbl_inf", "dbl_order2free",
            "equal_true_diffrep", "equal_neg", "equal_same_y", "equal_collinear", "equal_limb_twin", "life_reject_cmp", "life_decode_id", "equal_inf_inf", "equal_p_inf", "yodd", "yeven", "inf_parity", "enc_inf", "chain_step",
            "split_extreme", "split_neg1", "split_neg2", "split_round_flip", "split_limb_carry", "split_edge",
            "mul_zero", "mul_inf", "mul_alias", "mul_edge_scalar", "mul_altrep", "glv_bound",
            "tbl_huge", "tbl_odd", "tbl_row", "bm_single_byte", "bm_zero_nibble", "bm_edge", "bm_priv", "bm_priv_after_derive", "bm_recycled",
            "dec_ok_cmp", "dec_ok_unc", "dec_ok_inf", "dec_bad_len", "dec_bad_prefix", "dec_noncanon_x", "dec_noncanon_y",
            "dec_offcurve", "dec_nonresidue", "dec_hybrid", "dec_recv_uninit", "dec_recv_kept", "dec_fresh", "coords_ok", "coords_bad",
            "rec_ok_low", "rec_ok_high", "rec_overflow", "rec_overflow_low_limbs_pass", "rec_bad_id", "rec_nonresidue",
            "msm_len0", "msm_len1", "msm_len2", "msm_len3plus", "msm_long", "msm_zero_scalar", "msm_inf_point", "msm_dup",
            "msm_inverse", "msm_alias", "msm_alias_far", "msm_mismatch", "msm_cancel", "dsm", "dsm_only_base", "dsm_only_var", "dsm_cancel", "dsm_window_meet", "mul_seq", "life_step", "life_reject", "life_inf", "life_ctrl"}

(* ---- classification helpers ---- *)
AddClass(a, b, ph, qh) ==
  (IF IsInf(a) /\ IsInf(b) THEN {"add_inf_inf"} ELSE {})
  \cup (IF IsInf(a) /\ ~IsInf(b) THEN {"add_inf_p"} ELSE {})
  \cup (IF ~IsInf(a) /\ IsInf(b) THEN {"add_p_inf"} ELSE {})
  \cup (IF ~IsInf(a) /\ ~IsInf(b) /\ PEq(a, b) THEN {"add_p_p"} ELSE {})
  \cup (IF ~IsInf(a) /\ ~IsInf(b) /\ PEq(a, PNeg(b)) THEN {"add_p_negp"} ELSE {})
  \cup (IF ~IsInf(a) /\ ~IsInf(b) /\ ~BigEq(a[1], b[1]) THEN {"add_generic"} ELSE {})
  \cup (IF (IsInf(a) /\ ~BigEq(Proj(ph)[2], 1)) \/ (IsInf(b) /\ ~BigEq(Proj(qh)[2], 1)) THEN {"add_inf_altrep"} ELSE {})
  \cup (IF (~IsInf(a) /\ ~BigEq(Proj(ph)[3], 1)) \/ (~IsInf(b) /\ ~BigEq(Proj(qh)[3], 1)) THEN {"z_not_one"} ELSE {})
AliasClass(ev) == (IF ev.alias \in {"v=p", "v=q"} THEN {"alias_recv"} ELSE {})
                  \cup (IF ev.alias = "v=p=q" THEN {"alias_all"} ELSE {})

EdgeScalar(s) == (s \prec 3) \/ ((N -- s) \prec 3) \/ (AbsI(s -- HalfN) \prec 3)

VecH(v)  == [i \in 1..Len(v) |-> H(v[i])]
VecP(v)  == [i \in 1..Len(v) |-> AffOf(v[i])]

(* result check shared by every operation that returns a point: valid representative of `want`, *)
(* and, when the event carries the library's encoding of the result, that encoding is the spec's *)
ResultOK(ev, want) ==
  /\ RawOK(ev.out, want)
  /\ (Has(ev, "enc") => ev.enc = EncUncompressedH(want))

(* ---- verdict: <<ok, classes, tblBase', tblAcc', chain'>> is split: pure part here ---- *)
Verdict(ev) ==
  CASE ev.ev = "lib.Unexpected" -> << FALSE, {} >>                 \* a call that must succeed failed or panicked
    [] ev.ev \in {"pt.Add", "pt.AddC", "pt.Sub"} ->
         LET a == AffOf(ev.p)  b == AffOf(ev.q)
             want == IF ev.ev = "pt.Sub" THEN PSub(a, b) ELSE PAdd(a, b) IN
         << OperandOK(ev.p) /\ OperandOK(ev.q) /\ ResultOK(ev, want)
              /\ (ev.alias \in {"none", "v=q"} => ev.p_post = ev.p) /\ (ev.alias \in {"none", "v=p"} => ev.q_post = ev.q),
            AddClass(a, IF ev.ev = "pt.Sub" THEN PNeg(b) ELSE b, ev.p, ev.q) \cup AliasClass(ev) >>
    [] ev.ev = "pt.AddMixed" ->
         LET a == AffOf(ev.p)  b == <<H(ev.x2), H(ev.y2)>> IN
         << OperandOK(ev.p) /\ ValidPoint(b) /\ ResultOK(ev, PAdd(a, b)),
            (IF IsInf(a) THEN {"mixed_inf"} ELSE IF PEq(a, b) THEN {"mixed_p_p"} ELSE IF PEq(a, PNeg(b)) THEN {"mixed_p_negp"} ELSE {})
            \cup AliasClass(ev) >>
    [] ev.ev \in {"pt.Dbl", "pt.DblC"} ->
         LET a == AffOf(ev.p) IN
         << OperandOK(ev.p) /\ ResultOK(ev, PDbl(a)),
            (IF IsInf(a) THEN {"dbl_inf"} ELSE {"dbl_order2free"}) \cup AliasClass(ev)
            \cup (IF ~IsInf(a) /\ ~BigEq(Proj(ev.p)[3], 1) THEN {"z_not_one"} ELSE {}) >>
    [] ev.ev = "pt.Neg" -> << OperandOK(ev.p) /\ ResultOK(ev, PNeg(AffOf(ev.p))), AliasClass(ev) >>
    [] ev.ev = "pt.CNeg" ->
         LET a == AffOf(ev.p) IN << OperandOK(ev.p) /\ ResultOK(ev, IF ev.c = 0 THEN a ELSE PNeg(a)), AliasClass(ev) >>
    [] ev.ev = "pt.CSel" ->
         << OperandOK(ev.a) /\ OperandOK(ev.b) /\ ResultOK(ev, IF ev.c = 0 THEN AffOf(ev.a) ELSE AffOf(ev.b)), AliasClass(ev) >>
    [] ev.ev \in {"pt.Set", "pt.NewFrom", "pt.Rescale"} ->
         << OperandOK(ev.p) /\ ResultOK(ev, AffOf(ev.p))
              /\ (ev.ev = "pt.Rescale" /\ ~IsInf(AffOf(ev.p)) => BigEq(Proj(ev.out)[3], 1)), {} >>
    [] ev.ev = "pt.Identity"  -> << ResultOK(ev, Inf), {} >>
    [] ev.ev = "pt.Generator" -> << ResultOK(ev, GenPt), {} >>
    [] ev.ev = "pt.Equal" ->
         LET a == AffOf(ev.p)  b == AffOf(ev.q) IN
         << OperandOK(ev.p) /\ OperandOK(ev.q) /\ ev.out = FlagOf(PEq(a, b)),
            (IF PEq(a, b) /\ ev.p # ev.q /\ ~IsInf(a) THEN {"equal_true_diffrep"} ELSE {})
            \cup (IF Has(ev, "twin") /\ ~PEq(a, b) THEN {"equal_limb_twin"} ELSE {})
            \cup (IF ~IsInf(a) /\ ~PEq(a, b) /\ PEq(a, PNeg(b)) THEN {"equal_neg"} ELSE {})
            \cup (IF ~IsInf(a) /\ ~IsInf(b) /\ ~PEq(a, b) /\ BigEq(a[2], b[2]) THEN {"equal_same_y"} ELSE {})
            \cup (IF ~IsInf(a) /\ ~IsInf(b) /\ ~PEq(a, b) /\ (BigEq(FAdd(a[1], a[2]), FAdd(b[1], b[2])) \/ BigEq(FSub(a[1], a[2]), FSub(b[1], b[2])))
                  THEN {"equal_collinear"} ELSE {})                                   \* distinct points on a line x + y = c or x - y = c
            \cup (IF IsInf(a) /\ IsInf(b) THEN {"equal_inf_inf"} ELSE {})
            \cup (IF IsInf(a) # IsInf(b) THEN {"equal_p_inf"} ELSE {}) >>
    [] ev.ev = "pt.EqualEnc" ->      \* Equal on two decoded points, both ways round
         LET a == DecPt(ev.p)  b == DecPt(ev.q) IN
         << ev.out = FlagOf(PEq(a, b)) /\ ev.out_rev = ev.out /\ ev.self = 1,
            IF ~PEq(a, b) /\ BigEq(a[2], b[2]) THEN {"equal_limb_twin"} ELSE {} >>
    [] ev.ev = "pt.IsId" -> << OperandOK(ev.p) /\ ev.out = FlagOf(IsInf(AffOf(ev.p))), {} >>
    [] ev.ev = "pt.IsYOdd" ->
         LET a == AffOf(ev.p) IN
         (* the library defines the parity of the identity through its (0,1,0) substitution: odd *)
         << OperandOK(ev.p) /\ (~IsInf(a) => ev.out = FlagOf(FIsOdd(a[2]))),
            IF IsInf(a) THEN {} ELSE IF FIsOdd(a[2]) THEN {"yodd"} ELSE {"yeven"} >>
    [] ev.ev = "pt.InfParity" ->        \* every representative / derivation of the identity reports the same y-parity
         << /\ \A i \in 1..Len(ev.reps) : OperandOK(ev.reps[i]) /\ IsInf(AffOf(ev.reps[i]))
            /\ \A i \in 1..Len(ev.outs) : ev.outs[i] = ev.outs[1],
            {"inf_parity"} >>
    [] ev.ev = "pt.Enc" ->
         LET a == AffOf(ev.p) IN
         << OperandOK(ev.p) /\ ev.unc = EncUncompressedH(a) /\ ev.cmp = EncCompressedH(a)
              /\ (IF IsInf(a) THEN ev.xerr /\ ev.x = "" ELSE ~ev.xerr /\ ev.x = EncXH(a))
              /\ ev.p_post = ev.p,
            (IF IsInf(a) THEN {"enc_inf"} ELSE {}) \cup (IF ~IsInf(a) /\ ~BigEq(Proj(ev.p)[3], 1) THEN {"z_not_one"} ELSE {}) >>
    (* ---------------- C04 ---------------- *)
    [] ev.ev = "mul.Split" ->
         LET s == H(ev.s)  kk == SplitGLV(s)  n1 == Normalise(kk[1])  n2 == Normalise(kk[2])
             pr1 == s ** G1  pr2 == s ** G2 IN
         << IntIsHex(kk[1], W, ev.k1) /\ IntIsHex(kk[2], W, ev.k2)
              /\ BigEq((kk[1] ++ (kk[2] ** Lambda)) %% N, s)
              /\ (n1[1] \preceq BoundK1) /\ (n2[1] \preceq BoundK2) /\ (n1[1] \prec Pow2(HBits)) /\ (n2[1] \prec Pow2(HBits)),
            (IF (BoundK1 -- n1[1]) \prec Pow2(HBits - 20) \/ (BoundK2 -- n2[1]) \prec Pow2(HBits - 20) THEN {"split_extreme"} ELSE {})
            \cup (IF n1[2] THEN {"split_neg1"} ELSE {}) \cup (IF n2[2] THEN {"split_neg2"} ELSE {})
            \cup (IF BigEq((pr1 // Pow2(T - 1)) %% 2, 1) /\ ((pr1 %% Pow2(T - 1)) \prec Pow2(T - 40)) THEN {"split_round_flip"} ELSE {})
            \cup (IF BigEq((pr2 // Pow2(T - 1)) %% 2, 1) /\ ((pr2 %% Pow2(T - 1)) \prec Pow2(T - 40)) THEN {"split_round_flip"} ELSE {})
            \cup (IF EdgeScalar(s) THEN {"split_edge"} ELSE {}) >>
    [] ev.ev = "mul.MulShift" ->
         LET k == H(ev.k)  g == H(ev.g)  pr == k ** g  fl == pr // Pow2(T) IN
         << IntIsHex(MulShift(k, g) %% N, W, ev.out),
            (IF BigEq((pr // Pow2(T - 1)) %% 2, 1) /\ BigEq(fl %% Pow2(64), Pow2(64) -- 1) THEN {"split_limb_carry"} ELSE {}) >>
    [] ev.ev = "mul.Const" ->
         << CASE ev.name = "neglambda" -> IntIsHex(SNeg(Lambda), W, ev.out)
              [] ev.name = "negb1" -> IntIsHex(NegB1, W, ev.out)
              [] ev.name = "negb2" -> IntIsHex(NegB2, W, ev.out)
              [] ev.name = "g1"    -> IntIsHex(G1, W, ev.out)
              [] ev.name = "g2"    -> IntIsHex(G2, W, ev.out)
              [] ev.name = "beta"  -> IntIsHex(Beta, W, ev.out)
              (* the "for every s" argument at full size: lattice relations + closed-form bounds *)
              [] ev.name = "bound" ->
                   /\ BigEq((LatA1 ++ (LatB1 ** Lambda)) %% N, 0) /\ BigEq((LatA2 ++ (LatB2 ** Lambda)) %% N, 0)
                   /\ BigEq(AbsI((LatA1 ** LatB2) -- (LatA2 ** LatB1)), N)
                   /\ HalvesFit
                   /\ BigEq(ModPow(Beta, 3, P), 1) /\ ~BigEq(Beta, 1) /\ BigEq(ModPow(Lambda, 3, N), 1) /\ ~BigEq(Lambda, 1)
                   /\ PEq(PMulG(Lambda), MulBeta(GenPt)),
            IF ev.name = "bound" THEN {"glv_bound"} ELSE {} >>
    [] ev.ev = "mul.MulBeta" -> << OperandOK(ev.p) /\ ResultOK(ev, MulBeta(AffOf(ev.p))) /\ PEq(MulBeta(AffOf(ev.p)), PMul(Lambda, AffOf(ev.p))), {} >>
    [] ev.ev = "mul.ScalarMult" ->
         LET s == H(ev.s)  a == AffOf(ev.p) IN
         << OperandOK(ev.p) /\ ResultOK(ev, PMul(s, a)) /\ (ev.alias = "none" => ev.p_post = ev.p)
              /\ (Has(ev, "s_post") => ev.s_post = ev.s),                                   \* the scalar operand belongs to the caller
            (IF BigEq(s, 0) THEN {"mul_zero"} ELSE {}) \cup (IF IsInf(a) THEN {"mul_inf"} ELSE {})
            \cup (IF ev.alias = "v=p" THEN {"mul_alias"} ELSE {}) \cup (IF EdgeScalar(s) THEN {"mul_edge_scalar"} ELSE {})
            \cup (IF ~IsInf(a) /\ ~BigEq(Proj(ev.p)[3], 1) THEN {"mul_altrep"} ELSE {})
            \cup (IF Has(ev, "seq") THEN {"mul_seq"} ELSE {}) >>
    [] ev.ev = "mul.TableEntry" ->
         << OperandOK(ev.p) /\ RawOK(ev.out, PMul(ev.i, AffOf(ev.p))), {} >>
    (* ---------------- C05 ---------------- *)
    [] ev.ev = "tbl.Odd" ->
         << ev.j \in 1..15 /\ ev.i \in 0..31 /\ PEq(<<H(ev.x), H(ev.y)>>, OddEntry(ev.i, ev.j)), {"tbl_odd"} >>
    [] ev.ev = "bm.Mult" ->
         LET s == H(ev.s) IN
         << ResultOK(ev, PMulG(s)) /\ (Has(ev, "cmp") => ev.cmp = EncCompressedH(PMulG(s))) /\ (Has(ev, "s_post") => ev.s_post = ev.s),
            (IF ev.kind = "ct_recycled" THEN {"bm_recycled"} ELSE {})
            \cup (IF \E i \in 0..31 : BigEq(s, ByteAt(s, i) ** Pow2(8 * i)) THEN {"bm_single_byte"} ELSE {})
            \cup (IF \E i \in 0..63 : BigEq((s // Pow2(4 * i)) %% 16, 0) /\ ~(s \prec Pow2(4 * i)) THEN {"bm_zero_nibble"} ELSE {})
            \cup (IF EdgeScalar(s) THEN {"bm_edge"} ELSE {}) >>
    [] ev.ev = "bm.Priv" ->
         LET s == H(ev.s)  a == PMulG(s) IN
         << ev.pub = EncUncompressedH(a) /\ ev.cmp = EncCompressedH(a)
              /\ (Has(ev, "scalar") => ev.scalar = ev.s /\ ev.bytes = ev.s), {"bm_priv"} \cup (IF Has(ev, "after_derive") THEN {"bm_priv_after_derive"} ELSE {}) >>
    (* ---------------- C06 ---------------- *)
    [] ev.ev = "s1.Decode" ->
         LET b == HexToBytes(ev["in"])
             d == CASE ev.fn \in {"SetBytes", "NewFromBytes"} -> DecodeB(b)
                    [] ev.fn = "SetCompressed"   -> DecodeCompressedB(b)
                    [] ev.fn = "SetUncompressed" -> DecodeUncompressedB(b)
             len == Len(b)
             xv == IF len >= W + 1 THEN OS2IP(SubSeq(b, 2, W + 1)) ELSE 0
             yv == IF len = 2 * W + 1 THEN OS2IP(SubSeq(b, W + 2, 2 * W + 1)) ELSE 0
         IN
         << IF d[1] = "ok"
            THEN ev.ok /\ ~ev.retnil /\ ev.post = EncUncompressedH(d[2]) /\ ev.recmp = EncCompressedH(d[2])
                 /\ (len = 1 \/ (len = W + 1 /\ ev.recmp = ev["in"]) \/ (len = 2 * W + 1 /\ ev.post = ev["in"]))   \* decode-then-encode
            ELSE ~ev.ok /\ ev.retnil /\ ev.post = ev.pre,                                                          \* receiver unchanged
            (IF d[1] = "ok" THEN (IF len = 1 THEN {"dec_ok_inf"} ELSE IF len = W + 1 THEN {"dec_ok_cmp"} ELSE {"dec_ok_unc"})
             ELSE (IF ev.pre = "uninit" THEN {"dec_recv_uninit"} ELSE {"dec_recv_kept"})
                  \cup (IF len \notin {1, W + 1, 2 * W + 1} THEN {"dec_bad_len"}
                        ELSE IF (len = 1 /\ b[1] # 0) \/ (len = W + 1 /\ b[1] \notin {2, 3}) \/ (len = 2 * W + 1 /\ b[1] # 4)
                             THEN {"dec_bad_prefix"} \cup (IF len = 2 * W + 1 /\ b[1] \in {6, 7} THEN {"dec_hybrid"} ELSE {})
                        ELSE IF len > 1 /\ ~(xv \prec P) THEN {"dec_noncanon_x"}
                        ELSE IF len = 2 * W + 1 /\ ~(yv \prec P) THEN {"dec_noncanon_y"}
                        ELSE IF len = 2 * W + 1 THEN {"dec_offcurve"}
                        ELSE IF len = W + 1 THEN {"dec_nonresidue"} ELSE {})) >>
    [] ev.ev = "s1.Fresh" ->            \* decoding the same bytes again after the first result was mutated by the caller
         LET d == DecodeH(ev["in"]) IN
         << d[1] = "ok" /\ ev.ok /\ ev.ok3 /\ ev.first = EncUncompressedH(d[2]) /\ ev.second = ev.first /\ ev.viaset = ev.first, {"dec_fresh"} >>
    [] ev.ev = "s1.FromCoords" ->
         LET x == H(ev.x)  y == H(ev.y)  good == (x \prec P) /\ (y \prec P) /\ OnCurveXY(x, y) IN
         << IF good THEN ev.ok /\ ~ev.retnil /\ ev.out = EncUncompressedH(<<x, y>>) ELSE ~ev.ok /\ ev.retnil,
            IF good THEN {"coords_ok"} ELSE {"coords_bad"} >>
    [] ev.ev = "s1.Recover" ->
         LET xs == H(ev.xs)  d == RecoverPointD(xs, ev.id) IN
         << IF d[1] = "ok" THEN ev.ok /\ ~ev.retnil /\ ev.out = EncUncompressedH(d[2]) ELSE ~ev.ok /\ ev.retnil,
            (IF d[1] = "ok" /\ ev.id < 2 THEN {"rec_ok_low"} ELSE {}) \cup (IF d[1] = "ok" /\ ev.id >= 2 THEN {"rec_ok_high"} ELSE {})
            \cup (IF ev.id \in {2, 3} /\ ~((xs ++ N) \prec P) THEN {"rec_overflow"} ELSE {})
            \cup (IF ev.id \in {2, 3} /\ ~((xs ++ N) \prec P) /\ ((xs %% Pow2(128)) \prec (P -- N)) THEN {"rec_overflow_low_limbs_pass"} ELSE {})
            \cup (IF ev.id >= 4 THEN {"rec_bad_id"} ELSE {})
            \cup (IF ev.id < 2 /\ d[1] = "err" THEN {"rec_nonresidue"} ELSE {}) >>
    [] ev.ev = "s1.Split" ->
         << IF HexLen(ev["in"]) = 2 * W + 1
            THEN ~ev.panic /\ ev.x = HexSlice(ev["in"], 1, W + 1) /\ ev.odd = H(HexSlice(ev["in"], 2 * W, 2 * W + 1)) % 2
            ELSE ev.panic, {} >>
    (* ---------------- C16 ---------------- *)
    [] ev.ev = "msm" ->
         LET ns == Len(ev.ss)  np == Len(ev.ps) IN
         IF ns # np THEN << ev.panic /\ ev.out = ev.pre, {"msm_mismatch"} >>
         ELSE LET ss == VecH(ev.ss)  ps == VecP(ev.ps)  want == MSM(ss, ps) IN
         << ~ev.panic /\ (\A i \in 1..np : OperandOK(ev.ps[i])) /\ ResultOK(ev, want)
              /\ ev.ps_post = [i \in 1..np |-> IF i = ev.recv THEN ev.out ELSE ev.ps[i]] /\ ev.ss_post = ev.ss,
            (CASE ns = 0 -> {"msm_len0"} [] ns = 1 -> {"msm_len1"} [] ns = 2 -> {"msm_len2"} [] OTHER -> {"msm_len3plus"})
            \cup (IF ns >= 31 THEN {"msm_long"} ELSE {})
            \cup (IF \E i \in 1..ns : BigEq(ss[i], 0) THEN {"msm_zero_scalar"} ELSE {})
            \cup (IF \E i \in 1..ns : IsInf(ps[i]) THEN {"msm_inf_point"} ELSE {})
            \cup (IF \E i, j \in 1..ns : i < j /\ ~IsInf(ps[i]) /\ PEq(ps[i], ps[j]) THEN {"msm_dup"} ELSE {})
            \cup (IF \E i, j \in 1..ns : i < j /\ ~IsInf(ps[i]) /\ PEq(ps[i], PNeg(ps[j])) THEN {"msm_inverse"} ELSE {})
            \cup (IF ev.recv > 0 THEN {"msm_alias"} ELSE {}) \cup (IF ev.recv > 64 THEN {"msm_alias_far"} ELSE {})
            \cup (IF ns >= 2 /\ IsInf(want) THEN {"msm_cancel"} ELSE {}) >>
    [] ev.ev = "dsm" ->
         LET a == AffOf(ev.p) IN
         << OperandOK(ev.p) /\ ResultOK(ev, DoubleMulBase(H(ev.u1), H(ev.u2), a)) /\ (ev.alias = "none" => ev.p_post = ev.p),
            {"dsm"} \cup (IF ev.alias = "v=p" THEN {"mul_alias"} ELSE {})
            \cup (IF (BigEq(H(ev.u2), 0) \/ IsInf(a)) /\ ~BigEq(H(ev.u1), 0) THEN {"dsm_only_base"} ELSE {})      \* u2*P vanishes, u1*G does not
            \cup (IF BigEq(H(ev.u1), 0) /\ ~BigEq(H(ev.u2), 0) /\ ~IsInf(a) THEN {"dsm_only_var"} ELSE {})
            \cup (IF Has(ev, "window") THEN {"dsm_window_meet"} ELSE {})
            \cup (IF ~BigEq(H(ev.u1), 0) /\ ~BigEq(H(ev.u2), 0) /\ ~IsInf(a) /\ IsInf(DoubleMulBase(H(ev.u1), H(ev.u2), a)) THEN {"dsm_cancel"} ELSE {}) >>

(* ---- stateful events ---- *)
IsStateful(ev) == ev.ev \in {"tbl.Row", "tbl.Huge", "chain.Reset", "chain.Op", "pt.Life"}

(* ---- object lifetime (pt.Life): the abstract point the long-lived object must hold after one more operation ---- *)
LifeWant(acc, ev) ==
  LET src == IF ev.src = "" THEN Inf ELSE DecPt(ev.src)
      s   == IF ev.s = "" THEN 0 ELSE H(ev.s)
      t   == IF ev.t = "" THEN 0 ELSE H(ev.t)
  IN
  CASE ev.op = "reset"     -> src
    [] ev.op = "identity"  -> Inf
    [] ev.op = "generator" -> GenPt
    [] ev.op \in {"set", "replace"} -> src
    [] ev.op = "add"       -> PAdd(acc, src)
    [] ev.op = "radd"      -> PAdd(src, acc)
    [] ev.op = "sub"       -> PSub(acc, src)
    [] ev.op = "dbl"       -> PDbl(acc)
    [] ev.op = "dbl_from"  -> PDbl(src)
    [] ev.op = "neg"       -> PNeg(acc)
    [] ev.op = "neg_from"  -> PNeg(src)
    [] ev.op = "cneg"      -> IF ev.ctrl = 0 THEN acc ELSE PNeg(acc)
    [] ev.op = "cneg_from" -> IF ev.ctrl = 0 THEN src ELSE PNeg(src)
    [] ev.op = "csel"      -> IF ev.ctrl = 0 THEN acc ELSE src
    [] ev.op = "csel2"     -> IF ev.ctrl = 0 THEN src ELSE acc
    [] ev.op = "smul"      -> PMul(s, acc)
    [] ev.op = "smul_from" -> PMul(s, src)
    [] ev.op = "bmul"      -> PMulG(s)
    [] ev.op = "dsm"       -> PAdd(PMulG(s), PMul(t, acc))
    [] ev.op = "dsm_from"  -> PAdd(PMulG(s), PMul(t, src))
    [] ev.op \in {"setbytes", "setbytes_bad", "setbytes_id"} -> LET d == DecodeB(HexToBytes(ev.bytes)) IN IF d[1] = "ok" THEN d[2] ELSE acc
    [] ev.op = "add_from"  -> PAdd(src, src)
    [] ev.op = "sub_from"  -> PSub(src, GenPt)
    [] ev.op = "csel_from" -> IF ev.ctrl = 0 THEN src ELSE GenPt
    [] ev.op = "msm_from"  -> PAdd(PMul(s, src), PMul(t, src))
    [] ev.op = "msm1"      -> PMul(s, acc)
    [] ev.op = "msmv"      -> PAdd(PMul(s, acc), PMul(t, src))
LifeObsOK(ev, want) ==
  LET u == EncUncompressedH(want)  cm == EncCompressedH(want) IN
  /\ ev.unc = u /\ ev.unc_again = u /\ ev.copy_unc = u /\ ev.other_unc = u
  /\ ev.cmp = cm /\ ev.copy_cmp = cm /\ ev.other_cmp = cm
  /\ ev.isid = FlagOf(IsInf(want)) /\ ev.eqself = 1 /\ ev.eqcopy = 1
  /\ (Has(ev, "rawpt") => RawOK(ev.rawpt, want))                    \* what the object holds is a VALID representative (the identity: (0 : y : 0), y # 0)
  /\ (Has(ev, "src_kind") =>                                        \* what a constructor hands out is what it is documented to hand out
        /\ (ev.src_kind = "identity" => ev.src = "00")
        /\ (ev.src_kind = "generator" => ev.src = EncUncompressedH(GenPt))
        /\ (ev.src_kind = "neg_generator" => ev.src = EncUncompressedH(PNeg(GenPt))))
  /\ IF IsInf(want) THEN ev.xb = "err" ELSE /\ ev.xb = IntToHex(want[1], W)
                                            /\ ev.yodd = FlagOf(FIsOdd(want[2])) /\ ev.copy_yodd = ev.yodd

(* <<ok, classes, tblBase', tblAcc', chain'>> *)
StatefulVerdict(ev) ==
  CASE ev.ev = "tbl.Row" ->         \* start of generator table i: base = 256^i * G, checked by a full multiplication
         LET base == PMulG(Pow2(8 * ev.i) %% N) IN
         << ev.i \in 0..31, {"tbl_row"}, <<ev.i, EncUncompressedH(base)>>, "00", chain >>
    [] ev.ev = "tbl.Huge" ->        \* entry j (1..255) of the current row must be the previous entry plus the base
         LET next == PAdd(DecPt(tblAcc), DecPt(tblBase[2])) IN
         << ev.i = tblBase[1] /\ ev.j \in 1..255 /\ HexLen(ev.x) = W /\ HexLen(ev.y) = W
              /\ EncUncompressedH(next) = HexCat("04", HexCat(ev.x, ev.y))
              /\ ((ev.j = 255) => PEq(PAdd(next, DecPt(tblBase[2])), PMulG(Pow2(8 * (ev.i + 1)) %% N))),   \* closes the row: 256 * base
            {"tbl_huge"}, tblBase, EncUncompressedH(next), chain >>
    [] ev.ev = "pt.Life" ->
         LET want == LifeWant(DecPt(chain), ev) IN
         << LifeObsOK(ev, want),
            {"life_step"} \cup (IF ev.op = "setbytes_bad" THEN {"life_reject"} ELSE {}) \cup (IF IsInf(want) THEN {"life_inf"} ELSE {})
            \cup (IF ev.op = "setbytes_bad" /\ HexLen(ev.bytes) = 33 /\ ~IsInf(DecPt(chain)) THEN {"life_reject_cmp"} ELSE {})
            \cup (IF ev.op = "setbytes_id" /\ ~IsInf(DecPt(chain)) THEN {"life_decode_id"} ELSE {})
            \cup (IF ev.op \in {"cneg", "cneg_from", "csel", "csel2"} /\ ev.ctrl = 1 THEN {"life_ctrl"} ELSE {}),
            tblBase, tblAcc, EncUncompressedH(want) >>
    [] ev.ev = "chain.Reset" ->
         << OperandOK(ev.p), {}, tblBase, tblAcc, EncUncompressedH(AffOf(ev.p)) >>
    [] ev.ev = "chain.Op" ->        \* v = v <op> q with the receiver re-used: the model's accumulator, not the log's, is the left operand
         LET acc == DecPt(chain)
             b   == IF Has(ev, "q") THEN AffOf(ev.q) ELSE Inf
             want == CASE ev.op = "add"  -> PAdd(acc, b)
                       [] ev.op = "radd" -> PAdd(b, acc)
                       [] ev.op = "sub"  -> PSub(acc, b)
                       [] ev.op = "dbl"  -> PDbl(acc)
                       [] ev.op = "neg"  -> PNeg(acc)
                       [] ev.op = "mixed" -> PAdd(acc, b)
         IN << (Has(ev, "q") => OperandOK(ev.q)) /\ RawOK(ev.out, want), {"chain_step"}, tblBase, tblAcc, EncUncompressedH(want) >>

Init == /\ tl = 1 /\ tBad = 0 /\ tCnt = [k \in Classes \cup {"_any"} |-> 0]
        /\ tblBase = <<-1, "00">> /\ tblAcc = "00" /\ chain = "00"

Step ==
  /\ tl <= NLog
  /\ LET ev == Log[tl] IN
     IF IsStateful(ev)
     THEN LET v == StatefulVerdict(ev) IN
          /\ tBad' = IF v[1] THEN tBad ELSE tBad + 1
          /\ (IF v[1] THEN TRUE ELSE Mismatch(tl, ev))
          /\ tCnt' = BumpAll(tCnt, v[2])
          /\ tblBase' = v[3] /\ tblAcc' = v[4] /\ chain' = v[5]
     ELSE LET v == Verdict(ev) IN
          /\ tBad' = IF v[1] THEN tBad ELSE tBad + 1
          /\ (IF v[1] THEN TRUE ELSE Mismatch(tl, ev))
          /\ tCnt' = BumpAll(tCnt, v[2])
          /\ UNCHANGED <<tblBase, tblAcc, chain>>
  /\ tl' = tl + 1

Finish == tl = NLog + 1 /\ Done(tl, tBad, tCnt) /\ tl' = tl + 1 /\ UNCHANGED <<tBad, tCnt, tblBase, tblAcc, chain>>

Next == Step \/ Finish
Spec == Init /\ [][Next]_<<tl, tBad, tCnt, tblBase, tblAcc, chain>>
=============================================================================
