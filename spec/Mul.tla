----------------------------------- MODULE Mul -----------------------------------
(***************************************************************************)
(* A-level scalar multiplication as coded in point_mul_glv.go,             *)
(* point_mul_table.go and point_mul_multi.go, over abstract points         *)
(* (the projective layer is Projective.tla; MC_Projective shows each       *)
(* formula step equals the group operation, so these algorithms are        *)
(* written over the group and compose with it).                            *)
(*                                                                         *)
(* Width parameters (Params): T = the floored-division shift (384),        *)
(* HBits = bits of a split half the ladder consumes (128), WBits = window  *)
(* width (4), W = scalar byte width (32).                                  *)
(***************************************************************************)
EXTENDS Group

(* ---------------- GLV decomposition ---------------- *)

(* mulGFlooredDiv: floor(k*g / 2^T) plus the last discarded bit (round-half-up by carry) *)
MulShift(k, g) == LET prod == k ** g IN (prod // Pow2(T)) ++ ((prod // Pow2(T - 1)) %% 2)

(* splitGLV: returns <<k1, k2>> in [0, n) with k1 + k2*Lambda = k (mod n) *)
SplitGLV(k) ==
  LET c1 == MulShift(k, G1) %% N          \* uncheckedSetSaturated of a 128-bit value: already < n
      c2 == MulShift(k, G2) %% N
      k2 == SAdd(SMul(c1, NegB1), SMul(c2, NegB2))
      k1 == SAdd(k, SMul(k2, SNeg(Lambda)))
  IN  <<k1, k2>>

(* sign normalisation: <<magnitude, negated?>> *)
Normalise(k) == IF SGreaterThanHalfN(k) THEN <<SNeg(k), TRUE>> ELSE <<k, FALSE>>

(* the lattice basis behind the constants, centred: a_i + b_i*Lambda = 0 (mod n) *)
Centre(x)  == IF HalfN \prec x THEN x -- N ELSE x          \* representative in (-n/2, n/2]
AbsI(x)    == IF x \prec 0 THEN 0 -- x ELSE x
LatB1      == 0 -- Centre(NegB1)
LatB2      == 0 -- Centre(NegB2)
LatA1      == Centre(SNeg(SMul(LatB1 %% N, Lambda)))
LatA2      == Centre(SNeg(SMul(LatB2 %% N, Lambda)))
(* Upper bounds on the magnitudes of the halves, for EVERY k in [0, n).                                 *)
(* (k1, k2) = e1*(a1, b1) + e2*(a2, b2) with |e_i| <= 1/2 + eps, where eps = n / 2^(T+1) bounds the     *)
(* error k*|g_i/2^T - b_i/n| of replacing b_i/n by g_i/2^T (g_i = round(2^T b_i / n)).  Hence the       *)
(* integer |k1| is at most floor((1/2 + eps) * (|a1| + |a2|)) and likewise for k2.  The formula is       *)
(* checked against ALL k on the miniature curves (MC_Mul) and evaluated at full size (Trace_Point,      *)
(* event mul.Const name = "bound").                                                                     *)
SumA       == AbsI(LatA1) ++ AbsI(LatA2)
SumB       == AbsI(LatB1) ++ AbsI(LatB2)
BoundK1    == (SumA ** (Pow2(T) ++ N)) // Pow2(T + 1)
BoundK2    == (SumB ** (Pow2(T) ++ N)) // Pow2(T + 1)
HalvesFit  == (BoundK1 \prec Pow2(HBits)) /\ (BoundK2 \prec Pow2(HBits))

(* ---------------- window ladder ---------------- *)

Window(k, i)  == (k // Pow2(WBits * i)) %% Pow2(WBits)        \* i-th window from the least significant end
NWin(bits)    == bits \div WBits

(* table of multiples [1P .. (2^w - 1)P], built as newProjectivePointMultTable does:                  *)
(* tbl[1] = P; tbl[2i] = 2*tbl[i]; tbl[2i+1] = tbl[2i] + P        (1-based multiples)                  *)
RECURSIVE TblEntry(_, _)
TblEntry(a, m) == IF m = 1 THEN a
                  ELSE IF m % 2 = 0 THEN PDbl(TblEntry(a, m \div 2))
                  ELSE PAdd(TblEntry(a, m - 1), a)
SelectAndAdd(sum, a, idx) == IF idx = 0 THEN sum ELSE PAdd(sum, TblEntry(a, idx))   \* implicit 0 entry

RECURSIVE DblN(_, _)
DblN(a, k) == IF k = 0 THEN a ELSE DblN(PDbl(a), k - 1)

(* interleaved fixed-window ladder over the low `bits` bits of each scalar in ks, points in ps *)
RECURSIVE AddWindows(_, _, _, _)
AddWindows(acc, ks, ps, i) ==
  IF Len(ks) = 0 THEN acc
  ELSE AddWindows(SelectAndAdd(acc, ps[1], Window(ks[1], i)), Tail(ks), Tail(ps), i)
RECURSIVE LadderFrom(_, _, _, _)
LadderFrom(acc, ks, ps, i) ==                                   \* processes windows i, i-1, ..., 0
  LET a1 == AddWindows(acc, ks, ps, i) IN
  IF i = 0 THEN a1 ELSE LadderFrom(DblN(a1, WBits), ks, ps, i - 1)
Ladder(ks, ps, bits) == LadderFrom(Inf, ks, ps, NWin(bits) - 1)

MulBeta(a) == IF IsInf(a) THEN Inf ELSE <<FMul(Beta, a[1]), a[2]>>

(* ScalarMult / scalarMultVartimeGLV: split, normalise scalar and point together, ladder over HBits *)
ScalarMultGLV(s, a) ==
  LET kk == SplitGLV(s)
      n1 == Normalise(kk[1])
      n2 == Normalise(kk[2])
      p1 == IF n1[2] THEN PNeg(a) ELSE a
      p2 == IF n2[2] THEN PNeg(MulBeta(a)) ELSE MulBeta(a)
  IN  Ladder(<<n1[1] %% Pow2(HBits), n2[1] %% Pow2(HBits)>>, <<p1, p2>>, HBits)
      \* only the low HBits bits are consumed: correct iff both halves fit

(* Straus (MultiScalarMult): per-point tables, ladder over all 8W bits; length 1 delegates to GLV *)
MultiScalarMultAlg(ss, ps) ==
  IF Len(ss) = 1 THEN ScalarMultGLV(ss[1], ps[1]) ELSE Ladder(ss, ps, 8 * W)

(* ---------------- fixed base ---------------- *)

ByteAt(s, i)  == (s // Pow2(8 * i)) %% 256                       \* i = 0 is the least significant byte
HugeEntry(i, j) == PMulG((j ** Pow2(8 * i)) %% N)                \* generatorHugeAffineTable[i][j-1], j in 1..255
OddEntry(i, j)  == PMulG(((16 * j) ** Pow2(8 * i)) %% N)         \* generatorOddAffineTable[i][j-1],  j in 1..15

(* constant-time: per byte, high nibble from the odd table, low nibble from the 15-entry prefix of the *)
(* huge table; a zero nibble selects the (masked) identity                                              *)
RECURSIVE BaseMultCTFrom(_, _, _)
BaseMultCTFrom(acc, s, i) ==
  LET b  == ByteAt(s, i)
      hi == b \div 16
      lo == b % 16
      a1 == IF hi = 0 THEN acc ELSE PAdd(acc, OddEntry(i, hi))
      a2 == IF lo = 0 THEN a1 ELSE PAdd(a1, HugeEntry(i, lo))
  IN  IF i = 0 THEN a2 ELSE BaseMultCTFrom(a2, s, i - 1)
ScalarBaseMultCT(s) == BaseMultCTFrom(Inf, s, W - 1)

RECURSIVE BaseMultVarFrom(_, _, _)
BaseMultVarFrom(acc, s, i) ==
  LET b  == ByteAt(s, i)
      a1 == IF b = 0 THEN acc ELSE PAdd(acc, HugeEntry(i, b))
  IN  IF i = 0 THEN a1 ELSE BaseMultVarFrom(a1, s, i - 1)
ScalarBaseMultVartime(s) == BaseMultVarFrom(Inf, s, W - 1)

DoubleScalarMultAlg(u1, u2, a) == PAdd(ScalarBaseMultVartime(u1), ScalarMultGLV(u2, a))
=============================================================================
