INIT Init
NEXT Next
CONSTANTS
  WBitsC = 2
  NWinC = 3
