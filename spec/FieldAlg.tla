------------------------------- MODULE FieldAlg -------------------------------
(***************************************************************************)
(* A-level (algorithmic) transcriptions of what internal/field does, at    *)
(* the grain the properties talk about.  The exhaustive models prove each  *)
(* of them equal to (or a refinement of) the D-level operators of Field    *)
(* for ALL inputs of the miniature instances.                              *)
(***************************************************************************)
EXTENDS Field

(* reduceSaturated: compute src - m with borrow; select by the borrow (constant time).   *)
(* Returns <<value, didReduce>> for a W-byte input v in [0, 2^(8W)).                     *)
ReduceSaturated(v, m) ==
  LET diff   == (v ++ TwoW) -- m          \* v - m computed modulo 2^(8W) with the borrow in bit 8W
      borrow == IF diff \prec TwoW THEN 1 ELSE 0   \* borrow = 1  <=>  v < m
      red    == diff %% TwoW
  IN  IF borrow = 0 THEN <<red, 1>> ELSE <<v, 0>>

(* RFC 9380 F.2.1.2 sqrt_ratio for q = 3 (mod 4), as field_sqrt_ratio.go computes it.    *)
(* zz is the suite's non-square Z, c2 a fixed root of -Z.  Returns <<y, isQR>>.          *)
SqrtRatioAlg(u, v, c2) ==
  LET c1  == (P -- 3) // 4
      tv1 == FSqr(v)
      tv2 == FMul(u, v)
      tv1b == FMul(tv1, tv2)
      y1a == ModPow(tv1b, c1, P)
      y1  == FMul(y1a, tv2)
      y2  == FMul(y1, c2)
      tv3 == FMul(FSqr(y1), v)
      isQR == IF BigEq(tv3, u) THEN 1 ELSE 0
  IN  <<IF isQR = 1 THEN y1 ELSE y2, isQR>>

(* Sqrt = sqrt_ratio(a, 1) with the value forced to 0 when there is no root. *)
SqrtAlg(a, c2) == LET r == SqrtRatioAlg(a, 1, c2) IN IF r[2] = 1 THEN r ELSE <<0, 0>>

(* SetWideBytes: the value of a byte string of length W..2W is split as a + b*2^(6W*... ) exactly as  *)
(* field_reduce.go does for W = 32: zero-extend to 2W bytes, a = low 3W/4... The split points of the   *)
(* real code are bytes [40:64], [16:40], [0:16] of the 64-byte buffer, i.e. a < 2^192, b < 2^192,      *)
(* c < 2^128, value = a + b*2^192 + c*2^384.  Parameterised by the low width lw (192 bits there).      *)
WideReduceAlg(v, lw) ==
  LET a == v %% Pow2(lw)
      b == (v // Pow2(lw)) %% Pow2(lw)
      c == v // Pow2(2 * lw)
  IN  FAdd(FAdd(a %% P, FMul(b %% P, Pow2(lw) %% P)), FMul(c %% P, Pow2(2 * lw) %% P))

(* Invert by Fermat: a^(p-2).  (The addition chain itself is covered by trace validation.) *)
InvAlg(a) == ModPow(a, P -- 2, P)
=============================================================================
