INIT Init
NEXT Next
INVARIANT DecodeInv
INVARIANT BijectionInv
CHECK_DEADLOCK FALSE
