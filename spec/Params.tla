-------------------------------- MODULE Params --------------------------------
(***************************************************************************)
(* Curve parameters of the instance being checked.                         *)
(*                                                                         *)
(* The whole specification is written once and instantiated at two sizes:  *)
(*   - the real secp256k1 (params/secp256k1.json, numbers as hex strings), *)
(*     used when validating traces of the Go implementation;               *)
(*   - secp256k1-shaped miniature curves (params/mini*.json, plain ints),  *)
(*     used by the exhaustive TLC models.                                  *)
(* The file is selected by the environment variable VERIF_PARAMS.          *)
(***************************************************************************)
EXTENDS Integers, Sequences, TLC, Json, IOUtils, BigInt, Hex

PJ == JsonDeserialize(IOEnv.VERIF_PARAMS)

Num(f) == IF PJ.mini THEN PJ[f] ELSE HexToInt(PJ[f])

Mini    == PJ.mini
P       == Num("p")          \* field prime,  p = 1 (mod 3), p = 3 (mod 4)
N       == Num("n")          \* group order (prime)
B       == Num("b")          \* curve: y^2 = x^3 + B
Gx      == Num("gx")
Gy      == Num("gy")
W       == PJ.w              \* byte width of a coordinate / scalar encoding
Beta    == Num("beta")       \* cube root of unity in F_p
Lambda  == Num("lam")        \* cube root of unity in Z_n with Lambda*G = (Beta*Gx, Gy)
NegB1   == Num("negb1")      \* GLV lattice multipliers:  k2 = c1*NegB1 + c2*NegB2
NegB2   == Num("negb2")
G1      == Num("g1")         \* c_i = round(k * G_i / 2^T)
G2      == Num("g2")
T       == PJ.t
HBits   == PJ.hbits          \* width of a GLV half consumed by the ladder
WBits   == PJ.wbits          \* ladder window width (4 on the real curve)

HalfN   == (N -- 1) // 2
TwoW    == Pow2(8 * W)       \* 2^(8W): one more than the largest W-byte value
=============================================================================
