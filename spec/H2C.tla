----------------------------------- MODULE H2C -----------------------------------
(***************************************************************************)
(* RFC 9380 hash-to-curve for secp256k1 (suites                             *)
(* secp256k1_XMD:SHA-256_SSWU_RO_ / _NU_): expand_message_xmd (5.3.1,       *)
(* 5.3.3), hash_to_field (5.2) with L = 48, the simplified SWU map for      *)
(* AB # 0 on the isogenous curve E' (6.6.2, declarative form with inv0,     *)
(* is_square, sqrt, sgn0), the 3-isogeny (Appendix E.1) and the             *)
(* straight-line form F.2 with sqrt_ratio as coded in internal/swu          *)
(* (A-level).  The SWU curve parameters come from the parameter file        *)
(* (swuA, swuB, swuZ) so that the equivalence F.2 = 6.6.2 can be checked    *)
(* exhaustively on a miniature field.                                       *)
(***************************************************************************)
EXTENDS Group, Hash

SwuA == Num("swua")
SwuB == Num("swub")
SwuZ == Num("swuz")

Sgn0(x)  == IF FIsOdd(x) THEN 1 ELSE 0
Inv0(x)  == FInv(x)
SqrtF(x) == ModPow(x, (P ++ 1) // 4, P)                     \* a square root when x is a square (p = 3 mod 4)
GPrime(x) == FAdd(FAdd(FMul(FSqr(x), x), FMul(SwuA, x)), SwuB)

(* 6.6.2: map_to_curve_simple_swu(u) -> (x, y) on E' *)
MapToCurveSwuD(u) ==
  LET zu2  == FMul(SwuZ, FSqr(u))
      tv1  == Inv0(FAdd(FSqr(zu2), zu2))
      x1a  == FMul(FMul(FNeg(SwuB), FInv(SwuA)), FAdd(1, tv1))
      x1   == IF BigEq(tv1, 0) THEN FMul(SwuB, FInv(FMul(SwuZ, SwuA))) ELSE x1a
      gx1  == GPrime(x1)
      x2   == FMul(zu2, x1)
      gx2  == GPrime(x2)
      sq   == FIsSquare(gx1)
      x    == IF sq THEN x1 ELSE x2
      y0   == IF sq THEN SqrtF(gx1) ELSE SqrtF(gx2)
      y    == IF Sgn0(u) # Sgn0(y0) THEN FNeg(y0) ELSE y0
  IN  <<x, y>>

(* F.2.1.2 sqrt_ratio for q = 3 mod 4: <<isQR, y>> *)
SqrtRatio3mod4(u, v) ==
  LET c1  == (P -- 3) // 4
      c2  == SqrtF(FNeg(SwuZ))
      tv1 == FSqr(v)
      tv2 == FMul(u, v)
      tv1b == FMul(tv1, tv2)
      y1  == FMul(ModPow(tv1b, c1, P), tv2)
      y2  == FMul(y1, c2)
      tv3 == FMul(FSqr(y1), v)
      isQR == BigEq(tv3, u)
  IN  <<isQR, IF isQR THEN y1 ELSE y2>>

(* F.2: straight-line simplified SWU as coded in internal/swu.MapToCurveSimpleSWU *)
MapToCurveSwuAlg(u) ==
  LET tv1  == FMul(SwuZ, FSqr(u))
      tv2a == FAdd(FSqr(tv1), tv1)
      tv3  == FMul(SwuB, FAdd(tv2a, 1))
      tv4  == FMul(SwuA, IF ~BigEq(tv2a, 0) THEN FNeg(tv2a) ELSE SwuZ)
      tv2b == FSqr(tv3)
      tv6a == FSqr(tv4)
      tv5a == FMul(SwuA, tv6a)
      tv2c == FMul(FAdd(tv2b, tv5a), tv3)
      tv6  == FMul(tv6a, tv4)
      tv5  == FMul(SwuB, tv6)
      tv2  == FAdd(tv2c, tv5)
      xa   == FMul(tv1, tv3)
      sr   == SqrtRatio3mod4(tv2, tv6)
      ya   == FMul(FMul(tv1, u), sr[2])
      xb   == IF sr[1] THEN tv3 ELSE xa
      yb   == IF sr[1] THEN sr[2] ELSE ya
      y    == IF Sgn0(u) = Sgn0(yb) THEN yb ELSE FNeg(yb)
      x    == FMul(xb, FInv(tv4))
  IN  <<x, y>>

(* ---- 3-isogeny E' -> E (Appendix E.1).  Coefficients from the parameter file ("iso": k_(i,j)). *)
K(i, j) == Num("k" \o ToString(i) \o ToString(j))
IsoMapD(xp, yp) ==
  LET xx == FSqr(xp)  xxx == FMul(xx, xp)
      xnum == FAdd(FAdd(FAdd(FMul(K(1, 3), xxx), FMul(K(1, 2), xx)), FMul(K(1, 1), xp)), K(1, 0))
      xden == FAdd(FAdd(xx, FMul(K(2, 1), xp)), K(2, 0))
      ynum == FAdd(FAdd(FAdd(FMul(K(3, 3), xxx), FMul(K(3, 2), xx)), FMul(K(3, 1), xp)), K(3, 0))
      yden == FAdd(FAdd(FAdd(xxx, FMul(K(4, 2), xx)), FMul(K(4, 1), xp)), K(4, 0))
  IN  IF BigEq(xden, 0) \/ BigEq(yden, 0) THEN Inf                       \* exceptional inputs map to the identity
      ELSE <<FMul(xnum, FInv(xden)), FMul(yp, FMul(ynum, FInv(yden)))>>

MapToCurve(u) == LET q == MapToCurveSwuD(u) IN IsoMapD(q[1], q[2])

(* ---- expand_message_xmd with SHA-256 (b_in_bytes = 32, s_in_bytes = 64) ---- *)
OversizeTag == <<72, 50, 67, 45, 79, 86, 69, 82, 83, 73, 90, 69, 45, 68, 83, 84, 45>>       \* "H2C-OVERSIZE-DST-"
RECURSIVE XmdBlocks(_, _, _, _, _)
XmdBlocks(b0, prev, i, ell, dstPrime) ==                                 \* b_i .. b_ell concatenated, prev = b_(i-1)
  IF i > ell THEN <<>>
  ELSE LET bi == SHA256(XorBytes(b0, prev) \o <<i>> \o dstPrime) IN bi \o XmdBlocks(b0, bi, i + 1, ell, dstPrime)
ExpandMessageXmd(msg, dst, len) ==                                       \* <<"ok", bytes>> or <<"err">>
  LET ell == (len + 31) \div 32 IN
  IF len = 0 \/ len > 65535 \/ Len(dst) = 0 \/ ell > 255 THEN <<"err">>
  ELSE LET d1 == IF Len(dst) > 255 THEN SHA256(OversizeTag \o dst) ELSE dst
           dstPrime == d1 \o <<Len(d1)>>
           b0 == SHA256(Rep(0, 64) \o msg \o <<len \div 256, len % 256>> \o <<0>> \o dstPrime)
           b1 == SHA256(b0 \o <<1>> \o dstPrime)
           all == b1 \o XmdBlocks(b0, b1, 2, ell, dstPrime)
       IN  <<"ok", SubSeq(all, 1, len)>>

(* hash_to_field, m = 1, L = 48: element i (0-based) of count *)
FieldElem(uniform, i) == OS2IP(SubSeq(uniform, 48 * i + 1, 48 * (i + 1))) %% P

HashToCurveRO(msg, dst) ==
  LET ub == ExpandMessageXmd(msg, dst, 96) IN
  IF ub[1] = "err" THEN <<"err">>
  ELSE <<"ok", PAdd(MapToCurve(FieldElem(ub[2], 0)), MapToCurve(FieldElem(ub[2], 1)))>>
EncodeToCurveNU(msg, dst) ==
  LET ub == ExpandMessageXmd(msg, dst, 48) IN
  IF ub[1] = "err" THEN <<"err">> ELSE <<"ok", MapToCurve(FieldElem(ub[2], 0))>>
SetUniformBytesD(src) == MapToCurve(OS2IP(src) %% P)                     \* 32 <= Len(src) <= 64
=============================================================================
