------------------------------ MODULE Projective ------------------------------
(***************************************************************************)
(* A-level: points in homogeneous projective coordinates <<X, Y, Z>>        *)
(* (x = X/Z, y = Y/Z; the identity is any (0, Y, 0) with Y # 0) and the     *)
(* Renes-Costello-Batina complete formulas specialised to a = 0, b3 = 3b,   *)
(* transcribed step by step from point_projective.go.                       *)
(***************************************************************************)
EXTENDS Group

B3 == FMul(3, B)

LOCAL M(x, y) == FMul(x, y)
LOCAL A(x, y) == FAdd(x, y)
LOCAL S(x, y) == FSub(x, y)

(* Algorithm 7: complete addition *)
Alg7(p, q) ==
  LET x1 == p[1]  y1 == p[2]  z1 == p[3]
      x2 == q[1]  y2 == q[2]  z2 == q[3]
      t0  == M(x1, x2)
      t1  == M(y1, y2)
      t2  == M(z1, z2)
      t3  == S(M(A(x1, y1), A(x2, y2)), A(t0, t1))
      t4  == S(M(A(y1, z1), A(y2, z2)), A(t1, t2))
      y3a == S(M(A(x1, z1), A(x2, z2)), A(t0, t2))
      t0b == A(A(t0, t0), t0)
      t2b == M(B3, t2)
      z3a == A(t1, t2b)
      t1b == S(t1, t2b)
      y3b == M(B3, y3a)
      x3  == S(M(t3, t1b), M(t4, y3b))
      y3c == M(y3b, t0b)
      y3  == A(M(t1b, z3a), y3c)
      z3  == A(M(z3a, t4), M(t0b, t3))
  IN  <<x3, y3, z3>>

(* Algorithm 8: mixed addition with an affine (x2, y2); NOT valid for the identity as second operand *)
Alg8(p, x2, y2) ==
  LET x1 == p[1]  y1 == p[2]  z1 == p[3]
      t0  == M(x1, x2)
      t1  == M(y1, y2)
      t3  == S(M(A(x2, y2), A(x1, y1)), A(t0, t1))
      t4  == A(M(y2, z1), y1)
      y3a == A(M(x2, z1), x1)
      t0b == A(A(t0, t0), t0)
      t2  == M(B3, z1)
      z3a == A(t1, t2)
      t1b == S(t1, t2)
      y3b == M(B3, y3a)
      x3  == S(M(t3, t1b), M(t4, y3b))
      y3  == A(M(t1b, z3a), M(y3b, t0b))
      z3  == A(M(z3a, t4), M(t0b, t3))
  IN  <<x3, y3, z3>>

(* Algorithm 9: complete doubling *)
Alg9(p) ==
  LET x == p[1]  y == p[2]  z == p[3]
      t0  == FSqr(y)
      z3a == A(t0, t0)
      z3b == A(z3a, z3a)
      z3c == A(z3b, z3b)                 \* 8 y^2
      t1  == M(y, z)
      t2  == M(B3, FSqr(z))
      x3a == M(t2, z3c)
      y3a == A(t0, t2)
      z3  == M(t1, z3c)
      t1b == A(t2, t2)
      t2b == A(t1b, t2)                  \* 3 * b3 * z^2
      t0b == S(t0, t2b)
      y3  == A(x3a, M(t0b, y3a))
      x3b == M(t0b, M(x, y))
      x3  == A(x3b, x3b)
  IN  <<x3, y3, z3>>

IsProjTriple(r) == Len(r) = 3 /\ FCanon(r[1]) /\ FCanon(r[2]) /\ FCanon(r[3])

(* r is a representative of a curve point or of the identity *)
ProjValid(r) ==
  /\ IsProjTriple(r)
  /\ IF BigEq(r[3], 0) THEN BigEq(r[1], 0) /\ ~BigEq(r[2], 0)
     ELSE BigEq(M(FSqr(r[2]), r[3]), A(M(FSqr(r[1]), r[1]), M(B, M(FSqr(r[3]), r[3]))))

ToAff(r) == IF BigEq(r[3], 0) THEN Inf
            ELSE LET zi == FInv(r[3]) IN <<M(r[1], zi), M(r[2], zi)>>

(* r represents the abstract point a *)
Represents(r, a) == ProjValid(r) /\ PEq(ToAff(r), a)

(* Point.Equal as coded: X1 Z2 = X2 Z1 /\ Y1 Z2 = Y2 Z1 *)
ProjEqualAlg(p, q) == BigEq(M(p[1], q[3]), M(q[1], p[3])) /\ BigEq(M(p[2], q[3]), M(q[2], p[3]))

(* rescale as coded: multiply by 1/Z (Fermat: 1/0 = 0), then substitute (0,1,0) when Z = 0 *)
RescaleAlg(p) == IF BigEq(p[3], 0) THEN <<0, 1, 0>>
                 ELSE LET zi == FInv(p[3]) IN <<M(zi, p[1]), M(zi, p[2]), 1>>

NegAlg(p) == <<p[1], FNeg(p[2]), p[3]>>
IdentityRep == <<0, 1, 0>>
FromAff(a)  == IF IsInf(a) THEN IdentityRep ELSE <<a[1], a[2], 1>>
=============================================================================
