--------------------------------- MODULE Schnorr ---------------------------------
(***************************************************************************)
(* BIP-340 Schnorr signatures over the curve of Params, transcribed from   *)
(* the BIP's Specification section (lift_x, Verify, Sign with the default  *)
(* nonce derivation).  The algebra is separated from the hashing so that   *)
(* the exhaustive models can range over every challenge value.             *)
(***************************************************************************)
EXTENDS Sec1, Hash

(* ASCII tags *)
TagAux       == <<66, 73, 80, 48, 51, 52, 48, 47, 97, 117, 120>>                              \* "BIP0340/aux"
TagNonce     == <<66, 73, 80, 48, 51, 52, 48, 47, 110, 111, 110, 99, 101>>                    \* "BIP0340/nonce"
TagChallenge == <<66, 73, 80, 48, 51, 52, 48, 47, 99, 104, 97, 108, 108, 101, 110, 103, 101>> \* "BIP0340/challenge"

HasEvenY(a) == ~FIsOdd(a[2])

(* lift_x: <<TRUE, point with even y>> or <<FALSE>> *)
LiftXEven(x) == IF ~(x \prec P) THEN <<FALSE>>
                ELSE LET l == LiftX(x, FALSE) IN IF l[1] THEN <<TRUE, <<x, l[2]>>>> ELSE <<FALSE>>

(* Verify with the challenge e given: R = s*G - e*P must be finite, have even y and x(R) = r *)
VerifyCoreM(Mul(_, _), pp, r, s, e) ==
  /\ (r \prec P) /\ (s \prec N)
  /\ LET rr == PAdd(Mul(s, GenPt), Mul(SNeg(e), pp)) IN
     ~IsInf(rr) /\ HasEvenY(rr) /\ BigEq(rr[1], r)

ChallengeOf(rBytes, pBytes, msg) == OS2IP(TaggedHash(TagChallenge, rBytes \o pBytes \o msg)) %% N

(* Verify(pk, m, sig) on byte tuples *)
VerifyB(pk, msg, sig) ==
  /\ Len(pk) = W /\ Len(sig) = 2 * W
  /\ LET l == LiftXEven(OS2IP(pk)) IN
     /\ l[1]
     /\ LET r == OS2IP(SubSeq(sig, 1, W))  s == OS2IP(SubSeq(sig, W + 1, 2 * W)) IN
        VerifyCoreM(PMul, l[2], r, s, ChallengeOf(SubSeq(sig, 1, W), pk, msg))

(* Sign, algebraic core: secret d0 in [1, n), nonce seed k0 in [1, n), challenge function of x(R) *)
(* returns <<x(R), s, d, k>> where d, k are the negated-as-needed secret and nonce              *)
SignCoreM(Mul(_, _), d0, k0, Chal(_)) ==
  LET pp == Mul(d0, GenPt)
      d  == IF HasEvenY(pp) THEN d0 ELSE SNeg(d0)
      rr == Mul(k0, GenPt)
      k  == IF HasEvenY(rr) THEN k0 ELSE SNeg(k0)
      e  == Chal(rr[1])
  IN  <<rr[1], SAdd(k, SMul(e, d)), d, k>>

(* Sign(sk, m, aux) on byte tuples: <<"ok", sig>> or <<"err">> (k' = 0) *)
SignB(sk, msg, aux) ==
  LET d0 == OS2IP(sk)
      pp == PMulG(d0)
      d  == IF HasEvenY(pp) THEN d0 ELSE SNeg(d0)
      pb == I2OSP(pp[1], W)
      t  == XorBytes(I2OSP(d, W), TaggedHash(TagAux, aux))
      k0 == OS2IP(TaggedHash(TagNonce, t \o pb \o msg)) %% N
  IN  IF BigEq(k0, 0) THEN <<"err">>
      ELSE LET rr == PMulG(k0)
               k  == IF HasEvenY(rr) THEN k0 ELSE SNeg(k0)
               rb == I2OSP(rr[1], W)
               e  == ChallengeOf(rb, pb, msg)
           IN  <<"ok", rb \o I2OSP(SAdd(k, SMul(e, d)), W)>>

(* x-only public key of a point: the even-y representative and its x *)
XOnly(a) == IF HasEvenY(a) THEN a ELSE PNeg(a)
=============================================================================
