SPECIFICATION Spec
INVARIANT Supported
INVARIANT NoSecretBranch
INVARIANT Result
INVARIANT InBounds
INVARIANT Bounded
INVARIANT Scan
PROPERTY Termination
CHECK_DEADLOCK FALSE
