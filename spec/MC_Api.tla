---------------------------------- MODULE MC_Api ----------------------------------
(***************************************************************************)
(* Pipelines A and C for C18 on a miniature curve (one-byte coordinates).  *)
(*                                                                         *)
(* A: breadth-first exploration of the API state machine of Api.tla from   *)
(*    the all-uninitialised pool, over EVERY call with EVERY assignment of *)
(*    slots to receiver and arguments (all alias patterns) and every class *)
(*    of caller-supplied bytes, up to a depth bound: every reachable state *)
(*    satisfies StateOK (points on the curve or identity, scalars          *)
(*    canonical, key pair consistent, public key never the identity) and   *)
(*    every enabled call satisfies StepOK (failure => nothing changed;     *)
(*    only key constructors change key objects; caller mutation never      *)
(*    does).                                                               *)
(* C: in simulation mode the same next-state relation emits each behaviour *)
(*    as a SCHEDULE (operation names, slot indices, byte classes) which    *)
(*    the Go replayer executes against the real library; the resulting     *)
(*    full-size trace is validated by Trace_Api with the same Step.        *)
(***************************************************************************)
EXTENDS Api, TLC, Json, IOUtils

CONSTANTS NP, NS, NB, MaxDepth,
          UsePreludes, UseSystematic, RandomPick, Bug, WKey, WEnv, WLoad, WDecode, WSig      \* multiplicities of the rarer calls in the call set (bias for the simulator; 1 in exhaustive mode)

VARIABLES mSt, mHist, mDepth

PS == 0..(NP - 1)
SS == 0..(NS - 1)
BS == 0..(NB - 1)

FP   == 0..(P - 1)
Aff  == TLCEval({<<x, y>> \in FP \X FP : (y * y) % P = (x * x * x + B) % P})
SomePt == TLCEval(CHOOSE a \in Aff : a # GenPt /\ a[1] + P < 256)              \* a point whose x has a +p alias in one byte
NonRes == TLCEval(CHOOSE x \in FP : ~\E a \in Aff : a[1] = x)
UExc   == TLCEval(CHOOSE u \in FP : (SwuZ * u * u + 1) % P = 0)

(* caller-supplied byte strings by class (the replayer builds a full-size string of the same class) *)
Content(cls) ==
  CASE cls = "inf"        -> <<0>>
    [] cls = "cmp"        -> EncCompressedB(SomePt)
    [] cls = "unc"        -> EncUncompressedB(PDbl(GenPt))
    [] cls = "cmp_G"      -> EncCompressedB(GenPt)
    [] cls = "noncanon"   -> <<PrefixOf(SomePt), SomePt[1] + P>>
    [] cls = "offcurve"   -> <<4, GenPt[1], (GenPt[2] + 1) % P>>
    [] cls = "nearcurve"  -> <<4, SomePt[1], (SomePt[2] + 2) % P>>             \* off the curve (full size: aimed at the limb comparison)
    [] cls = "coords_near" -> <<SomePt[1], (SomePt[2] + 2) % P>>
    [] cls = "nonresidue" -> <<2, NonRes>>
    [] cls = "hybrid"     -> <<6 + (GenPt[2] % 2), GenPt[1], GenPt[2]>>
    [] cls = "badlen"     -> <<4, GenPt[1]>> \o <<GenPt[2], 0>>
    [] cls = "empty"      -> <<>>
    [] cls = "sc_small"   -> <<5>>
    [] cls = "sc_zero"    -> <<0>>
    [] cls = "sc_nm1"     -> <<N - 1>>
    [] cls = "sc_n"       -> <<N>>
    [] cls = "sc_max"     -> <<255>>
    [] cls = "coords"     -> <<SomePt[1], SomePt[2]>>
    [] cls = "coords_bad" -> <<SomePt[1], (SomePt[2] + 1) % P>>
    [] cls = "xonly"      -> <<SomePt[1]>>
    [] cls = "xonly_bad"  -> <<NonRes>>
    [] cls = "u_exc"      -> <<UExc>>                                      \* the exceptional SWU input Z u^2 = -1
    [] cls = "spki_unc"   -> BuildSpki(EncUncompressedB(SomePt))
    [] cls = "spki_cmp"   -> BuildSpki(EncCompressedB(PDbl(GenPt)))
    [] cls = "spki_inf"   -> BuildSpki(<<0>>)
    [] cls = "spki_bits"  -> LET z == BuildSpki(EncCompressedB(SomePt)) IN [z EXCEPT ![2 + Len(SpkiAlg) + 3] = 1]   \* one unused bit declared
    [] cls = "btc_junk"   -> BuildDerSig(5, 7) \o <<1>>
    [] cls = "sig_junk"   -> <<5, 7, 0>>                                   \* r || s || v in range, (almost surely) not a signature
    [] cls = "der_junk"   -> BuildDerSig(5, 7)
    [] cls = "cmp_junk"   -> BuildCompact(5, 7)
    [] cls = "cmp_s_zero" -> BuildCompact(5, 0)                            \* the first half is fine, the second is not
    [] cls = "cmp_s_ge_n" -> I2OSP(5, W) \o I2OSP(N, W)
    [] cls = "cmp_r_ge_n" -> I2OSP(N, W) \o I2OSP(7, W)
    [] cls = "sig_qinf"   -> LET R == PDbl(GenPt) IN                       \* s R = e G for the digest n - 1: recovery would give the point at infinity
                             BuildCompactRec(R[1] % N, SNeg(SInv(2)), (R[2] % 2) + (IF R[1] >= N THEN 2 ELSE 0))
BufClasses == {"inf", "cmp", "unc", "cmp_G", "noncanon", "offcurve", "nearcurve", "coords_near", "nonresidue", "hybrid", "badlen", "empty",
               "sc_small", "sc_zero", "sc_nm1", "sc_n", "sc_max", "coords", "coords_bad", "xonly", "xonly_bad", "sig_junk", "der_junk", "u_exc", "spki_unc", "spki_cmp", "spki_inf", "spki_bits", "btc_junk", "cmp_junk", "cmp_s_zero", "cmp_s_ge_n", "cmp_r_ge_n", "sig_qinf"}

(* every call of the API over the pool: one record per (operation, slot assignment, control bit, byte class) *)
Calls ==
       {[op |-> o, v |-> v] : o \in {"pt.Identity", "pt.Generator"}, v \in PS}
  \cup {[op |-> o, v |-> v, p |-> p, q |-> q] : o \in PointOps2 \cup {"pt.Equal"}, v \in PS, p \in PS, q \in PS}
  \cup {[op |-> o, v |-> v, p |-> p] : o \in PointOps1 \cup {"pt.IsIdentity"}, v \in PS, p \in PS}
  \cup {[op |-> "pt.CondNegate", v |-> v, p |-> p, c |-> c] : v \in PS, p \in PS, c \in {0, 1, 2}}     \* c = 2: a control word that is neither 0 nor 1
  \cup {[op |-> "pt.CondSelect", v |-> v, p |-> p, q |-> q, c |-> c] : v \in PS, p \in PS, q \in PS, c \in {0, 1, 2}}
  \cup {[op |-> "pt.ScalarMult", v |-> v, s |-> s, p |-> p] : v \in PS, s \in SS, p \in PS}
  \cup {[op |-> "pt.ScalarBaseMult", v |-> v, s |-> s] : v \in PS, s \in SS}
  \cup {[op |-> "pt.DoubleScalarMult", v |-> v, s |-> s, t |-> t, p |-> p] : v \in PS, s \in SS, t \in SS, p \in PS}
  \cup {[op |-> o, v |-> v, s |-> s, t |-> t, p |-> p, q |-> q] :
          o \in {"pt.MultiScalarMult", "pt.MultiScalarMultVartime"}, v \in PS, s \in SS, t \in SS, p \in PS, q \in PS}
  \cup {[op |-> "pt.MultiScalarMultMismatch", v |-> v, s |-> s, p |-> p, q |-> q] : v \in PS, s \in SS, p \in PS, q \in PS}
  \cup {[op |-> o, v |-> v, b |-> b, w |-> w] : o \in DecodeOps, v \in PS, b \in BS, w \in 1..WDecode}
  \cup {[op |-> o, p |-> p, b |-> b] : o \in {"pt.UncompressedBytes", "pt.CompressedBytes", "pt.XBytes"}, p \in PS, b \in BS}
  \cup {[op |-> o, s |-> s, p |-> p, q |-> q] : o \in {"sc.Add", "sc.Multiply"}, s \in SS, p \in SS, q \in SS}
  \cup {[op |-> o, s |-> s, p |-> p] : o \in {"sc.Negate", "sc.Invert", "sc.Square"}, s \in SS, p \in SS}
  \cup {[op |-> "sc.Subtract", s |-> s, p |-> p, q |-> q] : s \in SS, p \in SS, q \in SS}
  \cup {[op |-> o, b |-> b, s |-> s, t |-> t, w |-> w] : o \in {"sig.ParseCompact", "sig.ParseCompactRec", "sig.ParseDER", "sig.BuildCompact", "sig.BuildDER"},
          b \in BS, s \in SS, t \in SS, w \in 1..WDecode}
  \cup {[op |-> "sig.BuildCompactRec", b |-> b, s |-> s, t |-> t, c |-> c] : b \in BS, s \in SS, t \in SS, c \in {0, 1, 3}}
  \cup {[op |-> "sc.Equal", p |-> p, q |-> q] : p \in SS, q \in SS}
  \cup {[op |-> o, p |-> p] : o \in {"sc.IsZero", "sc.IsGreaterThanHalfN"}, p \in SS}
  \cup {[op |-> o, s |-> s, p |-> p, q |-> q, t |-> t] : o \in {"sc.Sum", "sc.Product"}, s \in SS, p \in SS, q \in SS, t \in SS}
  \cup {[op |-> "sc.CondNegate", s |-> s, p |-> p, c |-> c] : s \in SS, p \in SS, c \in {0, 1, 2}}
  \cup {[op |-> "sc.CondSelect", s |-> s, p |-> p, q |-> q, c |-> c] : s \in SS, p \in SS, q \in SS, c \in {0, 1, 2}}
  \cup {[op |-> o, s |-> s, b |-> b, w |-> w] : o \in {"sc.SetBytes", "sc.SetCanonicalBytes", "sc.Bytes"}, s \in SS, b \in BS, w \in 1..WDecode}
  \cup {[op |-> o, b |-> b, w |-> w] : o \in {"key.NewPrivate", "key.PrivBytes", "key.NewPublic", "key.PubBytes", "key.PubCompressed", "key.ECDH"}, b \in BS, w \in 1..WKey}
  \cup {[op |-> o, s |-> s, w |-> w] : o \in {"key.NewPrivateFromScalar", "key.PrivScalar"}, s \in SS, w \in 1..WKey}
  \cup {[op |-> "key.NewPublicFromPoint", p |-> p, w |-> w] : p \in PS, w \in 1..WKey}
  \cup {[op |-> "key.PubPoint", v |-> v, w |-> w] : v \in PS, w \in 1..WKey}
  \cup {[op |-> o, p |-> p] : o \in {"pt.IsYOdd"}, p \in PS}
  \cup {[op |-> "pt.NewFromBytes", v |-> v, b |-> b, w |-> w] : v \in PS, b \in BS, w \in 1..WDecode}
  \cup {[op |-> o, v |-> v] : o \in {"pt.NewIdentity", "pt.NewGenerator"}, v \in PS}
  \cup {[op |-> "pt.NewFrom", v |-> v, p |-> p] : v \in PS, p \in PS}
  \cup {[op |-> o, v |-> v, b |-> b] : o \in {"pt.FromCoords", "pt.SetUniform"}, v \in PS, b \in BS}
  \cup {[op |-> "pt.Recover", v |-> v, s |-> s, c |-> c] : v \in PS, s \in SS, c \in {0, 1, 2, 3, 4}}
  \cup {[op |-> o, b |-> b, w |-> w] : o \in {"skey.New", "skey.Bytes", "spub.New", "spub.Bytes"}, b \in BS, w \in 1..WKey}
  \cup {[op |-> o, w |-> w] : o \in {"skey.FromECDSA", "spub.FromECDSA"}, w \in 1..WKey}
  \cup {[op |-> "skey.Scalar", s |-> s, w |-> w] : s \in SS, w \in 1..WKey}
  \cup {[op |-> "spub.FromPoint", p |-> p, w |-> w] : p \in PS, w \in 1..WKey}
  \cup {[op |-> "spub.Point", v |-> v, w |-> w] : v \in PS, w \in 1..WKey}
  \cup {[op |-> o, m |-> m, b |-> b, c |-> c, w |-> w] : o \in {"key.Sign", "key.Verify"}, m \in BS, b \in BS, c \in {0, 1, 2}, w \in 1..WSig}
  \cup {[op |-> "key.Sign", m |-> m, b |-> b, c |-> 3, w |-> 1] : m \in BS, b \in BS}                      \* an encoding that does not exist
  \cup {[op |-> o, m |-> m, b |-> b, w |-> w] : o \in {"key.Recover", "skey.Sign", "spub.Verify", "btc.Verify"}, m \in BS, b \in BS, w \in 1..WSig}
  \cup {[op |-> o, b |-> b, w |-> w] : o \in {"key.PubASN1", "key.ParseASN1"}, b \in BS, w \in 1..WKey}
  \cup {[op |-> "env.AppendByte", b |-> b, w |-> w] : b \in BS, w \in 1..WEnv}
  \cup {[op |-> o, b |-> b, w |-> w] : o \in {"key.PubEqual", "key.PrivEqual", "spub.Equal", "skey.Equal"}, b \in BS, w \in 1..WKey}
  \cup {[op |-> "key.EqualForeign", c |-> c] : c \in {0, 1, 2, 3}}
  \cup {[op |-> "btc.PreHash", m |-> m, b |-> b, c |-> c] : m \in BS, b \in BS, c \in {0, 1, 2}}
  \cup {[op |-> o, w |-> w] : o \in {"key.Generate", "skey.Generate"}, w \in 1..WKey}
  \cup {[op |-> o, s |-> s, p |-> p] : o \in {"sc.Set", "sc.NewFrom"}, s \in SS, p \in SS}
  \cup {[op |-> o, s |-> s] : o \in {"sc.One", "sc.Zero"}, s \in SS}
  \cup {[op |-> "sc.NewFromUint64", s |-> s, c |-> c] : s \in SS, c \in {0, 1, 2}}
  \cup {[op |-> o, s |-> s, b |-> b, w |-> w] : o \in {"sc.NewFromBytes", "sc.NewFromCanonicalBytes"}, s \in SS, b \in BS, w \in 1..WDecode}
  \cup {[op |-> "pt.SplitUncompressed", b |-> b, m |-> m] : b \in BS, m \in BS}
  \cup {[op |-> o, m |-> m, s |-> s, t |-> t, w |-> w] : o \in {"key.SignRaw", "key.VerifyRaw"}, m \in BS, s \in SS, t \in SS, w \in 1..WSig}
  \cup {[op |-> "key.SignHedged", m |-> m, b |-> b, c |-> c, w |-> w] : m \in BS, b \in BS, c \in {0, 1}, w \in 1..WSig}
  \cup {[op |-> o, v |-> 0, b |-> b, m |-> m] : o \in {"h2c.RO", "h2c.NU"}, b \in BS, m \in BS}          \* a constructor: which slot takes the fresh point is immaterial
  \cup {[op |-> "btc.IsBip66", b |-> b, w |-> w] : b \in BS, w \in 1..WSig}
  \cup {[op |-> "env.LoadBuf", b |-> b, cls |-> c, content |-> Content(c), w |-> w] : b \in BS, c \in BufClasses, w \in 1..WLoad}
  \cup {[op |-> "env.MutateBuf", b |-> b, cls |-> "flip", w |-> w] : b \in BS, w \in 1..WEnv}
  \cup {[op |-> "env.MutateScalar", s |-> s, w |-> w] : s \in SS, w \in 1..WEnv}
  \cup {[op |-> o, p |-> p, w |-> w] : o \in {"env.MutatePoint", "env.ForgetPoint"}, p \in PS, w \in 1..WEnv}
AllCalls == TLCEval(Calls)

Init0 == [pt |-> [i \in PS |-> Uninit], sc |-> [i \in SS |-> EncSc(0)], buf |-> [i \in BS |-> <<>>], priv |-> Nil, pub |-> Nil,
          spriv |-> Nil, spub |-> Nil]

(* env.MutateBuf flips the first byte (or appends one to an empty buffer): content depends on the state *)
Concrete(st, ev) ==
  IF ev.op = "env.MutateBuf"
  THEN [ev EXCEPT !.cls = "flip"] @@ [content |-> LET b == st.buf[ev.b] IN IF Len(b) = 0 THEN <<1>> ELSE <<(b[1] + 1) % 256>> \o Tail(b)]
  ELSE ev

(* preludes: short call sequences that establish key objects / valid points, so that simulated behaviours start in interesting regions *)
Preludes ==
  { <<>>,
    << [op |-> "env.LoadBuf", b |-> 0, cls |-> "sc_small", content |-> Content("sc_small")], [op |-> "key.NewPrivate", b |-> 0] >>,
    << [op |-> "pt.Generator", v |-> 0], [op |-> "pt.Double", v |-> 0, p |-> 0], [op |-> "key.NewPublicFromPoint", p |-> 0] >>,
    << [op |-> "env.LoadBuf", b |-> 0, cls |-> "cmp", content |-> Content("cmp")], [op |-> "key.NewPublic", b |-> 0] >>,
    << [op |-> "env.LoadBuf", b |-> 0, cls |-> "sc_nm1", content |-> Content("sc_nm1")], [op |-> "sc.SetCanonicalBytes", s |-> 0, b |-> 0],
       [op |-> "key.NewPrivateFromScalar", s |-> 0], [op |-> "key.PubPoint", v |-> 0] >>,
    << [op |-> "env.LoadBuf", b |-> 0, cls |-> "sc_small", content |-> Content("sc_small")], [op |-> "skey.New", b |-> 0], [op |-> "spub.Bytes", b |-> 0] >>,
    << [op |-> "env.LoadBuf", b |-> 0, cls |-> "xonly", content |-> Content("xonly")], [op |-> "spub.New", b |-> 0] >>,
    << [op |-> "env.LoadBuf", b |-> 0, cls |-> "inf", content |-> Content("inf")], [op |-> "pt.NewFromBytes", v |-> 0, b |-> 0],
       [op |-> "env.MutatePoint", p |-> 0], [op |-> "pt.NewFromBytes", v |-> 1, b |-> 0], [op |-> "pt.NewIdentity", v |-> 0] >>,
    << [op |-> "pt.NewGenerator", v |-> 0], [op |-> "env.MutatePoint", p |-> 0], [op |-> "pt.NewGenerator", v |-> 1],
       [op |-> "pt.NewIdentity", v |-> 0], [op |-> "env.MutatePoint", p |-> 0], [op |-> "pt.NewIdentity", v |-> 1] >>,
    << [op |-> "env.LoadBuf", b |-> 0, cls |-> "sc_nm1", content |-> Content("sc_nm1")], [op |-> "key.NewPrivate", b |-> 0], [op |-> "skey.FromECDSA"],
       [op |-> "spub.Point", v |-> 0] >>,
    << [op |-> "env.LoadBuf", b |-> 0, cls |-> "sc_n", content |-> Content("sc_n")], [op |-> "sc.SetCanonicalBytes", s |-> 0, b |-> 0],
       [op |-> "pt.Generator", v |-> 0], [op |-> "pt.Identity", v |-> 1] >>,
    (* sign, keep the signature, sign something else, verify both, scribble, verify again, recover *)
    << [op |-> "env.LoadBuf", b |-> 1, cls |-> "sc_small", content |-> Content("sc_small")], [op |-> "key.NewPrivate", b |-> 1],
       [op |-> "key.Sign", m |-> 1, b |-> 0, c |-> 2], [op |-> "key.Verify", m |-> 1, b |-> 0, c |-> 2], [op |-> "key.Recover", m |-> 1, b |-> 0],
       [op |-> "key.Verify", m |-> 1, b |-> 0, c |-> 2] >>,
    << [op |-> "env.LoadBuf", b |-> 1, cls |-> "sc_nm1", content |-> Content("sc_nm1")], [op |-> "key.NewPrivate", b |-> 1],
       [op |-> "key.Sign", m |-> 1, b |-> 0, c |-> 1], [op |-> "key.PrivBytes", b |-> 1], [op |-> "key.Sign", m |-> 1, b |-> 1, c |-> 1],
       [op |-> "key.Verify", m |-> 1, b |-> 0, c |-> 1] >>,
    << [op |-> "env.LoadBuf", b |-> 1, cls |-> "sc_small", content |-> Content("sc_small")], [op |-> "key.NewPrivate", b |-> 1],
       [op |-> "key.Sign", m |-> 1, b |-> 0, c |-> 0], [op |-> "key.Verify", m |-> 1, b |-> 0, c |-> 0] >>,
    << [op |-> "env.LoadBuf", b |-> 1, cls |-> "sc_small", content |-> Content("sc_small")], [op |-> "skey.New", b |-> 1],
       [op |-> "skey.Sign", m |-> 1, b |-> 0], [op |-> "spub.Verify", m |-> 1, b |-> 0], [op |-> "skey.Sign", m |-> 0, b |-> 1],
       [op |-> "spub.Verify", m |-> 0, b |-> 1] >> }
  \cup
    { << [op |-> "env.LoadBuf", b |-> 1, cls |-> "sc_small", content |-> Content("sc_small")], [op |-> "key.NewPrivate", b |-> 1],
         [op |-> "key.Sign", m |-> 1, b |-> 0, c |-> 0], [op |-> "env.AppendByte", b |-> 0], [op |-> "btc.Verify", m |-> 1, b |-> 0],
         [op |-> "key.PubASN1", b |-> 0], [op |-> "env.AppendByte", b |-> 0], [op |-> "key.PubASN1", b |-> 0], [op |-> "key.ParseASN1", b |-> 0],
         [op |-> "btc.Verify", m |-> 1, b |-> 0] >> }
  \cup
    { << [op |-> "env.LoadBuf", b |-> 1, cls |-> "sc_small", content |-> Content("sc_small")], [op |-> "key.NewPrivate", b |-> 1],
         [op |-> "key.PrivEqual", b |-> 1], [op |-> "key.PubBytes", b |-> 0], [op |-> "key.PubEqual", b |-> 0], [op |-> "key.PubCompressed", b |-> 0],
         [op |-> "key.PubEqual", b |-> 0], [op |-> "skey.FromECDSA"], [op |-> "skey.Equal", b |-> 1], [op |-> "spub.Bytes", b |-> 0], [op |-> "spub.Equal", b |-> 0],
         [op |-> "env.MutateBuf", b |-> 1, cls |-> "flip"], [op |-> "key.PrivEqual", b |-> 1], [op |-> "btc.PreHash", m |-> 1, b |-> 0, c |-> 0],
         [op |-> "skey.Sign", m |-> 0, b |-> 1], [op |-> "spub.Verify", m |-> 0, b |-> 1] >>,
      << [op |-> "key.Generate"], [op |-> "key.PrivBytes", b |-> 0], [op |-> "key.PrivEqual", b |-> 0], [op |-> "skey.Generate"], [op |-> "spub.Bytes", b |-> 1],
         [op |-> "spub.Equal", b |-> 1] >> }
  \cup (IF NB < 3 THEN {} ELSE
    (* a signature is kept while DIFFERENT messages are signed into another buffer, then verified *)
    { << [op |-> "env.LoadBuf", b |-> 1, cls |-> "sc_small", content |-> Content("sc_small")], [op |-> "key.NewPrivate", b |-> 1],
         [op |-> "key.Sign", m |-> 1, b |-> 0, c |-> enc],
         [op |-> "env.LoadBuf", b |-> 2, cls |-> "sc_nm1", content |-> Content("sc_nm1")], [op |-> "key.Sign", m |-> 2, b |-> 2, c |-> enc2],
         [op |-> "key.Verify", m |-> 1, b |-> 0, c |-> enc] >> : enc \in {0, 1, 2}, enc2 \in {1, 2} }
    \cup
    { << [op |-> "env.LoadBuf", b |-> 1, cls |-> "sc_small", content |-> Content("sc_small")], [op |-> "skey.New", b |-> 1],
         [op |-> "skey.Sign", m |-> 1, b |-> 0],
         [op |-> "env.LoadBuf", b |-> 2, cls |-> "cmp", content |-> Content("cmp")], [op |-> "skey.Sign", m |-> 2, b |-> 2],
         [op |-> "spub.Verify", m |-> 1, b |-> 0] >> })
  \cup (IF NS < 2 THEN {} ELSE
    (* round 8: raw signing and verification through scalar objects, a hedged signature (any valid one), a failing entropy source, the *)
    (* caller scribbling over the scalars it was handed, hash-to-curve results as operands                                             *)
    { << [op |-> "env.LoadBuf", b |-> 1, cls |-> "sc_small", content |-> Content("sc_small")], [op |-> "key.NewPrivate", b |-> 1],
         [op |-> "key.SignRaw", m |-> 1, s |-> 0, t |-> 1], [op |-> "key.VerifyRaw", m |-> 1, s |-> 0, t |-> 1],
         [op |-> "sig.BuildCompact", b |-> 0, s |-> 0, t |-> 1], [op |-> "key.Verify", m |-> 1, b |-> 0, c |-> 1],
         [op |-> "key.SignHedged", m |-> 1, b |-> 0, c |-> 0], [op |-> "key.Verify", m |-> 1, b |-> 0, c |-> 1],
         [op |-> "key.SignHedged", m |-> 1, b |-> 0, c |-> 1], [op |-> "key.Verify", m |-> 1, b |-> 0, c |-> 1],
         [op |-> "env.MutateScalar", s |-> 0], [op |-> "key.VerifyRaw", m |-> 1, s |-> 0, t |-> 1],
         [op |-> "h2c.RO", v |-> 0, b |-> 1, m |-> 0], [op |-> "h2c.NU", v |-> 1, b |-> 1, m |-> 1], [op |-> "pt.Add", v |-> 0, p |-> 0, q |-> 1],
         [op |-> "sig.BuildDER", b |-> 0, s |-> 0, t |-> 1], [op |-> "env.AppendByte", b |-> 0], [op |-> "btc.IsBip66", b |-> 0] >>,
      << [op |-> "sc.NewFromUint64", s |-> 0, c |-> 2], [op |-> "sc.NewFrom", s |-> 1, p |-> 0], [op |-> "env.MutateScalar", s |-> 0], [op |-> "sc.Equal", p |-> 0, q |-> 1],
         [op |-> "sc.One", s |-> 0], [op |-> "sc.Set", s |-> 1, p |-> 0], [op |-> "sc.Zero", s |-> 0], [op |-> "sc.Equal", p |-> 0, q |-> 1],
         [op |-> "pt.NewGenerator", v |-> 0], [op |-> "pt.UncompressedBytes", p |-> 0, b |-> 0], [op |-> "pt.SplitUncompressed", b |-> 0, m |-> 1],
         [op |-> "env.MutateBuf", b |-> 1, cls |-> "flip"], [op |-> "pt.SetUncompressedBytes", v |-> 1, b |-> 0] >> })
RECURSIVE RunPrelude(_, _, _)
RunPrelude(st, hist, pre) ==
  IF Len(pre) = 0 THEN <<st, hist>>
  ELSE LET cev == Concrete(st, pre[1])  r == Step(st, cev) IN
       RunPrelude(r.st, Append(hist, [x \in DOMAIN cev \ {"content", "w"} |-> cev[x]] @@ [kind |-> r.kind]), Tail(pre))

(* ---- systematic schedules: EVERY call of the call set (every operation x slot assignment x control bit), in two contexts (the   *)
(* all-uninitialised pool; a pool with valid points, scalars and all four key objects), and for calls that read a buffer with      *)
(* EVERY byte class in that buffer: one schedule per model transition.  Enumerated exhaustively by TLC (breadth-first, MaxDepth 0). *)
CtxValid ==
  << [op |-> "pt.Generator", v |-> 0], [op |-> "pt.Double", v |-> 0, p |-> 0], [op |-> "pt.Generator", v |-> 1], [op |-> "pt.Identity", v |-> 2],
     [op |-> "env.LoadBuf", b |-> 1, cls |-> "sc_small", content |-> Content("sc_small")], [op |-> "sc.SetBytes", s |-> 0, b |-> 1],
     [op |-> "env.LoadBuf", b |-> 1, cls |-> "sc_nm1", content |-> Content("sc_nm1")], [op |-> "sc.SetCanonicalBytes", s |-> 1, b |-> 1],
     [op |-> "key.NewPrivate", b |-> 1], [op |-> "skey.FromECDSA"],
     [op |-> "key.Sign", m |-> 1, b |-> 0, c |-> 2] >>                      \* buffer 0 holds a signature handed out earlier
SigOps == {"key.Sign", "key.Verify", "key.Recover", "skey.Sign", "spub.Verify", "btc.Verify", "key.ParseASN1", "key.SignRaw", "key.VerifyRaw", "key.SignHedged", "btc.IsBip66",
           "h2c.RO", "h2c.NU", "pt.SplitUncompressed", "sc.NewFromBytes", "sc.NewFromCanonicalBytes"}
DigestOps == {"key.SignRaw", "key.VerifyRaw", "key.SignHedged"}
H2cOps    == {"h2c.RO", "h2c.NU"}
(* the byte classes offered to a call in the systematic schedules: everything, except that the digest / tag readers of round 8 get the classes their outcome depends on *)
SysClasses(ev) == IF ev.op \in DigestOps THEN {"sc_small", "sc_zero", "sc_n", "sc_max", "empty", "cmp", "unc"}
                  ELSE IF ev.op \in H2cOps THEN {"empty", "sc_small", "unc", "spki_unc"}
                  ELSE BufClasses
ReadsBuf(ev) == ev.op \in DecodeOps \cup {"sig.ParseCompact", "sig.ParseCompactRec", "sig.ParseDER", "pt.NewFromBytes", "pt.FromCoords", "pt.SetUniform", "sc.SetBytes", "sc.SetCanonicalBytes", "key.NewPrivate", "key.NewPublic", "skey.New", "spub.New",
                                     "key.PubEqual", "key.PrivEqual", "spub.Equal", "skey.Equal"} \cup SigOps
ReadSlot(ev) == IF ev.op \in {"key.Sign", "skey.Sign"} \cup DigestOps THEN ev.m ELSE ev.b           \* the buffer whose CLASS decides the outcome
SysCalls == {ev \in AllCalls : ~IsEnv(ev)}
(* ... and after the call the CALLER scribbles over everything the call was given or handed out: the buffers it read or wrote, *)
(* the point / scalar a key accessor returned or a key constructor was built from (whole pool is compared after every step)    *)
Aftermath(ev) ==
     (IF "b" \in DOMAIN ev THEN << [op |-> "env.MutateBuf", b |-> ev.b, cls |-> "flip"] >> ELSE <<>>)
  \o (IF "m" \in DOMAIN ev /\ ("b" \notin DOMAIN ev \/ ev.m # ev.b) THEN << [op |-> "env.MutateBuf", b |-> ev.m, cls |-> "flip"] >> ELSE <<>>)
  \o (IF ev.op \in {"key.PubPoint", "spub.Point"} THEN << [op |-> "env.MutatePoint", p |-> ev.v] >> ELSE <<>>)
  \o (IF ev.op \in {"key.NewPublicFromPoint", "spub.FromPoint"} THEN << [op |-> "env.MutatePoint", p |-> ev.p] >> ELSE <<>>)
  \o (IF ev.op \in {"key.PrivScalar", "skey.Scalar", "key.NewPrivateFromScalar", "key.SignRaw", "sc.NewFrom"} THEN << [op |-> "env.MutateScalar", s |-> ev.s] >> ELSE <<>>)
SysSchedules ==
  {ctx \o <<ev>> \o Aftermath(ev) : ctx \in {<<>>, CtxValid}, ev \in {e \in SysCalls : ~ReadsBuf(e)}}
  \cup {ctx \o << [op |-> "env.LoadBuf", b |-> ReadSlot(ec[1]), cls |-> ec[2], content |-> Content(ec[2])], ec[1] >> \o Aftermath(ec[1]) :
          ctx \in {<<>>, CtxValid}, ec \in {x \in {e \in SysCalls : ReadsBuf(e)} \X BufClasses : x[2] \in SysClasses(x[1])}}
  (* NB: no UNION here - TLC evaluates constant-level definitions when it loads the specification, and a UNION of thousands of sets of  *)
  (* tuples is enumerated eagerly with a quadratic membership search (2.5 minutes of start-up for every TLC process, measured)        *)

(* ---- non-vacuity: deliberately wrong designs that the invariants must reject (bin/check runs the *_bug*.cfg configurations and *)
(* demands the violation): a failed decode that clears its receiver; caller mutation of an import buffer that moves the key       *)
StepM(st, ev) ==
  LET r == Step(st, ev) IN
  CASE Bug = "decode_clobbers" /\ ev.op \in DecodeOps /\ r.kind = "err" /\ st.pt[ev.v] # Uninit -> [r EXCEPT !.st = SetPt(st, ev.v, Inf)]
    [] Bug = "key_aliases_buffer" /\ ev.op = "env.MutateBuf" /\ st.priv # Nil /\ Len(ev.content) = W
         /\ (OS2IP(ev.content) \prec N) /\ ~BigEq(OS2IP(ev.content), 0) -> [r EXCEPT !.st.priv = ev.content]
    [] OTHER -> r

Init == /\ mDepth = 0
        /\ \E pre \in (IF UseSystematic THEN SysSchedules ELSE IF UsePreludes THEN Preludes ELSE {<<>>}) :
             LET rp == RunPrelude(Init0, <<>>, pre) IN mSt = rp[1] /\ mHist = (IF "VERIF_SKEL_DIR" \in DOMAIN IOEnv THEN rp[2] ELSE <<>>)

Emit == IF "VERIF_SKEL_DIR" \in DOMAIN IOEnv
        THEN LET id == TLCGet(7) IN
             /\ TLCSet(7, id + 1)
             /\ ndJsonSerialize(IOEnv.VERIF_SKEL_DIR \o "/sk-" \o ToString(id) \o ".ndjson", mHist)
        ELSE TRUE

(* In simulation (schedule generation) one call is DRAWN per step instead of enumerating every successor and keeping one: the   *)
(* behaviours are the same set, generation is ~1000x cheaper.  Exhaustive configurations quantify over the whole call set.      *)
(* NB: the drawn call must be a STATE-level expression (it mentions mDepth): TLC evaluates constant-level expressions once and caches   *)
(* them, and a cached draw repeats one call for the whole run (found in session 5: every simulated history was its prelude followed  *)
(* by forty copies of a single call).                                                                                                 *)
Pick == IF RandomPick THEN {RandomElement(IF mDepth >= 0 THEN AllCalls ELSE {})} ELSE AllCalls
Next ==
  \/ /\ mDepth < MaxDepth
     /\ \E ev \in Pick :
          LET cev == Concrete(mSt, ev)  r == StepM(mSt, cev) IN
          /\ mSt' = r.st
          /\ mHist' = IF "VERIF_SKEL_DIR" \in DOMAIN IOEnv THEN Append(mHist, [x \in DOMAIN cev \ {"content", "w"} |-> cev[x]] @@ [kind |-> r.kind]) ELSE <<>>
          /\ mDepth' = mDepth + 1
  \/ /\ mDepth = MaxDepth /\ Emit
     /\ mDepth' = MaxDepth + 1 /\ UNCHANGED <<mSt, mHist>>

(* invariants *)
Valid  == StateOK(mSt) /\ SignOK(mSt)
Steps  == mDepth < MaxDepth => \A ev \in AllCalls : LET cev == Concrete(mSt, ev) IN StepOKR(mSt, cev, StepM(mSt, cev))
View   == <<mSt, mDepth>>
ASSUME TLCSet(7, 0)
=============================================================================
