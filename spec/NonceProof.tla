--------------------------------- MODULE NonceProof ---------------------------------
(***************************************************************************)
(* TLAPS proof that the C09 safety properties of Nonce.tla hold in EVERY   *)
(* behaviour, for every value of the parameters (entropy width, retry and  *)
(* loop bounds) and unboundedly many reader calls: IndInv is inductive and *)
(* implies them.  (TLC checks the same on bounded instances, Apalache for  *)
(* WE <= 64; this removes the bounds.)                                     *)
(***************************************************************************)
EXTENDS Nonce, TLAPS

ASSUME ParamAssump == WE \in Nat /\ WE >= 1 /\ MaxTry \in Nat /\ MaxTry >= 1 /\ MaxSign \in Nat /\ MaxReads \in Nat

IndInv ==
  /\ phase \in {"entropy", "sample", "sign", "done"}
  /\ cand \in {"none", "zero", "ge_n", "valid"}
  /\ out \in {"running", "sig", "err_entropy", "err_sampling"}
  /\ got \in Nat /\ got <= WE /\ asked \in Nat /\ asked <= WE /\ reads \in Nat /\ draws \in Nat /\ rounds \in Nat
  /\ tries \in Nat /\ tries <= MaxTry
  /\ (phase = "done") <=> (out # "running")
  /\ (phase = "entropy") => (got < WE /\ draws = 0 /\ tries = 0 /\ rounds = 0 /\ cand = "none")
  /\ (phase = "sample") => (got = WE /\ tries < MaxTry)
  /\ (phase = "sign") => (got = WE /\ cand = "valid" /\ tries >= 1)
  /\ (out = "sig") => (got = WE /\ cand = "valid" /\ tries >= 1)
  /\ (out = "err_entropy") => (got < WE /\ draws = 0)
  /\ (out = "err_sampling") => (tries = MaxTry /\ cand # "valid" /\ got = WE)
  /\ (got < WE) => (draws = 0 /\ phase \in {"entropy", "done"})
  /\ (reads = 0) => (asked = 0 /\ got = 0)

Safe == SignedOnlyWithFullEntropy /\ NonceIsAcceptedCandidate /\ EntropyErrorMeansNoSig /\ NoDrawBeforeEntropy /\ SamplerBound /\ NeverOverRead /\ ReaderAskedExactly

THEOREM InitInd == Init => IndInv
  BY ParamAssump DEF Init, IndInv

THEOREM StepInd == IndInv /\ [Next]_vars => IndInv'
<1> SUFFICES ASSUME IndInv, [Next]_vars PROVE IndInv' OBVIOUS
<1>1 ASSUME NEW k \in 0..WE, NEW err \in BOOLEAN, ReaderReturns(k, err) PROVE IndInv'
  BY <1>1, ParamAssump DEF IndInv, ReaderReturns
<1>2 ASSUME NEW c \in {"zero", "ge_n", "valid"}, Candidate(c) PROVE IndInv'
  BY <1>2, ParamAssump DEF IndInv, Candidate
<1>3 ASSUME NEW dg \in BOOLEAN, SignStep(dg) PROVE IndInv'
  BY <1>3, ParamAssump DEF IndInv, SignStep
<1>4 ASSUME UNCHANGED vars PROVE IndInv'
  BY <1>4 DEF IndInv, vars
<1> QED BY <1>1, <1>2, <1>3, <1>4 DEF Next

THEOREM Implies == IndInv => Safe
  BY ParamAssump DEF IndInv, Safe, SignedOnlyWithFullEntropy, NonceIsAcceptedCandidate, EntropyErrorMeansNoSig, NoDrawBeforeEntropy, SamplerBound, NeverOverRead, ReaderAskedExactly

THEOREM Safety == Spec => []Safe
<1>1 Init => IndInv BY InitInd
<1>2 IndInv /\ [Next]_vars => IndInv' BY StepInd
<1>3 IndInv => Safe BY Implies
<1> QED BY <1>1, <1>2, <1>3, PTL DEF Spec
=============================================================================
