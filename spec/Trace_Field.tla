------------------------------ MODULE Trace_Field ------------------------------
(***************************************************************************)
(* C01 — trace specification for internal/field (full-size parameters).    *)
(* Every logged call must return what Field.tla says for its arguments.    *)
(***************************************************************************)
EXTENDS TraceBase, Field

VARIABLES tl, tBad, tCnt, life          \* life: the abstract value of the long-lived object of the lifetime chain (fe.Life)

H(s)      == HexToInt(s)
Is(x, s)  == IntIsHex(x, W, s)
RMont     == TwoW %% P                       \* Montgomery radix R = 2^(8W) reduced
RInv      == ModInv(RMont, P)
ZSwu      == P -- 11                         \* the RFC 9380 non-square Z = -11 (sqrt_ratio's second branch)
FlagOf(b) == IF b THEN 1 ELSE 0

Classes == {"life_step", "life_zero", "life_reject", "life_sqrt_none", "canon_repr", "sum_window", "diff_borrow", "mont_window", "mont_sqr_window", "decode_ge_p", "decode_lt_p",
            "canon_reject", "canon_accept", "wide_len_odd", "wide_ge_p", "wide_fold_carry", "wide_panic", "sqrt_residue",
            "sqrt_nonresidue", "sqrt_zero", "ratio_v0", "ratio_square", "ratio_nonsquare", "inv_zero",
            "alias_all", "alias_recv", "pow2k_panic", "csel_nonbool_ctrl", "near_p", "near_zero"}

PostsOK(ev) ==
  /\ (ev.alias \in {"none", "r=b", "a=b"}) => ev.a_post = ev.a
  /\ (ev.alias \in {"none", "r=a", "a=b"}) => ev.b_post = ev.b
  /\ (ev.alias \in {"a=b", "r=a=b"}) => ev.a = ev.b
  /\ ev.ret

Near(x) == (x \prec Pow2(34)) \/ ((P -- x) \prec Pow2(34))

AliasClass(ev) == (IF ev.alias = "r=a=b" THEN {"alias_all"} ELSE {})
                  \cup (IF ev.alias \in {"r=a", "r=b", "r=u", "r=v"} THEN {"alias_recv"} ELSE {})

(* verdict and corner classes of one event: <<ok, classes>> *)
Verdict(ev) ==
  CASE ev.ev = "lib.Unexpected" -> << FALSE, {} >>                 \* a call that must succeed failed or panicked
    [] ev.ev = "fe.Add" ->
         LET a == H(ev.a) b == H(ev.b) IN
         << Is(FAdd(a, b), ev.out) /\ PostsOK(ev),
            (IF P \preceq (a ++ b) THEN {"sum_window"} ELSE {}) \cup AliasClass(ev)
            \cup (IF Near(a) /\ Near(b) THEN {"near_p"} ELSE {}) >>
    [] ev.ev = "fe.Sub" ->
         LET a == H(ev.a) b == H(ev.b) IN
         << Is(FSub(a, b), ev.out) /\ PostsOK(ev), (IF a \prec b THEN {"diff_borrow"} ELSE {}) \cup AliasClass(ev) >>
    [] ev.ev = "fe.Mul" ->
         LET a == H(ev.a) b == H(ev.b) IN
         << Is(FMul(a, b), ev.out) /\ PostsOK(ev), AliasClass(ev) >>
    [] ev.ev = "fe.Equal" -> << ev.out = FlagOf(BigEq(H(ev.a), H(ev.b))), {} >>
    [] ev.ev = "fe.CSel"  -> << ev.out = (IF ev.c = 0 THEN ev.a ELSE ev.b), {} >>
    [] ev.ev = "fe.CNeg"  -> << Is(IF ev.c = 0 THEN H(ev.a) ELSE FNeg(H(ev.a)), ev.out), {} >>
    [] ev.ev = "fe.Neg"   -> << Is(FNeg(H(ev.a)), ev.out), AliasClass(ev) >>
    [] ev.ev = "fe.Sqr"   -> << Is(FSqr(H(ev.a)), ev.out), AliasClass(ev) >>
    [] ev.ev = "fe.Inv"   -> << Is(FInv(H(ev.a)), ev.out), (IF BigEq(H(ev.a), 0) THEN {"inv_zero"} ELSE {}) \cup AliasClass(ev) >>
    [] ev.ev \in {"fe.Set", "fe.NewFrom", "fe.String", "fe.FromUint64"} ->
         << Is(H(IF ev.ev = "fe.FromUint64" THEN ev["in"] ELSE ev.a), ev.out), {} >>
    [] ev.ev = "fe.IsZero" -> << ev.out = FlagOf(BigEq(H(ev.a), 0)), IF BigEq(H(ev.a), 0) THEN {"near_zero"} ELSE {} >>
    [] ev.ev = "fe.IsOdd"  -> << ev.out = FlagOf(FIsOdd(H(ev.a))), {} >>
    [] ev.ev = "fe.Sqrt" ->
         LET a == H(ev.a) IN
         << SqrtOK(a, H(ev.out), ev.flag) /\ HexLen(ev.out) = W /\ ev.flag \in {0, 1}
              /\ ((ev.alias = "none") => ev.a_post = ev.a),
            (IF BigEq(a, 0) THEN {"sqrt_zero"} ELSE IF FIsSquare(a) THEN {"sqrt_residue"} ELSE {"sqrt_nonresidue"})
            \cup AliasClass(ev) >>
    [] ev.ev = "fe.Pow3mod4" -> << Is(ModPow(H(ev.a), (P -- 3) // 4, P), ev.out), {} >>
    [] ev.ev = "fe.Pow2k" ->
         << IF ev.k = 0 THEN ev.panic ELSE (~ev.panic /\ Is(FPow2k(H(ev.a), ev.k), ev.out)),
            IF ev.k = 0 THEN {"pow2k_panic"} ELSE {} >>
    [] ev.ev = "fe.SqrtRatio" ->
         LET u == H(ev.u) v == H(ev.v) IN
         << SqrtRatioOK(u, v, ZSwu, H(ev.out), ev.flag) /\ HexLen(ev.out) = W /\ ev.flag \in {0, 1}
              /\ ((ev.alias \in {"none", "r=v"}) => ev.u_post = ev.u)
              /\ ((ev.alias \in {"none", "r=u"}) => ev.v_post = ev.v),
            (IF BigEq(v, 0) THEN {"ratio_v0"} ELSE IF ev.flag = 1 THEN {"ratio_square"} ELSE {"ratio_nonsquare"})
            \cup AliasClass(ev) >>
    [] ev.ev \in {"fe.SetBytes", "fe.ReduceSat"} ->
         LET d == FDecode(H(ev["in"])) IN
         << Is(d[1], ev.out) /\ ev.flag = d[2] /\ HexLen(ev["in"]) = W,
            IF d[2] = 1 THEN {"decode_ge_p"} ELSE {"decode_lt_p"} >>
    [] ev.ev = "fe.SetCanonical" ->
         LET d == FDecodeCanonical(H(ev["in"])) IN
         << IF d[1] = "ok" THEN ev.ok /\ ~ev.retnil /\ ev.post = ev["in"]
                           ELSE ~ev.ok /\ ev.retnil /\ ev.post = ev.pre,
            IF d[1] = "ok" THEN {"canon_accept"} ELSE {"canon_reject"} >>
    [] ev.ev = "fe.NewFromCanonical" ->
         LET d == FDecodeCanonical(H(ev["in"])) IN
         << IF d[1] = "ok" THEN ev.ok /\ ~ev.retnil /\ ev.out = ev["in"] ELSE ~ev.ok /\ ev.retnil, {} >>
    [] ev.ev = "fe.BytesAreCanonical" -> << ev.out <=> (H(ev["in"]) \prec P), {} >>
    [] ev.ev = "fe.MustSetCanonical" ->
         << IF H(ev["in"]) \prec P THEN ~ev.panic /\ ev.post = ev["in"] ELSE ev.panic /\ ev.post = ev.pre, {} >>
    [] ev.ev = "fe.SetWide" ->
         << /\ HexLen(ev["in"]) = ev.len
            /\ IF ev.len \in W..(2 * W) THEN ~ev.panic /\ Is(FWideReduce(H(ev["in"])), ev.out) ELSE ev.panic,
            (IF ev.len \notin W..(2 * W) THEN {"wide_panic"} ELSE
               (IF ev.len % 8 # 0 THEN {"wide_len_odd"} ELSE {}) \cup (IF P \preceq H(ev["in"]) THEN {"wide_ge_p"} ELSE {})
               \cup (LET v == H(ev["in"])  hi == v // TwoW  f == ((hi ** (TwoW -- P)) ++ (v %% TwoW)) %% TwoW IN      \* hi * c + lo next to a multiple of 2^(8W)
                     IF ~BigEq(hi, 0) /\ ((f \prec Pow2(34)) \/ ((TwoW -- f) \prec Pow2(34))) THEN {"wide_fold_carry"} ELSE {})) >>
    [] ev.ev = "fe.SetShort" ->
         << /\ HexLen(ev["in"]) = ev.len
            /\ IF ev.len < W THEN ~ev.panic /\ Is(H(ev["in"]), ev.out) ELSE ev.panic, {} >>
    [] ev.ev = "fe.Canon" ->        \* internal representation: the limbs hold the canonical residue v*R, so the predicates agree with the encoding
         << IntIsHex(FMul(H(ev.v), RMont), W, ev.mont) /\ ev.iszero = FlagOf(BigEq(H(ev.v), 0)) /\ ev.eq_fresh = 1, {"canon_repr"} >>
    [] ev.ev = "fe.Zero" -> << Is(0, ev.out), {} >>
    [] ev.ev = "fe.One"  -> << Is(1, ev.out), {} >>
    [] ev.ev = "fe.Const" ->
         << CASE ev.name = "two192" -> Is(Pow2(192) %% P, ev.out)
              [] ev.name = "two384" -> Is(Pow2(384) %% P, ev.out)
              [] ev.name = "c2"     -> BigEq(FSqr(H(ev.out)), 11) /\ HexLen(ev.out) = W   \* c2 = sqrt(-Z), Z = -11
              [] ev.name = "msat"   -> Is(P, ev.out), {} >>
    (* raw fiat entry points, operands are Montgomery-domain residues x = X*R mod p *)
    [] ev.ev = "mont.Mul" ->
         LET a == H(ev.a) b == H(ev.b) r == ((a ** b) ** RInv) %% P IN
         << Is(r, ev.out), IF (r ** TwoW) \prec (a ** b) THEN {"mont_window"} ELSE {} >>
    [] ev.ev = "mont.Sqr" ->
         LET a == H(ev.a) r == ((a ** a) ** RInv) %% P IN
         << Is(r, ev.out), IF (r ** TwoW) \prec (a ** a) THEN {"mont_sqr_window"} ELSE {} >>
    [] ev.ev = "mont.Add" -> << Is(FAdd(H(ev.a), H(ev.b)), ev.out), {} >>
    [] ev.ev = "mont.Sub" -> << Is(FSub(H(ev.a), H(ev.b)), ev.out), {} >>
    [] ev.ev = "mont.Opp" -> << Is(FNeg(H(ev.a)), ev.out), {} >>
    [] ev.ev = "mont.From" -> << Is(FMul(H(ev.a), RInv), ev.out), {} >>
    [] ev.ev = "mont.To"   -> << Is(FMul(H(ev.a), RMont), ev.out), {} >>
    [] ev.ev = "mont.Nonzero" -> << ev.out = FlagOf(~BigEq(H(ev.a), 0)), {} >>

(* ---- object lifetime (fe.Life, stateful): the expected value of the long-lived object after one more mutation, and what *)
(* every observer (on the object, a fresh copy and a second long-lived object set from it) must then report              *)
RECURSIVE LifePow(_, _)
LifePow(x, k) == IF k = 0 THEN x ELSE LifePow(FMul(x, x), k - 1)
LifeWant(cur, ev) ==
  LET a == IF ev.op = "wide" THEN 0 ELSE H(ev.arg) IN
  CASE ev.op = "reset"    -> a
    [] ev.op = "zero"     -> 0
    [] ev.op = "one"      -> 1
    [] ev.op = "add"      -> FAdd(cur, a)
    [] ev.op = "sub"      -> FSub(cur, a)
    [] ev.op = "rsub"     -> FSub(a, cur)
    [] ev.op = "neg"      -> FNeg(cur)
    [] ev.op = "mul"      -> FMul(cur, a)
    [] ev.op = "sq"       -> FMul(cur, cur)
    [] ev.op = "set"      -> a
    [] ev.op = "setbytes" -> a %% P
    [] ev.op = "setcanon" -> IF a \prec P THEN a ELSE cur                    \* a rejected decode leaves the object as it was
    [] ev.op = "cneg"     -> IF ev.ctrl = 0 THEN cur ELSE FNeg(cur)
    [] ev.op = "csel"     -> IF ev.ctrl = 0 THEN cur ELSE a
    [] ev.op = "inv"      -> FInv(cur)
    [] ev.op = "double"   -> FAdd(cur, cur)
    [] ev.op = "setu64"   -> a
    [] ev.op = "pow2k"    -> LifePow(cur, ev.ctrl)
    [] ev.op = "wide"     -> OS2IP(HexToBytes(ev.arg)) %% P
    [] ev.op = "inv_from" -> FInv(a)
    [] ev.op = "neg_from" -> FNeg(a)
    [] ev.op = "sq_from"  -> FMul(a, a)
    [] ev.op = "cneg_from" -> IF ev.ctrl = 0 THEN a ELSE FNeg(a)
    [] ev.op = "add2"     -> FAdd(a, a)
    [] ev.op = "sub2"     -> FSub(0, a)
    [] ev.op = "mul2"     -> FMul(a, a)
    [] ev.op = "pow2k_from" -> LifePow(a, ev.ctrl)
LifeObsOK(ev, want) ==
  /\ (Has(ev, "retself") => ev.retself # 0)
  /\ (Has(ev, "arg_after") /\ ev.arg_after # "" => Is(H(ev.arg), ev.arg_after))
  /\ Is(want, ev.bytes) /\ ev.bytes_again = ev.bytes /\ ev.copy = ev.bytes /\ ev.other = ev.bytes
  /\ ev.isodd = FlagOf(FIsOdd(want)) /\ ev.copy_isodd = ev.isodd /\ ev.other_isodd = ev.isodd
  /\ ev.iszero = FlagOf(BigEq(want, 0)) /\ ev.copy_iszero = ev.iszero /\ ev.eqself = 1 /\ ev.eqcopy = 1

Init == tl = 1 /\ tBad = 0 /\ tCnt = [k \in Classes \cup {"_any"} |-> 0] /\ life = IntToHex(0, W)

Step ==
  /\ tl <= NLog
  /\ LET ev == Log[tl] IN
     IF ev.ev = "fe.Life"
     THEN LET sq   == ev.op = "sqrt"
              a    == IF ev.op = "wide" THEN 0 ELSE H(ev.arg)
              got  == H(ev.bytes)
              want == IF sq THEN (IF FIsSquare(a) THEN got ELSE 0) ELSE LifeWant(H(life), ev)     \* either root is right: adopt the one returned
              ok   == /\ LifeObsOK(ev, want)
                      /\ (sq => /\ ev.flag = FlagOf(FIsSquare(a)) /\ (FIsSquare(a) => BigEq(FMul(got, got), a)) /\ (got \prec P))
          IN
          /\ tBad' = IF ok THEN tBad ELSE tBad + 1
          /\ (IF ok THEN TRUE ELSE Mismatch(tl, ev))
          /\ tCnt' = BumpAll(tCnt, {"life_step"} \cup (IF ev.op = "zero" THEN {"life_zero"} ELSE {}) \cup (IF ev.op = "setcanon" /\ ~(H(ev.arg) \prec P) THEN {"life_reject"} ELSE {})
                                    \cup (IF sq /\ ~FIsSquare(a) THEN {"life_sqrt_none"} ELSE {}))
          /\ life' = IntToHex(want, W)
     ELSE LET v == Verdict(ev) IN
          /\ tBad' = IF v[1] THEN tBad ELSE tBad + 1
          /\ (IF v[1] THEN TRUE ELSE Mismatch(tl, ev))
          /\ tCnt' = BumpAll(tCnt, v[2])
          /\ life' = life
  /\ tl' = tl + 1

Finish == tl = NLog + 1 /\ Done(tl, tBad, tCnt) /\ tl' = tl + 1 /\ UNCHANGED <<tBad, tCnt, life>>

Next == Step \/ Finish
Spec == Init /\ [][Next]_<<tl, tBad, tCnt, life>>
=============================================================================
