SPECIFICATION SpecBuggy
CONSTANTS
  WE = 4
  MaxTry = 8
  MaxSign = 2
  MaxReads = 6
INVARIANT TypeOK
INVARIANT SignedOnlyWithFullEntropy
INVARIANT NonceIsAcceptedCandidate
INVARIANT EntropyErrorMeansNoSig
INVARIANT NoDrawBeforeEntropy
INVARIANT SamplerBound
INVARIANT ReaderAskedExactly
INVARIANT NeverOverRead
INVARIANT DrawsAccounted
CHECK_DEADLOCK FALSE
