---------------------------------- MODULE Sec1 ----------------------------------
(***************************************************************************)
(* SEC 1 v2.0 section 2.3.3 / 2.3.4 point encodings, written               *)
(* declaratively: which byte strings are encodings, of which point.         *)
(* Byte strings are hex strings at full size (trace validation) and the     *)
(* same rules are stated on byte tuples for the miniature models            *)
(* (MC_Sec1).                                                               *)
(***************************************************************************)
EXTENDS Group

PrefixOf(a) == IF FIsOdd(a[2]) THEN 3 ELSE 2

(* ---- on byte tuples (both sizes) ---- *)
EncUncompressedB(a) == IF IsInf(a) THEN <<0>> ELSE <<4>> \o I2OSP(a[1], W) \o I2OSP(a[2], W)
EncCompressedB(a)   == IF IsInf(a) THEN <<0>> ELSE <<PrefixOf(a)>> \o I2OSP(a[1], W)

(* the unique y with the requested parity for x on the curve, if any: <<TRUE, y>> or <<FALSE>> *)
LiftX(x, odd) ==
  LET yy == FAdd(FMul(FSqr(x), x), B) IN
  IF ~FIsSquare(yy) THEN <<FALSE>>
  ELSE LET r == ModPow(yy, (P ++ 1) // 4, P)               \* p = 3 (mod 4)
           y == IF FIsOdd(r) = odd THEN r ELSE FNeg(r)
       IN  <<TRUE, y>>

(* Declarative decoder: <<"ok", point>> or <<"err">>.  b is a byte tuple. *)
DecodeB(b) ==
  LET len == Len(b) IN
  IF len = 1 THEN (IF b[1] = 0 THEN <<"ok", Inf>> ELSE <<"err">>)
  ELSE IF len = W + 1 THEN
    (IF b[1] \notin {2, 3} THEN <<"err">>
     ELSE LET x == OS2IP(SubSeq(b, 2, W + 1)) IN
          IF ~(x \prec P) THEN <<"err">>
          ELSE LET l == LiftX(x, b[1] = 3) IN IF l[1] THEN <<"ok", <<x, l[2]>>>> ELSE <<"err">>)
  ELSE IF len = 2 * W + 1 THEN
    (IF b[1] # 4 THEN <<"err">>
     ELSE LET x == OS2IP(SubSeq(b, 2, W + 1))  y == OS2IP(SubSeq(b, W + 2, 2 * W + 1)) IN
          IF ~(x \prec P) \/ ~(y \prec P) \/ ~OnCurveXY(x, y) THEN <<"err">> ELSE <<"ok", <<x, y>>>>)
  ELSE <<"err">>

DecodeCompressedB(b)   == IF Len(b) = W + 1 THEN DecodeB(b) ELSE <<"err">>          \* the identity byte is NOT accepted here
DecodeUncompressedB(b) == IF Len(b) = 2 * W + 1 THEN DecodeB(b) ELSE <<"err">>

(* RecoverPoint(x mod n as a scalar, id): x' = xs (+ n if bit 1), must stay below p; y parity = bit 0 *)
RecoverPointD(xs, id) ==
  IF id >= 4 THEN <<"err">>
  ELSE LET x == IF (id \div 2) % 2 = 1 THEN xs ++ N ELSE xs IN
       IF ~(x \prec P) THEN <<"err">>
       ELSE LET l == LiftX(x, id % 2 = 1) IN IF l[1] THEN <<"ok", <<x, l[2]>>>> ELSE <<"err">>

(* ---- on hex strings (full size) ---- *)
EncUncompressedH(a) == IF IsInf(a) THEN "00" ELSE HexCat("04", HexCat(IntToHex(a[1], W), IntToHex(a[2], W)))
EncCompressedH(a)   == IF IsInf(a) THEN "00" ELSE HexCat(IF FIsOdd(a[2]) THEN "03" ELSE "02", IntToHex(a[1], W))
EncXH(a)            == IntToHex(a[1], W)
DecodeH(h)          == DecodeB(HexToBytes(h))
=============================================================================
