------------------------------ MODULE Trace_Lookup ------------------------------
(***************************************************************************)
(* C19 (and the lookup part of C17) — trace specification for the          *)
(* constant-time table lookups, in both build configurations.              *)
(*                                                                         *)
(* Functional contract (lk.Proj / lk.Aff): for every table content and     *)
(* every index 0..15 the routine returns entry idx (raw limbs, bit for     *)
(* bit), the identity (0, R mod p, 0) for index 0 of the projective        *)
(* lookup, equals what the portable reference returns, and the assembly    *)
(* writes only the coordinate bytes of the destination.                    *)
(*                                                                         *)
(* Access pattern (lk.Touch, stateful): with entries k.. of the table in   *)
(* an unreadable page, whether the lookup faults is a function of          *)
(* (build, routine, k) ONLY — never of the secret index; and with all 15   *)
(* entries readable and the page right after the table unreadable it must  *)
(* not fault at all (nothing outside the table is read).  The variable-    *)
(* time twin is logged as well and is REQUIRED to violate the relation     *)
(* somewhere (non-vacuity of the observation).                             *)
(***************************************************************************)
EXTENDS TraceBase, Params

VARIABLES tl, tBad, tCnt, touch, vtSeen

Classes == {"proj_idx0", "proj_idx", "aff_idx0", "aff_idx", "pat_random", "pat_limb_ones", "pat_limb_bit", "pat_ones", "pat_zeros", "pat_align0", "pat_align8",
            "touch_ct", "touch_all_readable", "touch_vartime_differs", "layout", "build_asm", "build_purego"}

(* little-endian limbs of R mod p (the Montgomery form of 1), as the raw 32-byte image *)
OneImage == "d103000001000000" \o "0000000000000000" \o "0000000000000000" \o "0000000000000000"
Zero32   == "0000000000000000000000000000000000000000000000000000000000000000"
IdentityImage == Zero32 \o OneImage \o Zero32

PatClass(ev) == {"pat_" \o ev.pat} \cup {"build_" \o ev.build}

Verdict(ev) ==
  CASE ev.ev = "lib.Unexpected" -> << FALSE, {} >>                 \* a call that must succeed failed or panicked
    [] ev.ev = "lk.Layout" ->
         << ev.point >= 96 /\ ev.affine >= 64 /\ ev.refcopy /\ HexToInt("01000003d1") = TwoW %% P, {"layout"} >>
    [] ev.ev = "lk.Proj" ->
         LET want == IF ev.idx = 0 THEN IdentityImage ELSE ev.tbl[ev.idx] IN
         << ev.out = want /\ ev.ref = want /\ (ev.build = "asm" => ev.out_tail = ev.pre_tail) /\ (Has(ev, "faulted") => ~ev.faulted),
            (IF ev.idx = 0 THEN {"proj_idx0"} ELSE {"proj_idx"}) \cup PatClass(ev) >>
    [] ev.ev = "lk.Aff" ->
         LET want == IF ev.idx = 0 THEN Zero32 \o Zero32 ELSE ev.tbl[ev.idx] IN
         << ev.out = want /\ ev.ref = want /\ (Has(ev, "faulted") => ~ev.faulted), (IF ev.idx = 0 THEN {"aff_idx0"} ELSE {"aff_idx"}) \cup PatClass(ev) >>

IsStateful(ev) == ev.ev = "lk.Touch"

(* <<ok, classes, touch', vtSeen'>> *)
TouchVerdict(ev) ==
  LET key == <<ev.build, ev.kind, ev.k>> IN
  IF ev.kind = "selv"
  THEN << TRUE, {}, touch,
          IF key \in DOMAIN vtSeen THEN [vtSeen EXCEPT ![key] = @ \cup {ev.faulted}] ELSE vtSeen @@ (key :> {ev.faulted}) >>
  ELSE IF ev.k = 15 /\ ev.faulted
       THEN << FALSE, {}, touch, vtSeen >>        \* the whole table is readable: a fault means a read OUTSIDE the 15-entry table
  ELSE IF key \in DOMAIN touch
       THEN << touch[key] = ev.faulted, IF ev.k = 15 THEN {"touch_all_readable"} ELSE {"touch_ct"}, touch, vtSeen >>
       ELSE << TRUE, {}, touch @@ (key :> ev.faulted), vtSeen >>

Init == /\ tl = 1 /\ tBad = 0 /\ tCnt = [k \in Classes \cup {"_any"} |-> 0] /\ touch = <<>> /\ vtSeen = <<>>

Step ==
  /\ tl <= NLog
  /\ LET ev == Log[tl] IN
     IF IsStateful(ev)
     THEN LET v == TouchVerdict(ev) IN
          /\ tBad' = IF v[1] THEN tBad ELSE tBad + 1
          /\ (IF v[1] THEN TRUE ELSE Mismatch(tl, ev))
          /\ tCnt' = BumpAll(tCnt, v[2])
          /\ touch' = v[3] /\ vtSeen' = v[4]
     ELSE LET v == Verdict(ev) IN
          /\ tBad' = IF v[1] THEN tBad ELSE tBad + 1
          /\ (IF v[1] THEN TRUE ELSE Mismatch(tl, ev))
          /\ tCnt' = BumpAll(tCnt, v[2] \cap Classes)
          /\ UNCHANGED <<touch, vtSeen>>
  /\ tl' = tl + 1

(* at the end: the variable-time twin must have shown an index-dependent access pattern for some k *)
Finish == /\ tl = NLog + 1
          /\ Done(tl, tBad, [tCnt EXCEPT !["touch_vartime_differs"] = IF \E key \in DOMAIN vtSeen : vtSeen[key] = {TRUE, FALSE} THEN 1 ELSE 0])
          /\ tl' = tl + 1 /\ UNCHANGED <<tBad, tCnt, touch, vtSeen>>

Next == Step \/ Finish
Spec == Init /\ [][Next]_<<tl, tBad, tCnt, touch, vtSeen>>
=============================================================================
