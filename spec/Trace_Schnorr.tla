----------------------------- MODULE Trace_Schnorr -----------------------------
(***************************************************************************)
(* C13, C14 — trace specification for the BIP-340 implementation at full   *)
(* size.  The tagged hashes are evaluated by the specification (SHA-256    *)
(* primitive), so no challenge or nonce is trusted from the log.           *)
(***************************************************************************)
EXTENDS TraceBase, Schnorr, Projective

VARIABLES tl, tBad, tCnt

H(s)  == HexToInt(s)
HB(s) == HexToBytes(s)
ToAffRaw(h) == ToAff(<<H(HexSlice(h, 0, 32)), H(HexSlice(h, 32, 64)), H(HexSlice(h, 64, 96))>>)

Classes == {"pk_x_ge_n", "pk_ok", "pk_not_on_curve", "pk_ge_p", "pk_bad_len", "vfy_accept", "vfy_reject", "r_ge_p", "s_ge_n", "s_zero", "R_odd_y",
            "R_inf", "x_mismatch", "msg_len_0", "msg_len_odd", "msg_len_long", "msg_len_blocks", "sig_bad_len", "vector",
            "sign_P_even_R_even", "sign_P_even_R_odd", "sign_P_odd_R_even", "sign_P_odd_R_odd", "aux_zero", "aux_ones",
            "sign_public_api", "sign_reader_fail", "from_point_odd", "from_point_even", "from_point_inf", "from_point_altrep", "from_ecdsa",
            "self_verify", "immutable", "msg_nil_accept", "msg_nil_sign"}

MsgClasses(m) == (IF Len(m) = 0 THEN {"msg_len_0"} ELSE {}) \cup (IF Len(m) % 32 # 0 THEN {"msg_len_odd"} ELSE {})
                 \cup (IF Len(m) > 64 THEN {"msg_len_long"} ELSE {}) \cup (IF Len(m) > 128 /\ Len(m) < 400 THEN {"msg_len_blocks"} ELSE {})

VerifyClasses(pk, msg, sig, out) ==
  (IF out THEN {"vfy_accept"} ELSE {"vfy_reject"}) \cup MsgClasses(msg)
  \cup (IF Len(sig) # 2 * W THEN {"sig_bad_len"}
        ELSE LET r == OS2IP(SubSeq(sig, 1, W))  s == OS2IP(SubSeq(sig, W + 1, 2 * W))  lf == LiftXEven(OS2IP(pk)) IN
             (IF ~(r \prec P) THEN {"r_ge_p"} ELSE {}) \cup (IF ~(s \prec N) THEN {"s_ge_n"} ELSE {}) \cup (IF BigEq(s, 0) THEN {"s_zero"} ELSE {})
             \cup (IF lf[1] /\ (r \prec P) /\ (s \prec N)
                   THEN LET e == ChallengeOf(SubSeq(sig, 1, W), pk, msg)
                            rr == PAdd(PMulG(s), PMul(SNeg(e), lf[2])) IN
                        IF IsInf(rr) THEN {"R_inf"} ELSE IF ~HasEvenY(rr) THEN {"R_odd_y"} ELSE IF ~BigEq(rr[1], r) THEN {"x_mismatch"} ELSE {}
                   ELSE {}))

Verdict(ev) ==
  CASE ev.ev = "lib.Unexpected" -> << FALSE, {} >>                 \* a call that must succeed failed or panicked
    [] ev.ev = "schnorr.NewPub" ->
         LET b == HB(ev["in"])  lf == IF Len(b) = W THEN LiftXEven(OS2IP(b)) ELSE <<FALSE>> IN
         << IF lf[1] THEN ev.ok /\ ev.bytes = ev["in"] /\ ev.point = EncUncompressedH(lf[2]) ELSE ~ev.ok,
            IF lf[1] THEN {"pk_ok"} \cup (IF N \preceq OS2IP(b) THEN {"pk_x_ge_n"} ELSE {}) ELSE IF Len(b) # W THEN {"pk_bad_len"} ELSE IF ~(OS2IP(b) \prec P) THEN {"pk_ge_p"} ELSE {"pk_not_on_curve"} >>
    [] ev.ev = "schnorr.Verify" ->
         LET pk == HB(ev.pk)  msg == HB(ev.msg)  sig == HB(ev.sig) IN
         << ev.out <=> VerifyB(pk, msg, sig),
            VerifyClasses(pk, msg, sig, ev.out) \cup (IF Has(ev, "vector") /\ ev.vector THEN {"vector"} ELSE {})
            \cup (IF Has(ev, "nilmsg") /\ ev.nilmsg /\ ev.out THEN {"msg_nil_accept"} ELSE {}) >>
    [] ev.ev = "schnorr.Sign" ->
         LET sk == HB(ev.d)  msg == HB(ev.msg) IN
         IF ev.kind = "reader_fail" THEN << ~ev.ok /\ ev.sig = "", {"sign_reader_fail"} >>
         ELSE LET aux == HB(ev.aux)  want == SignB(sk, msg, aux)
                  pp == PMulG(OS2IP(sk))
                  rr == LET d == IF HasEvenY(pp) THEN OS2IP(sk) ELSE SNeg(OS2IP(sk))
                            t == XorBytes(I2OSP(d, W), TaggedHash(TagAux, aux))
                        IN PMulG(OS2IP(TaggedHash(TagNonce, t \o I2OSP(pp[1], W) \o msg)) %% N)
         IN << /\ want[1] = "ok" /\ ev.ok /\ HB(ev.sig) = want[2]                               \* byte for byte the BIP-340 signature
               /\ ev.pub = IntToHex(pp[1], W)
               /\ VerifyB(HB(ev.pub), msg, HB(ev.sig)) /\ ev.verified,
               {IF HasEvenY(pp) THEN (IF HasEvenY(rr) THEN "sign_P_even_R_even" ELSE "sign_P_even_R_odd")
                                ELSE (IF HasEvenY(rr) THEN "sign_P_odd_R_even" ELSE "sign_P_odd_R_odd")}
               \cup (IF BigEq(OS2IP(aux), 0) THEN {"aux_zero"} ELSE {}) \cup (IF BigEq(OS2IP(aux), Pow2(256) -- 1) THEN {"aux_ones"} ELSE {})
               \cup (IF ev.kind = "public" THEN {"sign_public_api"} ELSE {}) \cup MsgClasses(msg)
               \cup (IF Has(ev, "nilmsg") /\ ev.nilmsg THEN {"msg_nil_sign"} ELSE {}) >>
    [] ev.ev = "schnorr.FromPoint" ->
         LET a == ToAffRaw(ev.p) IN
         << IF IsInf(a) THEN ~ev.ok
            ELSE ev.ok /\ ev.bytes = IntToHex(a[1], W) /\ ev.point = EncUncompressedH(XOnly(a)),
            (IF IsInf(a) THEN {"from_point_inf"} ELSE IF HasEvenY(a) THEN {"from_point_even"} ELSE {"from_point_odd"})
            \cup (IF ~IsInf(a) /\ ~BigEq(H(HexSlice(ev.p, 64, 96)), 1) THEN {"from_point_altrep"} ELSE {}) >>
    [] ev.ev = "schnorr.FromECDSA" ->
         LET d0 == H(ev.d)  pp == PMulG(d0)  dd == H(ev.dneg) IN
         << /\ ev.bytes = IntToHex(pp[1], W) /\ ev.point = EncUncompressedH(XOnly(pp))
            /\ ev.pubfromecdsa = ev.bytes /\ ev.pubfromecdsa_point = ev.point /\ ev.skbytes = ev.d
            /\ PEq(PMulG(dd), XOnly(pp)) /\ (BigEq(dd, d0) \/ BigEq(dd, SNeg(d0))),            \* signing scalar consistent with the even-y point
            {"from_ecdsa"} >>
    [] ev.ev = "schnorr.Immutable" ->     \* the caller scribbled over every slice / scalar / point handed out or passed in
         << /\ ev.bytes2 = ev.bytes1 /\ ev.sk2 = ev.sk1 /\ ev.point2 = ev.point1 /\ ev.sig2 = ev.sig1 /\ ev.copies_ok /\ ev.verify_after
            /\ ev.sk1 = ev.d /\ ev.bytes1 = IntToHex(PMulG(H(ev.d))[1], W),
            {"immutable"} >>
    [] ev.ev = "schnorr.SelfVerify" ->
         << ev.self = ev.pubverify /\ (ev.pubverify <=> VerifyB(HB(ev.pk), HB(ev.msg), HB(ev.sig))), {"self_verify", "immutable", "msg_nil_accept", "msg_nil_sign"} >>

Init == tl = 1 /\ tBad = 0 /\ tCnt = [k \in Classes \cup {"_any"} |-> 0]

Step ==
  /\ tl <= NLog
  /\ LET ev == Log[tl]
         v  == Verdict(ev)
     IN  /\ tBad' = IF v[1] THEN tBad ELSE tBad + 1
         /\ (IF v[1] THEN TRUE ELSE Mismatch(tl, ev))
         /\ tCnt' = BumpAll(tCnt, v[2])
  /\ tl' = tl + 1

Finish == tl = NLog + 1 /\ Done(tl, tBad, tCnt) /\ tl' = tl + 1 /\ UNCHANGED <<tBad, tCnt>>

Next == Step \/ Finish
Spec == Init /\ [][Next]_<<tl, tBad, tCnt>>
=============================================================================
