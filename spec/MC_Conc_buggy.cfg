SPECIFICATION Spec
CONSTANTS
  Gor = {1, 2, 3}
  OpsPer = 2
  Buggy = TRUE
INVARIANT NoRace
INVARIANT AsAlone
CHECK_DEADLOCK FALSE
