------------------------------- MODULE Trace_Conc -------------------------------
(***************************************************************************)
(* C20 — trace specification for the concurrent driver (built with -race). *)
(* State: `base` = the result every (operation, argument) returned when    *)
(* run alone.  Every concurrent call (logged with goroutine id and its     *)
(* per-goroutine sequence number) must return exactly that; the deep       *)
(* memory images of all shared objects and the table checksums taken       *)
(* before and after the concurrent phase must be equal (Conc!Frame); the   *)
(* first use of the tables from 32 goroutines in a fresh process must      *)
(* agree with the sequential value.  Race-detector reports are turned into *)
(* violations by the orchestrator.                                         *)
(***************************************************************************)
EXTENDS TraceBase

VARIABLES tl, tBad, tCnt, base, seen

Classes == {"base", "call", "fresh_token", "frame_key", "frame_table", "frame_other", "init", "race_build", "many_goroutines"}

IsStateful(ev) == TRUE

(* results that depend on fresh system randomness carry a token (a nonce's r, a key fingerprint) that must never repeat *)
FreshOK(ev) == ~Has(ev, "fresh") \/ ev.fresh = "" \/ ev.fresh \notin seen
FreshCls(ev) == IF Has(ev, "fresh") /\ ev.fresh # "" THEN {"fresh_token"} ELSE {}
Seen(ev) == IF Has(ev, "fresh") /\ ev.fresh # "" THEN seen \cup {ev.fresh} ELSE seen

(* <<ok, classes, base'>> *)
V(ev) ==
  CASE ev.ev = "lib.Unexpected" -> << FALSE, {}, base >>       \* a call that must succeed failed or panicked
    [] ev.ev = "conc.Base" -> LET k == <<ev.op, ev.arg>> IN << k \notin DOMAIN base /\ FreshOK(ev), {"base"} \cup FreshCls(ev), base @@ (k :> ev.out) >>
    [] ev.ev = "conc.Call" -> LET k == <<ev.op, ev.arg>> IN << k \in DOMAIN base /\ base[k] = ev.out /\ FreshOK(ev), {"call"} \cup FreshCls(ev), base >>
    [] ev.ev = "conc.Frame" -> << ev.same /\ ev.before = ev.after,
                                  IF ev.obj \in {"priv", "pub", "peer", "spriv", "spub"} THEN {"frame_key"}
                                  ELSE IF ev.obj \in {"table0", "table1"} THEN {"frame_table"} ELSE {"frame_other"}, base >>
    [] ev.ev = "conc.Init" -> << ev.out = ev.seq, {"init"}, base >>
    [] ev.ev = "conc.Done" -> << ev.calls > 0, (IF ev.race_build THEN {"race_build"} ELSE {}) \cup (IF ev.goroutines >= 16 THEN {"many_goroutines"} ELSE {}), base >>

Init == tl = 1 /\ tBad = 0 /\ tCnt = [k \in Classes \cup {"_any"} |-> 0] /\ base = <<>> /\ seen = {}

Step ==
  /\ tl <= NLog
  /\ LET ev == Log[tl]  v == V(ev) IN
     /\ tBad' = IF v[1] THEN tBad ELSE tBad + 1
     /\ (IF v[1] THEN TRUE ELSE Mismatch(tl, ev))
     /\ tCnt' = BumpAll(tCnt, v[2])
     /\ base' = v[3]
     /\ seen' = Seen(ev)
  /\ tl' = tl + 1

Finish == tl = NLog + 1 /\ Done(tl, tBad, tCnt) /\ tl' = tl + 1 /\ UNCHANGED <<tBad, tCnt, base, seen>>

Next == Step \/ Finish
Spec == Init /\ [][Next]_<<tl, tBad, tCnt, base, seen>>
=============================================================================
