INIT Init
NEXT Next
CONSTANTS
  NP = 2
  NS = 1
  NB = 2
  MaxDepth = 4
  UseSystematic = FALSE
  Bug = "none"
  RandomPick = FALSE
  UsePreludes = FALSE
  WKey = 1
  WEnv = 1
  WLoad = 1
  WSig = 1
  WDecode = 1
INVARIANT Valid
INVARIANT Steps
VIEW View
CHECK_DEADLOCK FALSE
