INIT Init
NEXT Next
