INIT Init
NEXT Next
CONSTANTS
  NP = 3
  NS = 2
  NB = 3
  MaxDepth = 40
  UseSystematic = FALSE
  Bug = "none"
  RandomPick = TRUE
  UsePreludes = TRUE
  WKey = 10
  WEnv = 12
  WLoad = 2
  WSig = 6
  WDecode = 4
CHECK_DEADLOCK FALSE
