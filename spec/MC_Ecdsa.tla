-------------------------------- MODULE MC_Ecdsa --------------------------------
(***************************************************************************)
(* Pipeline A for C07, C08, C10, C11 on a miniature curve (every point is  *)
(* d*G with a known d, so "signature" has a declarative meaning in terms   *)
(* of discrete logarithms):                                                *)
(*  verify : for ALL keys Q = dG, ALL e, ALL (r, s) in [0, n)^2            *)
(*           VerifyPred <=> exists nonce k with r = x(kG) mod n # 0,       *)
(*           s # 0, s k = e + r d  (SEC 1 4.1.3/4.1.4 agree), and the      *)
(*           private-key path 4.1.5 equals the public one;                 *)
(*  sign   : for ALL d, e, k: SignWithNonce retries exactly when r = 0 or  *)
(*           s = 0, else yields 1 <= r < n, 1 <= s <= (n-1)/2, valid,      *)
(*           v in 0..3, Recover(v) = dG and no other id recovers dG;       *)
(*  recover: for ALL e, r, s, ALL v in 0..7: Recover fails exactly in the  *)
(*           listed cases, else returns the unique Q = r^-1 (sR - eG)      *)
(*           and Q verifies (r, s);                                        *)
(*  ecdh   : for ALL a, b: ECDH(a, bG) = ECDH(b, aG) = x(abG), never from  *)
(*           the identity.                                                 *)
(* p - n is 12 on every miniature curve, so x(R) >= n is frequent.         *)
(***************************************************************************)
EXTENDS Ecdsa, TLC, FiniteSets

VARIABLES mKind, mD, mE

Bug == IF "VERIF_BUG" \in DOMAIN IOEnv THEN IOEnv.VERIF_BUG ELSE "none"      \* a deliberately wrong design, selected by the orchestrator for non-vacuity runs
(* non-vacuity: verification that compares x(R) with r without reducing it modulo n; signing that keeps a high s; recovery that *)
(* ignores bit 1 of the id                                                                                                      *)
VerifyNoReduce(Mul(_, _), q, e, r, s) ==
  /\ r # 0 /\ s # 0 /\ r < N /\ s < N
  /\ LET w == SInv(s)  rr == PAdd(Mul(SMul(e, w), GenPt), Mul(SMul(r, w), q)) IN ~IsInf(rr) /\ rr[1] = r
VerifyUT(Mul(_, _), q, e, r, s) == IF Bug = "verify_no_mod_n" THEN VerifyNoReduce(Mul, q, e, r, s) ELSE VerifyPredM(Mul, q, e, r, s)
SignUT(Mul(_, _), d, e, k) ==
  LET sg == SignWithNonceM(Mul, d, e, k) IN
  IF Bug = "sign_high_s" /\ sg[1] = "sig" THEN <<"sig", sg[2], (N - sg[3]) % N, sg[4]>> ELSE sg
RecoverUT(Mul(_, _), e, r, s, v) == IF Bug = "recover_ignores_bit1" THEN RecoverM(Mul, e, r, s, v % 2) ELSE RecoverM(Mul, e, r, s, v)

ZN   == 0..(N - 1)
FP   == 0..(P - 1)
Aff  == TLCEval({<<x, y>> \in FP \X FP : (y * y) % P = (x * x * x + B) % P})
Pts  == TLCEval(Aff \cup {Inf})
GT   == TLCEval([k \in ZN |-> PMulG(k)])                                     \* k |-> kG
LogT == TLCEval([a \in Pts |-> CHOOSE k \in ZN : GT[k] = a])                 \* discrete logarithm
TMul(k, a) == GT[(k * LogT[a]) % N]                                           \* memoised multiplication (G generates the group)

(* three levels (kind, then d, then e) so that TLC's workers share the load; invariants apply to the leaves *)
Init == mKind \in {"verify", "sign", "recover", "ecdh"} /\ mD = -1 /\ mE = -1
Next == \/ mD = -1 /\ mD' \in (IF mKind = "recover" THEN ZN ELSE 1..(N - 1)) /\ UNCHANGED <<mKind, mE>>
        \/ mD # -1 /\ mE = -1 /\ mE' \in (IF mKind = "ecdh" THEN {0} ELSE ZN) /\ UNCHANGED <<mKind, mD>>
Leaf == mD # -1 /\ mE # -1

TableInv == Leaf /\ mKind = "ecdh" /\ mD = 1 =>
  /\ Cardinality(Pts) = N
  /\ \A a \in Pts, k \in {0, 1, 2, N - 1, HalfN} : TMul(k, a) = PMul(k, a)   \* the memoised table is the D-level multiplication

VerifyInv == Leaf /\ mKind = "verify" =>
  LET q == GT[mD] IN
  \A r \in ZN, s \in ZN :
    LET byDef == /\ r # 0 /\ s # 0
                 /\ \E k \in 1..(N - 1) : GT[k][1] % N = r /\ (s * k) % N = (mE + r * mD) % N
    IN  /\ VerifyUT(TMul, q, mE, r, s) <=> byDef
        /\ VerifyAltM(TMul, mD, mE, r, s) <=> byDef

SignInv == Leaf /\ mKind = "sign" =>
  LET q == GT[mD] IN
  \A k \in 1..(N - 1) :
    LET sg == SignUT(TMul, mD, mE, k)
        r0 == GT[k][1] % N
        s0 == (SInv(k) * ((mE + r0 * mD) % N)) % N
    IN  IF r0 = 0 \/ s0 = 0 THEN sg = <<"retry">>
        ELSE /\ sg[1] = "sig" /\ sg[2] = r0 /\ sg[3] \in {s0, (N - s0) % N}
             /\ sg[2] \in 1..(N - 1) /\ sg[3] \in 1..HalfN /\ sg[4] \in 0..3
             /\ VerifyPredM(TMul, q, mE, sg[2], sg[3])
             /\ RecoverM(TMul, mE, sg[2], sg[3], sg[4]) = <<"ok", q>>
             /\ \A v \in 0..7 : v # sg[4] => RecoverM(TMul, mE, sg[2], sg[3], v) # <<"ok", q>>

RecoverInv == Leaf /\ mKind = "recover" =>
  LET r == mD IN
  \A s \in ZN, v \in 0..7 :
    LET rc == RecoverUT(TMul, mE, r, s, v)
        x  == r + N * ((v \div 2) % 2)
        cands == {a \in Aff : a[1] = x /\ a[2] % 2 = v % 2}
    IN  IF r = 0 \/ s = 0 \/ v >= 4 \/ x >= P \/ cands = {} THEN rc = <<"err">>
        ELSE LET rr == CHOOSE a \in cands : TRUE
                 q  == TMul(SInv(r), PSub(TMul(s, rr), GT[mE])) IN
             /\ Cardinality(cands) = 1
             /\ IF IsInf(q) THEN rc = <<"err">>
                ELSE rc = <<"ok", q>> /\ VerifyPredM(TMul, q, mE, r, s)

EcdhInv == Leaf /\ mKind = "ecdh" =>
  \A b \in 1..(N - 1) :
    LET ab == EcdhM(TMul, mD, GT[b])  ba == EcdhM(TMul, b, GT[mD]) IN
    /\ ab = ba /\ ab[1] = "ok" /\ ab[2] = GT[(mD * b) % N][1]
=============================================================================
