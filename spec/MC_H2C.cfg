INIT Init
NEXT Next
INVARIANT SwuInv
INVARIANT ParamInv
INVARIANT IsoInv
CHECK_DEADLOCK FALSE
