INIT Init
NEXT Next
INVARIANT SwuInv
INVARIANT ParamInv
CHECK_DEADLOCK FALSE
