#!/usr/bin/env python3
"""gen_iso_params.py — give a miniature curve a GENUINE RFC 9380 set-up, built the way secp256k1's was:

  E  : y^2 = x^3 + b          (j = 0, so simplified SWU does not apply directly)
  E' : y^2 = x^3 + A'x + B'   3-isogenous to E, A'B' != 0   (Velu from the rational order-3 subgroup of E with x0^3 = -4b)
  iso_map : E' -> E           the dual 3-isogeny (Velu from the rational order-3 subgroup of E', then x/9, y/27),
                              as rational maps  x = xnum/xden, y = y * ynum/yden  with the k_(i,j) layout of RFC 9380 E.1
  Z                           by find_z_sswu (RFC 9380 H.2)

Everything is verified by brute force before it is written: every point of E'(F_p) maps to a point of E(F_p).
Only miniature curves for which -4b is a cube mod p admit this (mini163, mini211); the others keep their placeholder
coefficients and MC_H2C does not check the isogeny on them ("isovalid": 0).
usage: gen_iso_params.py spec/params/mini211.json [...]
"""
import json
import sys


def build(p, b):
    F = range(p)
    inv = lambda a: pow(a % p, p - 2, p)
    sq = lambda a: a % p == 0 or pow(a % p, (p - 1) // 2, p) == 1
    for x0 in F:
        if pow(x0, 3, p) != (-4 * b) % p:
            continue
        v = 6 * x0 * x0 % p
        u = 4 * (pow(x0, 3, p) + b) % p
        w = (u + x0 * v) % p
        A, B = (-5 * v) % p, (b - 7 * w) % p
        if A == 0 or B == 0:
            continue
        for x1 in F:                       # a rational root of the 3-division polynomial of E'
            if (3 * pow(x1, 4, p) + 6 * A * x1 * x1 + 12 * B * x1 - A * A) % p:
                continue
            v1 = (6 * x1 * x1 + 2 * A) % p
            u1 = 4 * (pow(x1, 3, p) + A * x1 + B) % p
            w1 = (u1 + x1 * v1) % p
            if (A - 5 * v1) % p != 0 or (B - 7 * w1) % p != pow(3, 6, p) * b % p:
                continue
            i9, i27 = inv(9), inv(27)
            k = {
                "k13": i9, "k12": (-2 * x1) * i9 % p, "k11": (x1 * x1 + v1) * i9 % p, "k10": (u1 - v1 * x1) * i9 % p,
                "k21": (-2 * x1) % p, "k20": x1 * x1 % p,
                "k33": i27, "k32": (-3 * x1) * i27 % p, "k31": (3 * x1 * x1 - v1) * i27 % p, "k30": (-pow(x1, 3, p) + v1 * x1 - 2 * u1) * i27 % p,
                "k42": (-3 * x1) % p, "k41": 3 * x1 * x1 % p, "k40": (-pow(x1, 3, p)) % p,
            }
            # brute-force verification of the rational maps in the k_(i,j) layout
            n_pts = 0
            for x in F:
                g = (pow(x, 3, p) + A * x + B) % p
                for y in F:
                    if y * y % p != g:
                        continue
                    xden = (x * x + k["k21"] * x + k["k20"]) % p
                    yden = (pow(x, 3, p) + k["k42"] * x * x + k["k41"] * x + k["k40"]) % p
                    if xden == 0 or yden == 0:
                        continue
                    xnum = (k["k13"] * pow(x, 3, p) + k["k12"] * x * x + k["k11"] * x + k["k10"]) % p
                    ynum = (k["k33"] * pow(x, 3, p) + k["k32"] * x * x + k["k31"] * x + k["k30"]) % p
                    X, Y = xnum * inv(xden) % p, y * ynum % p * inv(yden) % p
                    assert (Y * Y - pow(X, 3, p) - b) % p == 0, "isogeny does not land on E"
                    n_pts += 1
            # find_z_sswu
            g = lambda x: (pow(x, 3, p) + A * x + B) % p
            ctr = 1
            while True:
                for z in (ctr % p, (-ctr) % p):
                    if sq(z) or z == p - 1:
                        continue
                    if any(g(x) == z for x in F):
                        continue
                    if sq(g(B * inv(z * A))):
                        return dict(k, swua=A, swub=B, swuz=z, isovalid=1), n_pts
                ctr += 1
    return None, 0


for fn in sys.argv[1:]:
    d = json.load(open(fn))
    r, n = build(int(d["p"]), int(d["b"]))
    if r is None:
        d["isovalid"] = 0
        print(fn, "no rational 3-isogeny with A'B' != 0: placeholders kept")
    else:
        d.update(r)
        print(fn, "E': A=%d B=%d Z=%d, %d affine points of E' map onto E" % (r["swua"], r["swub"], r["swuz"], n))
    json.dump(d, open(fn, "w"), indent=1)
