----------------------------------- MODULE MC_CT -----------------------------------
EXTENDS CT, TLC
VARIABLE mX
Init == mX = 0
Next == UNCHANGED mX
ASSUME PrintT(<<"CT", "ladder_ct_constant_time", ConstantTime(ObsCT)>>) /\ ConstantTime(ObsCT)
ASSUME PrintT(<<"CT", "vartime_ladder_distinguishable", ObserverNotBlind(ObsVartime)>>) /\ ObserverNotBlind(ObsVartime)
ASSUME ~ConstantTime(ObsVartime)
=============================================================================
