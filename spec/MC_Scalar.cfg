INIT Init
NEXT Next
INVARIANT PairInv
INVARIANT ByteInv
CHECK_DEADLOCK FALSE
