--------------------------------- MODULE Hash ---------------------------------
(***************************************************************************)
(* Hash constructions used by the library, over byte sequences.            *)
(* SHA256 is a primitive (FIPS 180-4), evaluated by the JDK through        *)
(* java/verif/HashOps; everything built on it (HMAC, BIP-340 tagged hash,  *)
(* RFC 9380 expand_message_xmd) is defined here in TLA+.                   *)
(***************************************************************************)
EXTENDS Integers, Sequences, Bitwise

SHA256(msg) == CHOOSE d \in [1..32 -> 0..255] : d \notin {msg}  \* primitive; evaluated by override only

Rep(b, n) == [i \in 1..n |-> b]

XorB(a, b) == a ^^ b
XorBytes(a, b) == [i \in 1..Len(a) |-> XorB(a[i], b[i])]

(* RFC 2104 with SHA-256 (block size 64) *)
HmacSha256(key, msg) ==
  LET k0   == IF Len(key) > 64 THEN SHA256(key) ELSE key
      kpad == k0 \o Rep(0, 64 - Len(k0))
      ipad == XorBytes(kpad, Rep(54, 64))      \* 0x36
      opad == XorBytes(kpad, Rep(92, 64))      \* 0x5c
  IN  SHA256(opad \o SHA256(ipad \o msg))

(* BIP-340 tagged hash: SHA256(SHA256(tag) || SHA256(tag) || msg); tag given as bytes *)
TaggedHash(tagBytes, msg) == LET t == SHA256(tagBytes) IN SHA256(t \o t \o msg)
=============================================================================
