INIT Init
NEXT Next
INVARIANT KeysInv
INVARIANT VerifyInv
INVARIANT SignInv
CHECK_DEADLOCK FALSE
