------------------------------- MODULE ModArith -------------------------------
(***************************************************************************)
(* D-level (declarative) arithmetic modulo a prime m, on representatives   *)
(* in [0, m).  Shared by the base field (m = P) and the scalar field       *)
(* (m = N).                                                                *)
(***************************************************************************)
EXTENDS Integers, Sequences, BigInt

MAdd(a, b, m) == (a ++ b) %% m
MSub(a, b, m) == ((a ++ m) -- b) %% m
MNeg(a, m)    == (m -- a) %% m
MMul(a, b, m) == (a ** b) %% m
MSqr(a, m)    == (a ** a) %% m
MInv(a, m)    == ModInv(a, m)                       \* 1/0 = 0
MPow(a, e, m) == ModPow(a, e, m)
MIsZero(a)    == BigEq(a, 0)
MIsOdd(a)     == BigEq(a %% 2, 1)
MCanon(a, m)  == (0 \preceq a) /\ (a \prec m)

(* Euler's criterion (m an odd prime); 0 counts as a square *)
MIsSquare(a, m) == BigEq(a %% m, 0) \/ BigEq(ModPow(a, (m -- 1) // 2, m), 1)

(* Decoding a big-endian byte string of the modulus' own width: value reduced with one
   conditional subtraction (valid because 2^(8W) < 2m), plus the "did reduce" flag. *)
MDecode(v, m)        == IF v \prec m THEN <<v, 0>> ELSE <<v -- m, 1>>
MDecodeCanonical(v, m) == IF v \prec m THEN <<"ok", v>> ELSE <<"err">>
=============================================================================
