--------------------------------- MODULE LookupAsm ---------------------------------
(***************************************************************************)
(* An instruction-level model of the SSE2 table lookups                    *)
(* (point_mul_table_amd64.s).  The PROGRAM is not written here: it is      *)
(* generated from the assembly text of the tree under test                 *)
(* (spec/gen_lookup_asm.py -> module LookupAsmProg, operator Progs), so    *)
(* the model checks the code that is actually built.                       *)
(*                                                                         *)
(* Machine state: a program counter, two general registers (AX: an         *)
(* pair <<low 32 bits, high 32 bits>>; CX: a byte offset from the table base), sixteen XMM registers  *)
(* of four 32-bit lanes, the comparison flag, and two history variables    *)
(* (the sequence of table words read, the words written to `out`).         *)
(* Lane values are SYMBOLIC: a lane is a set of terms, {} is 0,            *)
(* {<<"c", v>>} the constant v, {<<"m", k>>} the k-th 32-bit word of the   *)
(* table; OR is union, AND with an all-ones / all-zero mask keeps /        *)
(* clears, x XOR x is {}.  Any other use of these instructions (or any     *)
(* other instruction) is "not a masked scan" and stops the model.          *)
(*                                                                         *)
(* Checked for every index 0..15 and both routines:                        *)
(*   Result    the words written are exactly the coordinate words of       *)
(*             `out`, each once, and hold entry idx of the table (the      *)
(*             identity (0, R mod p, 0) for index 0 of the projective      *)
(*             lookup, zeros for index 0 of the affine one);               *)
(*   Scan      the sequence of table words read is the same for every      *)
(*             index: every word of entries 0..14 in order, nothing        *)
(*             outside the table (secret-independent addressing);          *)
(*   Termination  the routine reaches RET.                                 *)
(***************************************************************************)
EXTENDS Integers, Sequences, FiniteSets, TLC, LookupAsmProg

VARIABLES mFn, mIdx, mPc, mAx, mCx, mX, mLe, mReads, mWrites, mHalt

vars == <<mFn, mIdx, mPc, mAx, mCx, mX, mLe, mReads, mWrites, mHalt>>

Full    == {<<"c", -1>>}                               \* an all-ones lane (as a signed 32-bit value: TLC integers are 32-bit)
C(v)    == IF v = 0 THEN {} ELSE {<<"c", v>>}
IsConc(l) == l = {} \/ (Cardinality(l) = 1 /\ \E t \in l : t[1] = "c")
ValOf(l) == IF l = {} THEN 0 ELSE (CHOOSE t \in l : TRUE)[2]
IsMask(r) == \A i \in 1..4 : r[i] = {} \/ r[i] = Full
Zero4   == <<{}, {}, {}, {}>>

Funcs   == DOMAIN Progs
Stride(f)  == IF f = "lookupProjectivePoint" THEN StridePoint ELSE StrideAffine   \* bytes per table entry, taken from the build under test
Coord(f)   == IF f = "lookupProjectivePoint" THEN 96 ELSE 64       \* coordinate bytes of an entry / of `out`
Label(f, name) == CHOOSE i \in 1..Len(Progs[f]) : Progs[f][i].op = "LABEL" /\ Progs[f][i].name = name

Init == /\ mFn \in Funcs /\ mIdx \in 0..15
        /\ mPc = 1 /\ mAx = <<0, 0, "public">> /\ mCx = 0 /\ mX = [r \in 0..15 |-> Zero4] /\ mLe = FALSE
        /\ mReads = <<>> /\ mWrites = <<>> /\ mHalt = "run"

Stop(why) == /\ mHalt' = why /\ UNCHANGED <<mFn, mIdx, mPc, mAx, mCx, mX, mLe, mReads, mWrites>>

Exec ==
  /\ mHalt = "run"
  /\ LET ins == Progs[mFn][mPc] IN
     CASE ins.op = "LABEL" -> /\ mPc' = mPc + 1 /\ UNCHANGED <<mFn, mIdx, mAx, mCx, mX, mLe, mReads, mWrites, mHalt>>
       [] ins.op = "LOADARG" ->       \* MOVQ name+off(FP), reg
            /\ mPc' = mPc + 1
            /\ IF ins.arg = "idx" /\ ins.dst = "AX" THEN mAx' = <<mIdx, 0, "secret">> /\ mCx' = mCx
               ELSE IF ins.arg = "tbl" /\ ins.dst = "CX" THEN mCx' = 0 /\ mAx' = mAx
               ELSE IF ins.arg = "out" /\ ins.dst = "AX" THEN mAx' = <<"out", 0, "public">> /\ mCx' = mCx   \* AX now addresses `out` (offset 0)
               ELSE FALSE
            /\ UNCHANGED <<mFn, mIdx, mX, mLe, mReads, mWrites, mHalt>>
       [] ins.op = "MOVIMM" -> /\ mAx' = <<ins.lo, ins.hi, "public">> /\ mPc' = mPc + 1 /\ UNCHANGED <<mFn, mIdx, mCx, mX, mLe, mReads, mWrites, mHalt>>
       [] ins.op = "GPR2X" ->         \* MOVD / MOVQ AX, Xn: low 64 bits, upper lanes cleared
            /\ mX' = [mX EXCEPT ![ins.x] = <<C(mAx[1]), C(mAx[2]), {}, {}>>]
            /\ mPc' = mPc + 1 /\ UNCHANGED <<mFn, mIdx, mAx, mCx, mLe, mReads, mWrites, mHalt>>
       [] ins.op = "PSHUFD0" -> /\ mX' = [mX EXCEPT ![ins.dst] = [i \in 1..4 |-> mX[ins.src][1]]]
                               /\ mPc' = mPc + 1 /\ UNCHANGED <<mFn, mIdx, mAx, mCx, mLe, mReads, mWrites, mHalt>>
       [] ins.op = "PXOR" ->
            IF ins.src = ins.dst
            THEN /\ mX' = [mX EXCEPT ![ins.dst] = Zero4] /\ mPc' = mPc + 1 /\ UNCHANGED <<mFn, mIdx, mAx, mCx, mLe, mReads, mWrites, mHalt>>
            ELSE Stop("unsupported: PXOR of different registers")
       [] ins.op = "PCMPEQL" ->       \* dst = (src == dst) per lane; both operands must be concrete
            IF \A i \in 1..4 : IsConc(mX[ins.src][i]) /\ IsConc(mX[ins.dst][i])
            THEN /\ mX' = [mX EXCEPT ![ins.dst] = [i \in 1..4 |-> IF ValOf(mX[ins.src][i]) = ValOf(mX[ins.dst][i]) THEN Full ELSE {}]]
                 /\ mPc' = mPc + 1 /\ UNCHANGED <<mFn, mIdx, mAx, mCx, mLe, mReads, mWrites, mHalt>>
            ELSE Stop("unsupported: PCMPEQL on table data")
       [] ins.op = "PAND" ->          \* dst = dst AND src where src is a lane mask
            IF IsMask(mX[ins.src])
            THEN /\ mX' = [mX EXCEPT ![ins.dst] = [i \in 1..4 |-> IF mX[ins.src][i] = Full THEN mX[ins.dst][i] ELSE {}]]
                 /\ mPc' = mPc + 1 /\ UNCHANGED <<mFn, mIdx, mAx, mCx, mLe, mReads, mWrites, mHalt>>
            ELSE Stop("unsupported: PAND with a non-mask operand")
       [] ins.op = "POR" -> /\ mX' = [mX EXCEPT ![ins.dst] = [i \in 1..4 |-> mX[ins.dst][i] \cup mX[ins.src][i]]]
                            /\ mPc' = mPc + 1 /\ UNCHANGED <<mFn, mIdx, mAx, mCx, mLe, mReads, mWrites, mHalt>>
       [] ins.op = "LOAD" ->          \* MOVOU off(CX), Xn
            LET w == (mCx + ins.off) \div 4 IN
            IF (mCx + ins.off) % 4 # 0 THEN Stop("unsupported: unaligned table read")
            ELSE /\ mX' = [mX EXCEPT ![ins.x] = [i \in 1..4 |-> {<<"m", w + i - 1>>}]]
                 /\ mReads' = mReads \o <<w, w + 1, w + 2, w + 3>>
                 /\ mPc' = mPc + 1 /\ UNCHANGED <<mFn, mIdx, mAx, mCx, mLe, mWrites, mHalt>>
       [] ins.op = "STORE" ->         \* MOVOU Xn, off(AX) with AX addressing `out`
            IF mAx[1] # "out" THEN Stop("unsupported: store through a register that does not hold `out`")
            ELSE /\ mWrites' = mWrites \o [i \in 1..4 |-> <<ins.off \div 4 + i - 1, mX[ins.x][i]>>]
                 /\ mPc' = mPc + 1 /\ UNCHANGED <<mFn, mIdx, mAx, mCx, mX, mLe, mReads, mHalt>>
       [] ins.op = "ADDCX" -> /\ mCx' = mCx + ins.imm /\ mPc' = mPc + 1 /\ UNCHANGED <<mFn, mIdx, mAx, mX, mLe, mReads, mWrites, mHalt>>
       [] ins.op = "INCAX" -> /\ mAx' = <<mAx[1] + 1, mAx[2], mAx[3]>> /\ mPc' = mPc + 1 /\ UNCHANGED <<mFn, mIdx, mCx, mX, mLe, mReads, mWrites, mHalt>>
       [] ins.op = "CMPAX" /\ mAx[3] = "secret" -> Stop("secret-dependent branch: a value derived from idx reaches a comparison")
       [] ins.op = "CMPAX" -> /\ mLe' = (mAx[2] = 0 /\ mAx[1] <= ins.imm) /\ mPc' = mPc + 1 /\ UNCHANGED <<mFn, mIdx, mAx, mCx, mX, mReads, mWrites, mHalt>>
       [] ins.op = "JLE" -> /\ mPc' = IF mLe THEN Label(mFn, ins.target) ELSE mPc + 1
                            /\ UNCHANGED <<mFn, mIdx, mAx, mCx, mX, mLe, mReads, mWrites, mHalt>>
       [] ins.op = "RET" -> Stop("ret")
       [] OTHER -> Stop("unsupported: " \o ins.op)

Next == Exec
Spec == Init /\ [][Next]_vars /\ WF_vars(Next)

(* ---- what must hold ---- *)
EntryWord(f, idx, w) == {<<"m", ((idx - 1) * Stride(f)) \div 4 + w>>}
(* R mod p = 2^32 + 977 in Montgomery form: limb 0 of y holds 0x00000001000003d1 *)
IdentityWord(w) == IF w = 8 THEN C(977) ELSE IF w = 9 THEN C(1) ELSE {}
Expected(f, idx, w) == IF idx # 0 THEN EntryWord(f, idx, w)
                       ELSE IF f = "lookupProjectivePoint" THEN IdentityWord(w) ELSE {}
FullScan(f) == [k \in 1..(15 * (Coord(f) \div 4)) |->
                  ((k - 1) \div (Coord(f) \div 4)) * (Stride(f) \div 4) + ((k - 1) % (Coord(f) \div 4))]

Supported == mHalt \in {"run", "ret"} \/ mHalt = "secret-dependent branch: a value derived from idx reaches a comparison"
                                                         \* any other stop: the text is no longer a masked scan this model understands
NoSecretBranch == mHalt # "secret-dependent branch: a value derived from idx reaches a comparison"
(* In this instruction subset addresses are CX + constant and CX changes only by constants, so the address sequence can depend on  *)
(* idx only through a branch; NoSecretBranch therefore gives secret-independent addressing, and Scan pins the expected sequence. *)
Result == mHalt = "ret" =>
  /\ Len(mWrites) = Coord(mFn) \div 4
  /\ {mWrites[i][1] : i \in 1..Len(mWrites)} = 0..(Coord(mFn) \div 4 - 1)                  \* exactly the coordinate words, each once
  /\ \A i \in 1..Len(mWrites) : mWrites[i][2] = Expected(mFn, mIdx, mWrites[i][1])
Scan == mHalt = "ret" => mReads = FullScan(mFn)                                           \* the same for every index, all inside the table
InBounds == \A i \in 1..Len(mReads) : mReads[i] >= 0 /\ mReads[i] < (15 * Stride(mFn)) \div 4
Bounded == mPc <= Len(Progs[mFn])
Termination == <>(mHalt # "run")
=============================================================================
