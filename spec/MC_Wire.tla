---------------------------------- MODULE MC_Wire ----------------------------------
(***************************************************************************)
(* Pipeline A for C12.                                                     *)
(*  der  : with a one-byte scalar width (n = 199: one content byte, two    *)
(*         when the sign bit needs a leading 00) EVERY byte string of      *)
(*         length 0..8 over a tag/length/content alphabet is accepted by   *)
(*         the grammar iff it is the builder's encoding of a unique (r,s)  *)
(*         in [1,n)^2, and build/parse are mutually inverse;               *)
(*  bip66: the grammar written from the BIP text is equivalent to the      *)
(*         index arithmetic of asn1_shitcoin.go for EVERY total length     *)
(*         0..75, every R-length / S-length header and the content bytes   *)
(*         the checks look at ranging over {00, 01, 7f, 80, ff}.           *)
(***************************************************************************)
EXTENDS Wire, TLC, FiniteSets

VARIABLES mKind, mB, mLvl

Bug == IF "VERIF_BUG" \in DOMAIN IOEnv THEN IOEnv.VERIF_BUG ELSE "none"      \* a deliberately wrong design, selected by the orchestrator for non-vacuity runs
(* non-vacuity: a compact parser that reduces instead of rejecting unless BOTH halves are out of range; a DER parser that also *)
(* takes one-byte integers with the high bit set for positive                                                                               *)
ParseCompactUT(b) ==
  IF Bug # "compact_and" THEN ParseCompact(b, FALSE)
  ELSE IF Len(b) # 2 * W THEN <<"err">>
  ELSE LET r == OS2IP(SubSeq(b, 1, W))  s == OS2IP(SubSeq(b, W + 1, 2 * W)) IN
       IF (r >= N /\ s >= N) \/ r % N = 0 \/ s % N = 0 THEN <<"err">> ELSE <<"ok", r % N, s % N>>
ParseDerUT(b) ==
  IF Bug = "der_negative_ok" /\ ParseDerSig(b)[1] = "err" /\ Len(b) = 8 /\ SubSeq(b, 1, 4) = <<48, 6, 2, 1>> /\ SubSeq(b, 6, 7) = <<2, 1>>
     /\ b[5] \in 1..(N - 1) /\ b[8] \in 1..(N - 1)
  THEN <<"ok", b[5], b[8]>>                                                       \* one-byte integers with the high bit set taken as positive
  ELSE ParseDerSig(b)

Alpha  == IF IOEnv.VERIF_MCFULL = "1" THEN {0, 1, 2, 3, 4, 6, 48, 128, 199} ELSE {0, 1, 2, 6, 48, 128, 199}
MaxLen == IF IOEnv.VERIF_MCFULL = "1" THEN 8 ELSE 8
RS     == 1..(N - 1)
Built  == TLCEval({BuildDerSig(r, s) : r \in RS, s \in RS})

(* BIP-66 instances: header-consistent or deviating skeletons; unspecified positions hold 0x01 *)
Content == {0, 1, 127, 128, 255}
Skel(len, b1, b2, b3, lr, tS, ls, r1, r2, s1, s2) ==
  [i \in 1..len |->
     CASE i = 1 -> b1 [] i = 2 -> b2 [] i = 3 -> b3 [] i = 4 -> lr
       [] i = 5 -> r1 [] i = 6 /\ lr # 1 -> r2
       [] i = 5 + lr -> tS [] i = 6 + lr -> ls [] i = 7 + lr -> s1 [] i = 8 + lr /\ ls # 1 -> s2
       [] OTHER -> 1]

Init == \/ mKind = "der" /\ mB = <<>> /\ mLvl = 0
        \/ mKind = "bip" /\ mB \in {<<len>> : len \in 0..75} /\ mLvl = 0
Next == \/ mKind = "der" /\ Len(mB) < MaxLen /\ mB' \in {mB \o <<x>> : x \in Alpha} /\ UNCHANGED <<mKind, mLvl>>
           /\ (Len(mB) >= 1 => mB[1] = 48)               \* strings with another first byte are rejected at once: not extended
        \/ mKind = "bip" /\ mLvl = 0 /\ mLvl' = 1 /\ UNCHANGED mKind
           /\ LET len == mB[1] IN
              \E lr \in (0..len) \cup {128}, b1 \in {48, 49}, b3 \in {2, 3}, tS \in {2, 3} :
              \E b2 \in {(len - 3) % 256, (len - 2) % 256, 129}, ls \in {(len - lr - 7) % 256, (len - lr - 6) % 256, 0, 128} :
                 mB' = <<len, b1, b2, b3, lr, tS, ls, 1, 1, 1, 1>>
        \/ mKind = "bip" /\ mLvl = 1 /\ mLvl' = 2 /\ UNCHANGED mKind
           /\ mB[2] = 48 /\ mB[4] = 2 /\ mB[6] = 2 /\ mB[3] = (mB[1] - 3) % 256 /\ mB[7] = (mB[1] - mB[5] - 7) % 256   \* content sweep on well-formed headers
           /\ mB[5] \in 1..mB[1]
           /\ \E r1 \in Content, r2 \in Content, s1 \in Content, s2 \in Content :
                 mB' = <<mB[1], mB[2], mB[3], mB[4], mB[5], mB[6], mB[7], r1, r2, s1, s2>>

DerInv == mKind = "der" =>
  LET d == ParseDerUT(mB) IN
  /\ (d[1] = "ok") <=> (mB \in Built)                            \* accepts exactly the image of the builder
  /\ (d[1] = "ok") => BuildDerSig(d[2], d[3]) = mB /\ d[2] \in RS /\ d[3] \in RS

BuildInv == mKind = "der" /\ mB = <<>> =>
  /\ Cardinality(Built) = (N - 1) * (N - 1)                      \* one encoding per (r, s)
  /\ \E r \in RS, s \in RS : LET b == BuildDerSig(r, s) IN Len(b) <= MaxLen /\ \A i \in 1..Len(b) : b[i] \in Alpha   \* the explored language contains accepted strings
  /\ \A r \in RS, s \in RS : ParseDerSig(BuildDerSig(r, s)) = <<"ok", r, s>>
  /\ \A r \in RS, s \in RS : ParseCompact(BuildCompact(r, s), FALSE) = <<"ok", r, s>>
  /\ \A b1 \in 0..255, b2 \in 0..255 : LET p == ParseCompactUT(<<b1, b2>>) IN
        (p[1] = "ok") <=> (b1 \in RS /\ b2 \in RS)

BipInv == mKind = "bip" /\ mLvl >= 1 =>
  LET b == Skel(mB[1], mB[2], mB[3], mB[4], mB[5], mB[6], mB[7], mB[8], mB[9], mB[10], mB[11]) IN
  IsBip66(b) <=> Bip66Alg(b)

ASSUME W = 1 /\ N < 256 /\ N > 128
=============================================================================
