------------------------------- MODULE MC_Field -------------------------------
(***************************************************************************)
(* Pipeline A for C01: on a miniature prime p, for ALL a, b in F_p and all *)
(* W-byte / 2W-byte strings:                                               *)
(*  - the D-level operators of Field.tla satisfy the field axioms the      *)
(*    property statement relies on (the oracle is sound);                  *)
(*  - the A-level algorithms (reduceSaturated, sqrt_ratio F.2.1.2, Sqrt,   *)
(*    Fermat inversion, the a + b*2^k + c*2^2k wide reduction) refine the  *)
(*    D-level relations.                                                   *)
(* One initial state per pair (a, b); a second "wide" family enumerates    *)
(* every byte string value below 2^(16W).                                  *)
(***************************************************************************)
EXTENDS FieldAlg, TLC, FiniteSets

VARIABLES mKind, mA, mB

FP   == 0..(P - 1)
Bug == IF "VERIF_BUG" \in DOMAIN IOEnv THEN IOEnv.VERIF_BUG ELSE "none"      \* a deliberately wrong design, selected by the orchestrator for non-vacuity runs
InvUT(a) == IF Bug = "inv_exponent" THEN ModPow(a, P - 3, P) ELSE InvAlg(a)           \* (bug: a^(p-3))
WideUT(a, k) == IF Bug = "wide_drop_top" THEN WideReduceAlg(a % Pow2(2 * k), k) ELSE WideReduceAlg(a, k)   \* (bug: the top part of a wide string ignored)
C2   == CHOOSE r \in FP : (r * r) % P = 1         \* Z = -1 (non-square since p = 3 mod 4), c2 = sqrt(-Z) = sqrt(1)
ZZ   == P - 1

Init == \/ mKind = "pair" /\ mA \in FP /\ mB \in FP
        \/ mKind = "wide" /\ mA \in 0..(TwoW * TwoW - 1) /\ mB = 0
Next == mKind' = "done" /\ mKind # "done" /\ UNCHANGED <<mA, mB>>

HasRoot(x) == \E r \in FP : (r * r) % P = x

PairInv == mKind = "pair" =>
  /\ FAdd(mA, mB) \in FP /\ FSub(mA, mB) \in FP /\ FMul(mA, mB) \in FP /\ FNeg(mA) \in FP
  /\ FAdd(FSub(mA, mB), mB) = mA
  /\ FAdd(mA, FNeg(mA)) = 0
  /\ FSqr(mA) = FMul(mA, mA)
  /\ (mA # 0 => FMul(mA, FInv(mA)) = 1) /\ FInv(0) = 0 /\ InvUT(mA) = FInv(mA)
  /\ (FIsSquare(mA) <=> HasRoot(mA))                                         \* Euler's criterion is the declarative notion
  /\ FIsOdd(mA) = (mA % 2 = 1)
  /\ FPow2k(mA, 1) = FSqr(mA) /\ FPow2k(mA, 3) = FSqr(FSqr(FSqr(mA)))
  \* sqrt / sqrt_ratio algorithms satisfy the relations used to judge the implementation
  /\ LET s == SqrtAlg(mA, C2) IN SqrtOK(mA, s[1], s[2])
  /\ LET s == SqrtRatioAlg(mA, mB, C2) IN SqrtRatioOK(mA, mB, ZZ, s[1], s[2])
  \* and the relations pin the flag: no other flag value is acceptable
  /\ LET s == SqrtAlg(mA, C2) IN ~SqrtOK(mA, s[1], 1 - s[2])
  /\ (mB # 0 => LET s == SqrtRatioAlg(mA, mB, C2) IN ~SqrtRatioOK(mA, mB, ZZ, s[1], 1 - s[2]))
  \* decoding of the W-byte string with value a + (b % 2) * ... : use v = a and v = a + P when it fits
  /\ \A v \in {mA, mA + P} : v < TwoW =>
        /\ ReduceSaturated(v, P) = FDecode(v)
        /\ FDecode(v)[1] = v % P /\ (FDecode(v)[2] = 1 <=> v >= P)
        /\ (FDecodeCanonical(v)[1] = "ok" <=> v < P)

WideInv == mKind = "wide" =>
  /\ FWideReduce(mA) = mA % P
  /\ WideUT(mA, 6 * W) = mA % P          \* split at 3/4 of the element width, as 192 of 256 bits
  /\ (mA < TwoW => ReduceSaturated(mA, P) = FDecode(mA))

ASSUME TwoW < 2 * P      \* one conditional subtraction suffices, as for the real p
=============================================================================
