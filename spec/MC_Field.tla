------------------------------- MODULE MC_Field -------------------------------
(***************************************************************************)
(* Pipeline A for C01: on a miniature prime p, for ALL a, b in F_p and all *)
(* W-byte / 2W-byte strings:                                               *)
(*  - the D-level operators of Field.tla satisfy the field axioms the      *)
(*    property statement relies on (the oracle is sound);                  *)
(*  - the A-level algorithms (reduceSaturated, sqrt_ratio F.2.1.2, Sqrt,   *)
(*    Fermat inversion, the a + b*2^k + c*2^2k wide reduction) refine the  *)
(*    D-level relations.                                                   *)
(* One initial state per pair (a, b); a second "wide" family enumerates    *)
(* every byte string value below 2^(16W).                                  *)
(***************************************************************************)
EXTENDS FieldAlg, TLC, FiniteSets

VARIABLES kind, a, b

FP   == 0..(P - 1)
C2   == CHOOSE r \in FP : (r * r) % P = 1         \* Z = -1 (non-square since p = 3 mod 4), c2 = sqrt(-Z) = sqrt(1)
ZZ   == P - 1

Init == \/ kind = "pair" /\ a \in FP /\ b \in FP
        \/ kind = "wide" /\ a \in 0..(TwoW * TwoW - 1) /\ b = 0
Next == kind' = "done" /\ kind # "done" /\ UNCHANGED <<a, b>>

HasRoot(x) == \E r \in FP : (r * r) % P = x

PairInv == kind = "pair" =>
  /\ FAdd(a, b) \in FP /\ FSub(a, b) \in FP /\ FMul(a, b) \in FP /\ FNeg(a) \in FP
  /\ FAdd(FSub(a, b), b) = a
  /\ FAdd(a, FNeg(a)) = 0
  /\ FSqr(a) = FMul(a, a)
  /\ (a # 0 => FMul(a, FInv(a)) = 1) /\ FInv(0) = 0 /\ InvAlg(a) = FInv(a)
  /\ (FIsSquare(a) <=> HasRoot(a))                                         \* Euler's criterion is the declarative notion
  /\ FIsOdd(a) = (a % 2 = 1)
  /\ FPow2k(a, 1) = FSqr(a) /\ FPow2k(a, 3) = FSqr(FSqr(FSqr(a)))
  \* sqrt / sqrt_ratio algorithms satisfy the relations used to judge the implementation
  /\ LET s == SqrtAlg(a, C2) IN SqrtOK(a, s[1], s[2])
  /\ LET s == SqrtRatioAlg(a, b, C2) IN SqrtRatioOK(a, b, ZZ, s[1], s[2])
  \* and the relations pin the flag: no other flag value is acceptable
  /\ LET s == SqrtAlg(a, C2) IN ~SqrtOK(a, s[1], 1 - s[2])
  /\ (b # 0 => LET s == SqrtRatioAlg(a, b, C2) IN ~SqrtRatioOK(a, b, ZZ, s[1], 1 - s[2]))
  \* decoding of the W-byte string with value a + (b % 2) * ... : use v = a and v = a + P when it fits
  /\ \A v \in {a, a + P} : v < TwoW =>
        /\ ReduceSaturated(v, P) = FDecode(v)
        /\ FDecode(v)[1] = v % P /\ (FDecode(v)[2] = 1 <=> v >= P)
        /\ (FDecodeCanonical(v)[1] = "ok" <=> v < P)

WideInv == kind = "wide" =>
  /\ FWideReduce(a) = a % P
  /\ WideReduceAlg(a, 6 * W) = a % P          \* split at 3/4 of the element width, as 192 of 256 bits
  /\ (a < TwoW => ReduceSaturated(a, P) = FDecode(a))

ASSUME TwoW < 2 * P      \* one conditional subtraction suffices, as for the real p
=============================================================================
