INIT Init
NEXT Next
CONSTANTS
  NP = 3
  NS = 2
  NB = 2
  MaxDepth = 0
  UseSystematic = TRUE
  Bug = "none"
  RandomPick = FALSE
  UsePreludes = FALSE
  WKey = 1
  WEnv = 1
  WLoad = 1
  WSig = 1
  WDecode = 1
CHECK_DEADLOCK FALSE
