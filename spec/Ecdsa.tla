---------------------------------- MODULE Ecdsa ----------------------------------
(***************************************************************************)
(* ECDSA over the curve of Params (SEC 1 v2.0 section 4.1): digest to      *)
(* integer, the verification predicate, signing with a given nonce with    *)
(* the low-s / recovery-id rules of secec/ecdsa.go, and key recovery.      *)
(* The point multiplication is an operator parameter so that the           *)
(* exhaustive models can use a memoised table.                             *)
(***************************************************************************)
EXTENDS Wire

(* e = leftmost 8W bits of the digest, reduced mod n; digests shorter than W bytes are invalid *)
HashToScalarB(d) == IF Len(d) < W THEN <<"err">> ELSE <<"ok", OS2IP(SubSeq(d, 1, W)) %% N>>

(* SEC 1 4.1.4 with e already derived.  Mul(k, a) is scalar multiplication. *)
VerifyPredM(Mul(_, _), q, e, r, s) ==
  /\ ~BigEq(r, 0) /\ ~BigEq(s, 0) /\ (r \prec N) /\ (s \prec N)
  /\ LET w  == SInv(s)
         u1 == SMul(e, w)
         u2 == SMul(r, w)
         rr == PAdd(Mul(u1, GenPt), Mul(u2, q))
     IN  ~IsInf(rr) /\ BigEq(rr[1] %% N, r)
VerifyPred(q, e, r, s) == VerifyPredM(PMul, q, e, r, s)

(* SEC 1 4.1.5: verification by the private-key holder, R = (u1 + u2 d) G *)
VerifyAltM(Mul(_, _), d, e, r, s) ==
  /\ ~BigEq(r, 0) /\ ~BigEq(s, 0) /\ (r \prec N) /\ (s \prec N)
  /\ LET w  == SInv(s)
         rr == Mul(SAdd(SMul(e, w), SMul(SMul(r, w), d)), GenPt)
     IN  ~IsInf(rr) /\ BigEq(rr[1] %% N, r)

(* One iteration of the signing loop with nonce k in [1, n):                              *)
(* <<"retry">> when r = 0 or s = 0, else <<"sig", r, s, v>> with s <= (n-1)/2 and           *)
(* v = ((x(R) >= n) << 1 | y(R) odd) xor (s was negated)                                    *)
SignWithNonceM(Mul(_, _), d, e, k) ==
  LET rr == Mul(k, GenPt)
      r  == rr[1] %% N
      s  == SMul(SInv(k), SAdd(e, SMul(r, d)))
  IN  IF BigEq(r, 0) \/ BigEq(s, 0) THEN <<"retry">>
      ELSE LET hi   == IF N \preceq rr[1] THEN 1 ELSE 0
               odd  == IF FIsOdd(rr[2]) THEN 1 ELSE 0
               neg  == SGreaterThanHalfN(s)
               v0   == 2 * hi + odd
               v    == IF neg THEN (IF v0 % 2 = 1 THEN v0 - 1 ELSE v0 + 1) ELSE v0      \* xor 1
           IN  <<"sig", r, IF neg THEN SNeg(s) ELSE s, v>>
SignWithNonce(d, e, k) == SignWithNonceM(PMul, d, e, k)

(* SEC 1 4.1.6 with the candidate selected by the recovery id: Q = r^-1 (s R - e G) *)
RecoverM(Mul(_, _), e, r, s, v) ==
  IF BigEq(r, 0) \/ BigEq(s, 0) THEN <<"err">>
  ELSE LET rp == RecoverPointD(r, v) IN
       IF rp[1] = "err" THEN <<"err">>
       ELSE LET ri == SInv(r)
                q  == PAdd(Mul(SMul(SNeg(e), ri), GenPt), Mul(SMul(s, ri), rp[2]))
            IN  IF IsInf(q) THEN <<"err">> ELSE <<"ok", q>>
Recover(e, r, s, v) == RecoverM(PMul, e, r, s, v)

(* ---- option layer of PublicKey.Verify ---- *)
(* enc in {"asn1", "compact", "recoverable", other}; hasOpts = opts non-nil; hashSize = size of the selected hash *)
VerifyEncoded(q, digest, sig, hasOpts, hashSize, enc, rejectMalleable) ==
  LET eff == IF hasOpts THEN enc ELSE "asn1" IN
  /\ (hasOpts => Len(digest) = hashSize)
  /\ LET p == CASE eff = "asn1" -> ParseDerSig(sig)
                [] eff = "compact" -> ParseCompact(sig, FALSE)
                [] eff = "recoverable" -> ParseCompact(sig, TRUE)
                [] OTHER -> <<"err">>
         h == HashToScalarB(digest)
     IN  /\ p[1] = "ok" /\ h[1] = "ok"
         /\ ((hasOpts /\ rejectMalleable) => ~SGreaterThanHalfN(p[3]))
         /\ IF eff = "recoverable"
            THEN LET rq == Recover(h[2], p[2], p[3], p[4]) IN rq[1] = "ok" /\ PEq(rq[2], q)
            ELSE VerifyPred(q, h[2], p[2], p[3])

(* bitcoin.VerifyASN1: BIP-66 envelope, then strict low-s ASN.1 verification with SHA-256 sizing, sighash byte dropped *)
VerifyBitcoin(q, digest, sig) ==
  /\ IsBip66(sig)
  /\ VerifyEncoded(q, digest, SubSeq(sig, 1, Len(sig) - 1), TRUE, 32, "asn1", TRUE)

(* ---- ECDH ---- *)
EcdhM(Mul(_, _), a, q) == LET s == Mul(a, q) IN IF IsInf(s) THEN <<"err">> ELSE <<"ok", s[1]>>
=============================================================================
