------------------------------- MODULE MC_Scalar -------------------------------
(***************************************************************************)
(* Pipeline A for C02: on a miniature group order n, for ALL a, b in Z_n   *)
(* and all W-byte strings:                                                 *)
(*  - the D-level operators of ScalarField.tla satisfy the ring axioms the *)
(*    property statement relies on (the oracle is sound);                  *)
(*  - the A-level algorithms of scalar.go (conditional subtraction of n,   *)
(*    the borrow-chain comparison against (n-1)/2, Fermat inversion, Sum / *)
(*    Product as left folds into a temporary) refine the D-level rules.    *)
(***************************************************************************)
EXTENDS ScalarField, TLC, FiniteSets

VARIABLES mKind, mA, mB

ZN == 0..(N - 1)
Bug == IF "VERIF_BUG" \in DOMAIN IOEnv THEN IOEnv.VERIF_BUG ELSE "none"      \* a deliberately wrong design, selected by the orchestrator for non-vacuity runs

(* reduceSaturated (scalar.go): src - n with borrow; select by the borrow *)
ReduceSaturatedN(v) ==
  LET diff   == (v + TwoW) - N
      borrow == IF diff < TwoW THEN 1 ELSE 0
  IN  IF borrow = 0 /\ ~(Bug = "reduce_strict" /\ diff % TwoW = 0) THEN <<diff % TwoW, 1>> ELSE <<v, 0>>    \* (bug: n itself not reduced)

(* IsGreaterThanHalfN (scalar.go): diff = s - halfN with borrow; result = (borrow = 0) /\ (diff # 0) *)
GtHalfAlg(s) ==
  LET diff   == (s + TwoW) - HalfN
      borrow == IF diff < TwoW THEN 1 ELSE 0
  IN  borrow = 0 /\ (Bug = "gthalf_ge" \/ (diff % TwoW) # 0)              \* (bug: >= instead of >)

(* Sum / Product as coded: fold into a fresh accumulator, then Set *)
RECURSIVE FoldAdd(_, _), FoldMul(_, _)
FoldAdd(acc, vec) == IF Len(vec) = 0 THEN acc ELSE FoldAdd(SAdd(acc, vec[1]), Tail(vec))
FoldMul(acc, vec) == IF Len(vec) = 0 THEN acc ELSE FoldMul(SMul(acc, vec[1]), Tail(vec))

Init == \/ mKind = "pair" /\ mA \in ZN /\ mB \in ZN
        \/ mKind = "byte" /\ mA \in 0..(TwoW - 1) /\ mB = 0
Next == mKind' = "done" /\ mKind # "done" /\ UNCHANGED <<mA, mB>>

PairInv == mKind = "pair" =>
  /\ SAdd(mA, mB) \in ZN /\ SSub(mA, mB) \in ZN /\ SMul(mA, mB) \in ZN /\ SNeg(mA) \in ZN
  /\ SAdd(SSub(mA, mB), mB) = mA
  /\ SAdd(mA, SNeg(mA)) = 0
  /\ SSqr(mA) = SMul(mA, mA)
  /\ (mA # 0 => SMul(mA, SInv(mA)) = 1) /\ SInv(0) = 0
  /\ SPow2k(mA, 1) = SSqr(mA) /\ SPow2k(mA, 2) = SSqr(SSqr(mA))
  /\ (SGreaterThanHalfN(mA) <=> mA > (N - 1) \div 2)
  /\ (SGreaterThanHalfN(mA) <=> GtHalfAlg(mA))
  /\ (mA # 0 => (SGreaterThanHalfN(mA) <=> ~SGreaterThanHalfN(SNeg(mA))))      \* exactly one of s, n-s is "low" (n odd)
  /\ SSum(<<>>) = 0 /\ SProduct(<<>>) = 1
  /\ SSum(<<mA, mB, mA>>) = (mA + mB + mA) % N /\ SProduct(<<mA, mB, mB>>) = (mA * mB * mB) % N
  /\ FoldAdd(0, <<mA, mB, mA>>) = SSum(<<mA, mB, mA>>) /\ FoldMul(1, <<mB, mA, mB>>) = SProduct(<<mB, mA, mB>>)

ByteInv == mKind = "byte" =>
  /\ ReduceSaturatedN(mA) = SDecode(mA)
  /\ SDecode(mA)[1] = mA % N /\ (SDecode(mA)[2] = 1 <=> mA >= N)
  /\ (SDecodeCanonical(mA)[1] = "ok" <=> mA < N)
  /\ (SDecodeCanonical(mA)[1] = "ok" => SDecodeCanonical(mA)[2] = mA)

ASSUME TwoW < 2 * N      \* one conditional subtraction suffices, as for the real n
=============================================================================
