------------------------------- MODULE MC_Scalar -------------------------------
(***************************************************************************)
(* Pipeline A for C02: on a miniature group order n, for ALL a, b in Z_n   *)
(* and all W-byte strings:                                                 *)
(*  - the D-level operators of ScalarField.tla satisfy the ring axioms the *)
(*    property statement relies on (the oracle is sound);                  *)
(*  - the A-level algorithms of scalar.go (conditional subtraction of n,   *)
(*    the borrow-chain comparison against (n-1)/2, Fermat inversion, Sum / *)
(*    Product as left folds into a temporary) refine the D-level rules.    *)
(***************************************************************************)
EXTENDS ScalarField, TLC, FiniteSets

VARIABLES kind, a, b

ZN == 0..(N - 1)

(* reduceSaturated (scalar.go): src - n with borrow; select by the borrow *)
ReduceSaturatedN(v) ==
  LET diff   == (v + TwoW) - N
      borrow == IF diff < TwoW THEN 1 ELSE 0
  IN  IF borrow = 0 THEN <<diff % TwoW, 1>> ELSE <<v, 0>>

(* IsGreaterThanHalfN (scalar.go): diff = s - halfN with borrow; result = (borrow = 0) /\ (diff # 0) *)
GtHalfAlg(s) ==
  LET diff   == (s + TwoW) - HalfN
      borrow == IF diff < TwoW THEN 1 ELSE 0
  IN  borrow = 0 /\ (diff % TwoW) # 0

(* Sum / Product as coded: fold into a fresh accumulator, then Set *)
RECURSIVE FoldAdd(_, _), FoldMul(_, _)
FoldAdd(acc, vec) == IF Len(vec) = 0 THEN acc ELSE FoldAdd(SAdd(acc, vec[1]), Tail(vec))
FoldMul(acc, vec) == IF Len(vec) = 0 THEN acc ELSE FoldMul(SMul(acc, vec[1]), Tail(vec))

Init == \/ kind = "pair" /\ a \in ZN /\ b \in ZN
        \/ kind = "byte" /\ a \in 0..(TwoW - 1) /\ b = 0
Next == kind' = "done" /\ kind # "done" /\ UNCHANGED <<a, b>>

PairInv == kind = "pair" =>
  /\ SAdd(a, b) \in ZN /\ SSub(a, b) \in ZN /\ SMul(a, b) \in ZN /\ SNeg(a) \in ZN
  /\ SAdd(SSub(a, b), b) = a
  /\ SAdd(a, SNeg(a)) = 0
  /\ SSqr(a) = SMul(a, a)
  /\ (a # 0 => SMul(a, SInv(a)) = 1) /\ SInv(0) = 0
  /\ SPow2k(a, 1) = SSqr(a) /\ SPow2k(a, 2) = SSqr(SSqr(a))
  /\ (SGreaterThanHalfN(a) <=> a > (N - 1) \div 2)
  /\ (SGreaterThanHalfN(a) <=> GtHalfAlg(a))
  /\ (a # 0 => (SGreaterThanHalfN(a) <=> ~SGreaterThanHalfN(SNeg(a))))      \* exactly one of s, n-s is "low" (n odd)
  /\ SSum(<<>>) = 0 /\ SProduct(<<>>) = 1
  /\ SSum(<<a, b, a>>) = (a + b + a) % N /\ SProduct(<<a, b, b>>) = (a * b * b) % N
  /\ FoldAdd(0, <<a, b, a>>) = SSum(<<a, b, a>>) /\ FoldMul(1, <<b, a, b>>) = SProduct(<<b, a, b>>)

ByteInv == kind = "byte" =>
  /\ ReduceSaturatedN(a) = SDecode(a)
  /\ SDecode(a)[1] = a % N /\ (SDecode(a)[2] = 1 <=> a >= N)
  /\ (SDecodeCanonical(a)[1] = "ok" <=> a < N)
  /\ (SDecodeCanonical(a)[1] = "ok" => SDecodeCanonical(a)[2] = a)

ASSUME TwoW < 2 * N      \* one conditional subtraction suffices, as for the real n
=============================================================================
