--------------------------------- MODULE MC_Nonce ---------------------------------
EXTENDS Nonce
(* ---- non-vacuity: a deliberately wrong design ("reduce an out-of-range candidate instead of rejecting it") must violate *)
(* NonceIsAcceptedCandidate; bin/check runs MC_Nonce_buggy.cfg and demands exactly that violation                         *)
ReduceInsteadOfReject ==
  /\ phase = "sample" /\ tries < MaxTry
  /\ tries' = tries + 1 /\ draws' = draws + 1 /\ cand' = "ge_n" /\ phase' = "sign" /\ out' = out
  /\ UNCHANGED <<got, asked, reads, rounds>>
SpecBuggy == Init /\ [][Next \/ ReduceInsteadOfReject]_vars
=============================================================================
