---------------------------------- MODULE Wire ----------------------------------
(***************************************************************************)
(* Wire formats (C12), written declaratively as grammars over byte tuples: *)
(*   - strict DER  SEQUENCE { INTEGER r, INTEGER s }  (SEC 1 C.8);         *)
(*   - compact  r || s  and  r || s || v;                                  *)
(*   - BIP-66 (from the BIP text: "0x30 [total-length] 0x02 [R-length] [R] *)
(*     0x02 [S-length] [S] [sighash]", shortest positive integers);        *)
(*   - SubjectPublicKeyInfo for ecPublicKey / secp256k1 (SEC 1 C.3).       *)
(* plus the A-level transcription of the BIP-66 index arithmetic of        *)
(* asn1_shitcoin.go, proved equivalent to the grammar by MC_Wire.          *)
(***************************************************************************)
EXTENDS Sec1

(* ---- DER INTEGER contents ---- *)
(* shortest big-endian encoding of a non-negative integer as a DER INTEGER body *)
RECURSIVE MinBytes(_)
MinBytes(v) == IF v \prec 256 THEN <<v>> ELSE MinBytes(v // 256) \o <<v %% 256>>
DerIntBody(v) == LET m == MinBytes(v) IN IF m[1] >= 128 THEN <<0>> \o m ELSE m

(* c is the body of a minimally encoded, non-negative DER INTEGER *)
MinimalPosInt(c) == /\ Len(c) >= 1
                    /\ c[1] < 128
                    /\ (Len(c) > 1 /\ c[1] = 0) => c[2] >= 128

(* ---- strict DER signature ---- *)
BuildDerSig(r, s) ==
  LET ri == DerIntBody(r)  si == DerIntBody(s)
      body == <<2, Len(ri)>> \o ri \o <<2, Len(si)>> \o si
  IN  <<48, Len(body)>> \o body

(* <<"ok", r, s>> or <<"err">>.  Only the short length form can occur: the body is at most 70 bytes. *)
ParseDerSig(b) ==
  LET len == Len(b) IN
  IF len < 8 \/ b[1] # 48 \/ b[2] >= 128 \/ b[2] # len - 2 \/ b[3] # 2 THEN <<"err">>
  ELSE LET lr == b[4] IN
  IF lr >= 128 \/ lr < 1 \/ 6 + lr > len THEN <<"err">>
  ELSE LET rc == SubSeq(b, 5, 4 + lr)  ls == b[6 + lr] IN
  IF b[5 + lr] # 2 \/ ls >= 128 \/ ls < 1 \/ 6 + lr + ls # len THEN <<"err">>
  ELSE LET sc == SubSeq(b, 7 + lr, 6 + lr + ls) IN
  IF ~MinimalPosInt(rc) \/ ~MinimalPosInt(sc) \/ lr > W + 1 \/ ls > W + 1 THEN <<"err">>
  ELSE LET r == OS2IP(rc)  s == OS2IP(sc) IN
  IF BigEq(r, 0) \/ BigEq(s, 0) \/ ~(r \prec N) \/ ~(s \prec N) THEN <<"err">>
  ELSE <<"ok", r, s>>

(* ---- compact forms ---- *)
ParseCompact(b, withV) ==
  IF Len(b) # 2 * W + (IF withV THEN 1 ELSE 0) THEN <<"err">>
  ELSE LET r == OS2IP(SubSeq(b, 1, W))  s == OS2IP(SubSeq(b, W + 1, 2 * W)) IN
       IF BigEq(r, 0) \/ BigEq(s, 0) \/ ~(r \prec N) \/ ~(s \prec N) THEN <<"err">>
       ELSE IF withV THEN <<"ok", r, s, b[2 * W + 1]>> ELSE <<"ok", r, s>>
BuildCompact(r, s)        == I2OSP(r, W) \o I2OSP(s, W)
BuildCompactRec(r, s, v)  == I2OSP(r, W) \o I2OSP(s, W) \o <<v>>

(* ---- BIP-66, from the text of the BIP ---- *)
(* b = 0x30 [total-length] 0x02 [R-length] [R] 0x02 [S-length] [S] [sighash], 9..73 bytes,  *)
(* total-length = everything that follows it excluding the sighash byte                       *)
IsBip66(b) ==
  /\ Len(b) >= 9 /\ Len(b) <= 73
  /\ \E lr \in 1..(Len(b) - 8) :
       LET ls == Len(b) - 7 - lr IN
       /\ ls >= 1
       /\ b[1] = 48 /\ b[2] = Len(b) - 3
       /\ b[3] = 2 /\ b[4] = lr /\ MinimalPosInt(SubSeq(b, 5, 4 + lr))
       /\ b[5 + lr] = 2 /\ b[6 + lr] = ls /\ MinimalPosInt(SubSeq(b, 7 + lr, 6 + lr + ls))

(* A-level: IsValidSignatureEncodingBIP0066 as coded (zero-based indices data[i] = b[i+1]) *)
Bip66Alg(b) ==
  LET lenSig == Len(b)  D(i) == b[i + 1] IN
  IF lenSig < 9 \/ lenSig > 73 THEN FALSE
  ELSE IF D(0) # 48 THEN FALSE
  ELSE IF D(1) # lenSig - 3 THEN FALSE
  ELSE LET lenR == D(3) IN
  IF 5 + lenR >= lenSig THEN FALSE
  ELSE LET lenS == D(5 + lenR) IN
  IF lenR + lenS + 7 # lenSig THEN FALSE
  ELSE IF D(2) # 2 THEN FALSE
  ELSE IF lenR = 0 THEN FALSE
  ELSE IF D(4) >= 128 THEN FALSE
  ELSE IF lenR > 1 /\ D(4) = 0 /\ D(5) < 128 THEN FALSE
  ELSE IF D(lenR + 4) # 2 THEN FALSE
  ELSE IF lenS = 0 THEN FALSE
  ELSE IF D(lenR + 6) >= 128 THEN FALSE
  ELSE IF lenS > 1 /\ D(lenR + 6) = 0 /\ D(lenR + 7) < 128 THEN FALSE
  ELSE TRUE

(* ---- SubjectPublicKeyInfo ---- *)
OidEcPublicKey == <<6, 7, 42, 134, 72, 206, 61, 2, 1>>          \* 1.2.840.10045.2.1
OidSecp256k1   == <<6, 5, 43, 129, 4, 0, 10>>                    \* 1.3.132.0.10
SpkiAlg        == <<48, Len(OidEcPublicKey) + Len(OidSecp256k1)>> \o OidEcPublicKey \o OidSecp256k1
BuildSpki(pt)  == LET bits == <<3, Len(pt) + 1, 0>> \o pt            \* BIT STRING, 0 unused bits
                      body == SpkiAlg \o bits
                  IN  <<48, Len(body)>> \o body                      \* all lengths < 128 for W <= 32

(* <<"ok", point>> or <<"err">>: b is the strict-DER SPKI of a non-identity point in compressed or uncompressed form *)
ParseSpki(b) ==
  LET hdr == 2 + Len(SpkiAlg) + 3          \* outer header, algorithm, BIT STRING header incl. unused-bits octet
      pt  == SubSeq(b, hdr + 1, Len(b))
  IN  IF Len(b) <= hdr \/ Len(pt) \notin {W + 1, 2 * W + 1} \/ b # BuildSpki(pt) THEN <<"err">>
      ELSE LET d == DecodeB(pt) IN IF d[1] = "ok" /\ ~IsInf(d[2]) THEN d ELSE <<"err">>
=============================================================================
