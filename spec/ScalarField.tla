------------------------------ MODULE ScalarField ------------------------------
(***************************************************************************)
(* The scalar field Z_n (D-level) and the rules of the Scalar type.        *)
(***************************************************************************)
EXTENDS Params, ModArith

SAdd(a, b) == MAdd(a, b, N)
SSub(a, b) == MSub(a, b, N)
SNeg(a)    == MNeg(a, N)
SMul(a, b) == MMul(a, b, N)
SSqr(a)    == MSqr(a, N)
SInv(a)    == MInv(a, N)
SCanon(a)  == MCanon(a, N)
SPow2k(a, k) == ModPow(a, Pow2(k), N)

RECURSIVE SSum(_), SProduct(_)
SSum(vec)     == IF Len(vec) = 0 THEN 0 ELSE SAdd(vec[1], SSum(Tail(vec)))
SProduct(vec) == IF Len(vec) = 0 THEN 1 %% N ELSE SMul(vec[1], SProduct(Tail(vec)))

SGreaterThanHalfN(a) == HalfN \prec a               \* a > (n-1)/2

SDecode(v)          == MDecode(v, N)
SDecodeCanonical(v) == MDecodeCanonical(v, N)
=============================================================================
