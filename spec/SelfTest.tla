------------------------------- MODULE SelfTest -------------------------------
(***************************************************************************)
(* Trusted-base self test, run by setup and by every check:                *)
(*  - the Java evaluation of the BigInt operators agrees with the native   *)
(*    TLC operators on an exhaustive small range and with schoolbook        *)
(*    identities at 256/512-bit size;                                       *)
(*  - the EcAdd / EcMul accelerators agree with their TLA+ definitions      *)
(*    (copied below under another name so that the override does not        *)
(*    replace them) on a whole miniature curve and on full-size samples;    *)
(*  - SHA-256 / HMAC agree with published vectors;                          *)
(*  - the parameter file satisfies the curve relations.                     *)
(***************************************************************************)
EXTENDS Group, Hash, TLC, FiniteSets

R == -40..40
SmallOK ==
  /\ \A a \in R, b \in R : (a ++ b) = a + b /\ (a -- b) = a - b /\ (a ** b) = a * b
                           /\ ((a \prec b) <=> a < b) /\ ((a \preceq b) <=> a <= b) /\ (BigEq(a, b) <=> a = b)
  /\ \A a \in R, b \in 1..40 : (a // b) = a \div b /\ (a %% b) = a % b
  /\ \A a \in 0..30, e \in 0..6, m \in 1..40 : ModPow(a, e, m) = (IF e = 0 THEN 1 ELSE a ^ e) % m
  /\ \A m \in {3, 5, 7, 11, 13, 31, 43} : \A a \in 0..(m - 1) :
        IF a = 0 THEN ModInv(a, m) = 0 ELSE (ModInv(a, m) * a) % m = 1
  /\ \A x \in 0..70000 : x % 97 # 0 \/ (OS2IP(I2OSP(x, 3)) = x /\ I2OSP(x, 3) = <<x \div 65536, (x \div 256) % 256, x % 256>>)
  /\ Pow2(20) = 1048576

\* definitions of EcAdd/EcMul under names the override does not touch
DefAdd(a, b, m) ==
  IF IsInf(a) THEN b ELSE IF IsInf(b) THEN a ELSE
  IF BigEq(a[1], b[1]) /\ (~BigEq(a[2], b[2]) \/ BigEq(a[2], 0)) THEN Inf
  ELSE LET lam == IF BigEq(a[1], b[1])
                  THEN MMul(MMul(3, MSqr(a[1], m), m), MInv(MMul(2, a[2], m), m), m)
                  ELSE MMul(MSub(b[2], a[2], m), MInv(MSub(b[1], a[1], m), m), m)
           x3  == MSub(MSub(MSqr(lam, m), a[1], m), b[1], m)
           y3  == MSub(MMul(lam, MSub(a[1], x3, m), m), a[2], m)
       IN  <<x3, y3>>
RECURSIVE DefMul(_, _, _)
DefMul(k, a, m) ==
  IF BigEq(k, 0) THEN Inf
  ELSE LET h == DefMul(k // 2, a, m)
           d == DefAdd(h, h, m)
       IN  IF BigEq(k %% 2, 1) THEN DefAdd(d, a, m) ELSE d

Pts43 == {<<>>} \cup {<<x, y>> \in (0..42) \X (0..42) : (y * y) % 43 = (x * x * x + 7) % 43}
AccelMiniOK ==
  /\ Cardinality(Pts43) = 31
  /\ \A a \in Pts43, b \in Pts43 : EcAdd(a, b, 43) = DefAdd(a, b, 43)
  /\ \A a \in Pts43, k \in 0..64 : EcMul(k, a, 43) = DefMul(k, a, 43)

FullOK ==
  LET two256 == Pow2(256)
      a == HexToInt("c90fdaa22168c234c4c6628b80dc1cd129024e088a67cc74020bbea63b139b22")
      b == HexToInt("fffffffffffffffffffffffffffffffffffffffffffffffffffffffffffffffe")
      ks == << 1, 2, 3, N -- 1, HalfN, HalfN ++ 1, a %% N, b %% N, Pow2(128), Pow2(255) %% N >>
      pts == << GenPt, PDbl(GenPt), PNeg(GenPt), PMulG(a %% N), Inf >>
  IN
  /\ BigEq((a ** b) // b, a) /\ BigEq((a ** b) %% b, 0) /\ BigEq(((a ** b) ++ 5) %% b, 5)
  /\ BigEq((a ++ b) -- b, a) /\ (a \prec b) /\ ~(b \prec a) /\ (a \preceq a)
  /\ BigEq(a ** b, ((a // two256) ** b) ** two256 ++ (a %% two256) ** b)
  /\ BigEq(OS2IP(I2OSP(a, 32)), a) /\ IntIsHex(a, 32, BytesToHex(I2OSP(a, 32)))
  /\ I2OSP(HexToInt("0102ff"), 4) = <<0, 1, 2, 255>> /\ HexToBytes("0102ff") = <<1, 2, 255>> /\ HexLen("0102ff") = 3
  /\ BigEq(ModPow(a, P -- 1, P), 1) /\ BigEq(FMul(a %% P, FInv(a %% P)), 1)
  /\ BigEq(ModPow(a, 65537, b), ModPow(ModPow(a, 257, b), 255, b) ** ModPow(a, 2, b) %% b)
  /\ OnCurveXY(Gx, Gy) /\ IsInf(PMulG(N)) /\ ~IsInf(PMulG(N -- 1))
  /\ PEq(PMulG(N -- 1), PNeg(GenPt))
  /\ BigEq(ModPow(Beta, 3, P), 1) /\ ~BigEq(Beta, 1) /\ BigEq(ModPow(Lambda, 3, N), 1) /\ ~BigEq(Lambda, 1)
  /\ PEq(PMulG(Lambda), <<FMul(Beta, Gx), Gy>>)
  /\ \A i \in 1..Len(ks) : \A j \in 1..Len(pts) :
        /\ PEq(EcMul(ks[i], pts[j], P), DefMul(ks[i], pts[j], P))
        /\ ValidPoint(EcMul(ks[i], pts[j], P))
  /\ \A i \in 1..Len(pts) : \A j \in 1..Len(pts) : PEq(EcAdd(pts[i], pts[j], P), DefAdd(pts[i], pts[j], P))

Abc == <<97, 98, 99>>
HashOK ==
  /\ BytesToHex(SHA256(<<>>)) = "e3b0c44298fc1c149afbf4c8996fb92427ae41e4649b934ca495991b7852b855"
  /\ BytesToHex(SHA256(Abc)) = "ba7816bf8f01cfea414140de5dae2223b00361a396177a9cb410ff61f20015ad"
  \* RFC 4231 test case 1 and 2
  /\ BytesToHex(HmacSha256(Rep(11, 20), HexToBytes("4869205468657265"))) = "b0344c61d8db38535ca8afceaf0bf12b881dc200c9833da726e9376c2e32cff7"
  /\ BytesToHex(HmacSha256(HexToBytes("4a656665"), HexToBytes("7768617420646f2079612077616e7420666f72206e6f7468696e673f"))) = "5bdcc146bf60754e6a042426089575c75a003f089d2739839dec58b964ec3843"
  \* RFC 4231 test case 6: key longer than the block size
  /\ BytesToHex(HmacSha256(Rep(170, 131), HexToBytes("54657374205573696e67204c6172676572205468616e20426c6f636b2d53697a65204b6579202d2048617368204b6579204669727374"))) = "60e431591ee0b67f0d8a26aacbf5b77f8e0bc6213728c5140546040f0ee37f54"

Report(name, ok) == PrintT(<<"SELFTEST", name, ok>>) /\ ok
ASSUME Report("small", SmallOK)
ASSUME Report("accel-mini", AccelMiniOK)
ASSUME Report("full", FullOK)
ASSUME Report("hash", HashOK)

VARIABLE x
Init == x = 0
Next == UNCHANGED x
=============================================================================
