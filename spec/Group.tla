--------------------------------- MODULE Group ---------------------------------
(***************************************************************************)
(* The group of points of y^2 = x^3 + B over F_p (D-level).                *)
(* A point is the empty tuple (the identity / point at infinity) or an      *)
(* affine pair <<x, y>> with canonical coordinates.                         *)
(***************************************************************************)
EXTENDS Field, ScalarField

Inf       == <<>>
IsInf(a)  == Len(a) = 0
GenPt     == <<Gx, Gy>>

OnCurveXY(x, y) == BigEq(FSqr(y), FAdd(FMul(FSqr(x), x), B))
ValidPoint(a)   == IsInf(a) \/ (Len(a) = 2 /\ FCanon(a[1]) /\ FCanon(a[2]) /\ OnCurveXY(a[1], a[2]))
PEq(a, b)       == IF IsInf(a) \/ IsInf(b) THEN IsInf(a) /\ IsInf(b)
                   ELSE BigEq(a[1], b[1]) /\ BigEq(a[2], b[2])

(* chord-and-tangent law; m is the field prime (explicit so that the accelerator is closed) *)
EcAdd(a, b, m) ==
  IF IsInf(a) THEN b ELSE IF IsInf(b) THEN a ELSE
  IF BigEq(a[1], b[1]) /\ (~BigEq(a[2], b[2]) \/ BigEq(a[2], 0)) THEN Inf
  ELSE LET lam == IF BigEq(a[1], b[1])
                  THEN MMul(MMul(3, MSqr(a[1], m), m), MInv(MMul(2, a[2], m), m), m)
                  ELSE MMul(MSub(b[2], a[2], m), MInv(MSub(b[1], a[1], m), m), m)
           x3  == MSub(MSub(MSqr(lam, m), a[1], m), b[1], m)
           y3  == MSub(MMul(lam, MSub(a[1], x3, m), m), a[2], m)
       IN  <<x3, y3>>

RECURSIVE EcMul(_, _, _)
EcMul(k, a, m) ==                                    \* k >= 0, double-and-add (MSB first)
  IF BigEq(k, 0) THEN Inf
  ELSE LET h == EcMul(k // 2, a, m)
           d == EcAdd(h, h, m)
       IN  IF BigEq(k %% 2, 1) THEN EcAdd(d, a, m) ELSE d

PAdd(a, b) == EcAdd(a, b, P)
PDbl(a)    == EcAdd(a, a, P)
PNeg(a)    == IF IsInf(a) THEN Inf ELSE <<a[1], FNeg(a[2])>>
PSub(a, b) == PAdd(a, PNeg(b))
PMul(k, a) == EcMul(k, a, P)
PMulG(k)   == PMul(k, GenPt)

RECURSIVE MSM(_, _)
MSM(ss, ps) == IF Len(ss) = 0 THEN Inf ELSE PAdd(PMul(ss[1], ps[1]), MSM(Tail(ss), Tail(ps)))
DoubleMulBase(u1, u2, a) == PAdd(PMulG(u1), PMul(u2, a))
=============================================================================
