------------------------------- MODULE BigInt -------------------------------
(***************************************************************************)
(* Arbitrary-precision integers for the secp256k1-voi specification.       *)
(*                                                                         *)
(* Every operator below is DEFINED as the ordinary TLA+ integer operator;  *)
(* that definition is its meaning.  TLC's own integers are 32-bit, so when *)
(* the specification is instantiated with the real 256-bit parameters the  *)
(* definitions are EVALUATED by a Java override on java.math.BigInteger    *)
(* (java/verif/BigIntOps.java).  With the miniature parameters of the      *)
(* exhaustive models no override is loaded and TLC evaluates the           *)
(* definitions natively.  SelfTest.tla cross-checks the override against   *)
(* these definitions.                                                      *)
(*                                                                         *)
(* Precedences (TLA+ fixes them per symbol):  ** and // bind tightest      *)
(* (13), then -- (11), then ++ (10), %% (10-11), \prec and \preceq (5).    *)
(* Mixed ++ / %% expressions are always parenthesised.                     *)
(***************************************************************************)
EXTENDS Integers, Sequences

a ++ b == a + b
a -- b == a - b
a ** b == a * b
a // b == a \div b
a %% b == a % b
a \prec b == a < b
a \preceq b == a <= b
BigEq(a, b) == a = b

Pow2(k) == 2 ^ k

RECURSIVE ModPow(_, _, _)
ModPow(a, e, m) ==
  IF e = 0 THEN 1 % m
  ELSE LET h  == ModPow(a, e \div 2, m)
           hh == (h * h) % m
       IN  IF e % 2 = 1 THEN (hh * (a % m)) % m ELSE hh

(* inverse modulo a PRIME m by Fermat; 0 when a = 0 (mod m) *)
ModInv(a, m) == ModPow(a, m - 2, m)

RECURSIVE OS2IP(_)
OS2IP(bs) == IF bs = <<>> THEN 0
             ELSE OS2IP(SubSeq(bs, 1, Len(bs) - 1)) * 256 + bs[Len(bs)]

I2OSP(x, len) == [i \in 1..len |-> (x \div (256 ^ (len - i))) % 256]
=============================================================================
