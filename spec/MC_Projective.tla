----------------------------- MODULE MC_Projective -----------------------------
(***************************************************************************)
(* Pipeline A for C03: on a miniature curve, for ALL projective            *)
(* representatives p, q of ALL curve points (including every               *)
(* representative (0, Y, 0) of the identity):                              *)
(*   - Algorithm 7 / 8 / 9 (as transcribed from point_projective.go)       *)
(*     return a valid representative of the chord-and-tangent result       *)
(*     (completeness: no exceptional pair), so "valid representative of    *)
(*     the right abstract point" is an inductive invariant of every        *)
(*     operation sequence (representation drift);                          *)
(*   - the cross-multiplied Equal, the identity test (Z = 0), rescaling    *)
(*     and hence every encoding depend only on the abstract point.         *)
(* One state per first operand; the second operand is quantified inside   *)
(* the invariant (keeps the state count at |reps|).                        *)
(***************************************************************************)
EXTENDS Projective, TLC, FiniteSets

VARIABLES mP, mDone

Bug == IF "VERIF_BUG" \in DOMAIN IOEnv THEN IOEnv.VERIF_BUG ELSE "none"      \* a deliberately wrong design, selected by the orchestrator for non-vacuity runs
(* non-vacuity: the textbook projective addition (add-1998-cmo-2), which has no answer for P + P and for the identity *)
AddIncomplete(p, q) ==
  LET y1z2 == FMul(p[2], q[3])  x1z2 == FMul(p[1], q[3])  z1z2 == FMul(p[3], q[3])
      u == FSub(FMul(q[2], p[3]), y1z2)  v == FSub(FMul(q[1], p[3]), x1z2)
      vv == FMul(v, v)  vvv == FMul(v, vv)  rr == FMul(vv, x1z2)
      a == FSub(FSub(FMul(FMul(u, u), z1z2), vvv), FAdd(rr, rr))
  IN  <<FMul(v, a), FSub(FMul(u, FSub(rr, a)), FMul(vvv, y1z2)), FMul(vvv, z1z2)>>
Add7(p, q) == IF Bug = "incomplete_add" THEN AddIncomplete(p, q) ELSE Alg7(p, q)
EqualUT(p, q) == IF Bug = "equal_x_only" THEN FMul(p[1], q[3]) = FMul(q[1], p[3]) ELSE ProjEqualAlg(p, q)

FP    == 0..(P - 1)
Aff   == TLCEval({<<x, y>> \in FP \X FP : (y * y) % P = (x * x * x + B) % P})
Reps  == TLCEval({<<0, y, 0>> : y \in 1..(P - 1)}
         \cup {<<(a[1] * z) % P, (a[2] * z) % P, z>> : a \in Aff, z \in 1..(P - 1)})
InvT  == TLCEval([z \in FP |-> FInv(z)])                          \* memoised inverse
Aff0(r) == IF r[3] = 0 THEN Inf ELSE <<(r[1] * InvT[r[3]]) % P, (r[2] * InvT[r[3]]) % P>>
ValidR(r) == r \in Reps

QSet == TLCEval(IF IOEnv.VERIF_MCFULL = "1" THEN Reps
        ELSE {FromAff(a) : a \in Aff} \cup {<<0, y, 0>> : y \in {1, 2, P - 1}}
             \cup {<<(a[1] * z) % P, (a[2] * z) % P, z>> : a \in Aff, z \in {2, P - 1}})

RepsOf(a) == IF IsInf(a) THEN {<<0, y, 0>> : y \in 1..(P - 1)}
             ELSE {<<(a[1] * z) % P, (a[2] * z) % P, z>> : z \in 1..(P - 1)}

(* two levels so that TLC's workers share the load: one initial state per abstract point, *)
(* one successor per representative of it                                                *)
Init == mP \in {FromAff(a) : a \in Aff \cup {Inf}} /\ mDone = FALSE
Next == mDone = FALSE /\ mDone' = TRUE /\ mP' \in RepsOf(Aff0(mP))

GroupLaw ==
  /\ Cardinality(Aff) + 1 = N                                     \* the parameter file's n is the group order
  /\ ValidR(mP)
  /\ ProjValid(mP)
  /\ LET a == Aff0(mP) IN
     /\ ToAff(mP) = a
     /\ \A q \in QSet :
          LET b == Aff0(q)  r == Add7(mP, q) IN
          /\ ValidR(r) /\ Aff0(r) = PAdd(a, b)
          /\ ((r[3] = 0) <=> IsInf(PAdd(a, b)))
          /\ (EqualUT(mP, q) <=> a = b)
          /\ (q[3] # 0 => LET m == Alg8(mP, b[1], b[2]) IN ValidR(m) /\ Aff0(m) = PAdd(a, b))
     /\ LET d == Alg9(mP) IN ValidR(d) /\ Aff0(d) = PDbl(a)
     /\ LET n == NegAlg(mP) IN ValidR(n) /\ Aff0(n) = PNeg(a)
     /\ LET s == RescaleAlg(mP) IN ValidR(s) /\ Aff0(s) = a /\ s = FromAff(a)   \* the rescaled form is canonical
     /\ ((mP[3] = 0) <=> IsInf(a))
     /\ ValidPoint(a)
=============================================================================
