----------------------------------- MODULE Api -----------------------------------
(***************************************************************************)
(* The public API of the library as a STATE MACHINE over a pool of caller- *)
(* visible objects (C18): Point slots (a slot may hold a zero-value,       *)
(* uninitialised Point), Scalar slots, byte buffers shared with the        *)
(* library (slices passed in or handed out), one private-key object and    *)
(* one public-key object.                                                  *)
(*                                                                         *)
(* State (all values are byte tuples so that the same text runs on the     *)
(* miniature curves and, through trace validation, at full size):          *)
(*   pt[i]  "uninit" or the uncompressed SEC 1 encoding (<<0>> = identity) *)
(*   sc[i]  W-byte big-endian canonical scalar                             *)
(*   buf[i] arbitrary byte tuple                                           *)
(*   priv   "nil" or the W-byte scalar of the key (in [1, n))              *)
(*   pub    "nil" or the uncompressed encoding of the key's point          *)
(*   spriv  "nil" or the W-byte scalar d' of the BIP-340 private key       *)
(*   spub   "nil" or the W-byte x-only BIP-340 public key                  *)
(*                                                                         *)
(* Step(st, ev) gives, for one call `ev` (operation name plus slot         *)
(* indices, so that every receiver/argument ALIAS pattern is a distinct    *)
(* call), the outcome kind the code must have and the successor state:     *)
(*   "ok"    state updated with the D-level result;                        *)
(*   "err"   every object unchanged, no object returned;                   *)
(*   "panic" (zero-value operand, length mismatch) every object unchanged. *)
(* Environment steps model the CALLER scribbling over what it supplied or  *)
(* received: env.LoadBuf / env.MutateBuf / env.MutateScalar /              *)
(* env.MutatePoint / env.ForgetPoint never touch priv / pub.               *)
(***************************************************************************)
EXTENDS Schnorr, Ecdsa, Rfc6979, H2C, FiniteSets

Uninit == <<-1>>          \* a byte tuple that is no encoding: the slot holds a zero-value Point
Nil    == <<-1>>          \* no key object

EncPt(a)  == EncUncompressedB(a)
PtOf(st, i) == LET dd == DecodeB(st.pt[i]) IN IF dd[1] = "ok" THEN dd[2] ELSE Inf      \* StateOK: valid slots always decode
IsValidSlot(st, i) == st.pt[i] # Uninit
ScOf(st, i) == OS2IP(st.sc[i])
EncSc(x)  == I2OSP(x, W)

Ok(st)        == [kind |-> "ok", st |-> st, reply |-> -1]
OkR(st, r)    == [kind |-> "ok", st |-> st, reply |-> r]
Err(st)       == [kind |-> "err", st |-> st, reply |-> -1]
Panic(st)     == [kind |-> "panic", st |-> st, reply |-> -1]
SetPt(st, i, a)  == [st EXCEPT !.pt[i] = EncPt(a)]
SetSc(st, i, x)  == [st EXCEPT !.sc[i] = EncSc(x)]
SetBuf(st, i, b) == [st EXCEPT !.buf[i] = b]

(* every operand must be an initialised Point, else the call panics before touching anything *)
NeedValid(st, slots, result) == IF \A i \in slots : IsValidSlot(st, i) THEN result ELSE Panic(st)

(* ---- signatures live in byte buffers ---- *)
EncName(c) == CASE c = 0 -> "asn1" [] c = 1 -> "compact" [] c = 2 -> "recoverable" [] OTHER -> "invalid"
EncodeSig(c, r, s, v) == CASE c = 0 -> BuildDerSig(r, s) [] c = 1 -> BuildCompact(r, s) [] OTHER -> BuildCompactRec(r, s, v)

(* RFC 6979 deterministic ECDSA (SHA-256) with the candidate loop: the i-th generator output is the nonce iff it is in [1, n) as read *)
(* (leftmost qlen = 8 W bits) and the signature it gives is not degenerate.  <<"sig", r, s, v>>                                      *)
RECURSIVE Rfc6979SignFrom(_, _, _)
Rfc6979SignFrom(d, e, i) ==
  LET t == Candidate(I2OSP(d, W), I2OSP(e, W), i)
      k == OS2IP(SubSeq(t, 1, W))
  IN  IF BigEq(k, 0) \/ ~(k \prec N) THEN Rfc6979SignFrom(d, e, i + 1)
      ELSE LET sg == SignWithNonce(d, e, k) IN IF sg[1] = "retry" THEN Rfc6979SignFrom(d, e, i + 1) ELSE sg
Rfc6979Sign(d, e) == Rfc6979SignFrom(d, e, 1)

PreHashName == <<118, 101, 114, 105, 102, 47, 100, 111, 109, 97, 105, 110>>      \* "verif/domain"
AuxZero == Rep(0, 32)          \* the replayer's entropy reader for BIP-340 signing delivers 32 zero bytes

Uint64Class(c) == CASE c = 0 -> 0 [] c = 1 -> 1 [] OTHER -> SSub(ModPow(2, 64, N), 1)      \* 0, 1, 2^64 - 1 (reduced mod n on the miniature curves)

PointOps1 == {"pt.Double", "pt.Negate", "pt.Set"}
PointOps2 == {"pt.Add", "pt.Subtract"}
DecodeOps == {"pt.SetBytes", "pt.SetCompressedBytes", "pt.SetUncompressedBytes"}

Step(st, ev) ==
  CASE ev.op = "pt.Identity"  -> Ok(SetPt(st, ev.v, Inf))
    [] ev.op = "pt.Generator" -> Ok(SetPt(st, ev.v, GenPt))
    [] ev.op \in PointOps2 ->
         NeedValid(st, {ev.p, ev.q},
           LET a == PtOf(st, ev.p)  b == PtOf(st, ev.q) IN
           Ok(SetPt(st, ev.v, IF ev.op = "pt.Add" THEN PAdd(a, b) ELSE PSub(a, b))))
    [] ev.op \in PointOps1 ->
         NeedValid(st, {ev.p},
           LET a == PtOf(st, ev.p) IN
           Ok(SetPt(st, ev.v, CASE ev.op = "pt.Double" -> PDbl(a) [] ev.op = "pt.Negate" -> PNeg(a) [] OTHER -> a)))
    [] ev.op = "pt.CondNegate" ->
         NeedValid(st, {ev.p}, LET a == PtOf(st, ev.p) IN Ok(SetPt(st, ev.v, IF ev.c = 0 THEN a ELSE PNeg(a))))
    [] ev.op = "pt.CondSelect" ->
         NeedValid(st, {ev.p, ev.q}, Ok(SetPt(st, ev.v, IF ev.c = 0 THEN PtOf(st, ev.p) ELSE PtOf(st, ev.q))))
    [] ev.op = "pt.Equal" ->
         NeedValid(st, {ev.p, ev.q}, OkR(st, IF PEq(PtOf(st, ev.p), PtOf(st, ev.q)) THEN 1 ELSE 0))
    [] ev.op = "pt.IsIdentity" ->
         NeedValid(st, {ev.p}, OkR(st, IF IsInf(PtOf(st, ev.p)) THEN 1 ELSE 0))
    [] ev.op = "pt.ScalarMult" ->
         NeedValid(st, {ev.p}, Ok(SetPt(st, ev.v, PMul(ScOf(st, ev.s), PtOf(st, ev.p)))))
    [] ev.op = "pt.ScalarBaseMult" -> Ok(SetPt(st, ev.v, PMulG(ScOf(st, ev.s))))
    [] ev.op = "pt.DoubleScalarMult" ->
         NeedValid(st, {ev.p}, Ok(SetPt(st, ev.v, DoubleMulBase(ScOf(st, ev.s), ScOf(st, ev.t), PtOf(st, ev.p)))))
    [] ev.op \in {"pt.MultiScalarMult", "pt.MultiScalarMultVartime"} ->
         NeedValid(st, {ev.p, ev.q},
           Ok(SetPt(st, ev.v, MSM(<<ScOf(st, ev.s), ScOf(st, ev.t)>>, <<PtOf(st, ev.p), PtOf(st, ev.q)>>))))
    [] ev.op = "pt.MultiScalarMultMismatch" -> Panic(st)                          \* len(scalars) # len(points)
    [] ev.op \in DecodeOps ->
         LET b == st.buf[ev.b]
             d == CASE ev.op = "pt.SetBytes" -> DecodeB(b)
                    [] ev.op = "pt.SetCompressedBytes" -> DecodeCompressedB(b)
                    [] OTHER -> DecodeUncompressedB(b)
         IN  IF d[1] = "ok" THEN Ok(SetPt(st, ev.v, d[2])) ELSE Err(st)          \* failed decode: receiver exactly as it was
    [] ev.op = "pt.NewFromBytes" ->     \* constructor: a FRESH object replaces the slot's object (or nothing happens on error)
         LET d == DecodeB(st.buf[ev.b]) IN IF d[1] = "ok" THEN Ok(SetPt(st, ev.v, d[2])) ELSE Err(st)
    [] ev.op = "pt.NewIdentity"  -> Ok(SetPt(st, ev.v, Inf))
    [] ev.op = "pt.NewGenerator" -> Ok(SetPt(st, ev.v, GenPt))
    [] ev.op = "pt.NewFrom" -> NeedValid(st, {ev.p}, Ok(SetPt(st, ev.v, PtOf(st, ev.p))))
    [] ev.op = "pt.UncompressedBytes" -> NeedValid(st, {ev.p}, Ok(SetBuf(st, ev.b, EncUncompressedB(PtOf(st, ev.p)))))
    [] ev.op = "pt.CompressedBytes"   -> NeedValid(st, {ev.p}, Ok(SetBuf(st, ev.b, EncCompressedB(PtOf(st, ev.p)))))
    [] ev.op = "pt.XBytes" ->
         NeedValid(st, {ev.p}, LET a == PtOf(st, ev.p) IN IF IsInf(a) THEN Err(st) ELSE Ok(SetBuf(st, ev.b, I2OSP(a[1], W))))
    (* ---- scalars (the zero value is a valid zero: no panics) ---- *)
    [] ev.op = "sc.Add"      -> Ok(SetSc(st, ev.s, SAdd(ScOf(st, ev.p), ScOf(st, ev.q))))
    [] ev.op = "sc.Multiply" -> Ok(SetSc(st, ev.s, SMul(ScOf(st, ev.p), ScOf(st, ev.q))))
    [] ev.op = "sc.Subtract" -> Ok(SetSc(st, ev.s, SSub(ScOf(st, ev.p), ScOf(st, ev.q))))
    [] ev.op = "sc.Square"   -> Ok(SetSc(st, ev.s, SMul(ScOf(st, ev.p), ScOf(st, ev.p))))
    [] ev.op = "sc.Sum"      -> Ok(SetSc(st, ev.s, SAdd(SAdd(ScOf(st, ev.p), ScOf(st, ev.q)), ScOf(st, ev.t))))   \* variadic, three operands: the receiver may be ANY of them
    [] ev.op = "sc.Product"  -> Ok(SetSc(st, ev.s, SMul(SMul(ScOf(st, ev.p), ScOf(st, ev.q)), ScOf(st, ev.t))))
    [] ev.op = "sc.CondNegate" -> Ok(SetSc(st, ev.s, IF ev.c = 0 THEN ScOf(st, ev.p) ELSE SNeg(ScOf(st, ev.p))))
    [] ev.op = "sc.CondSelect" -> Ok(SetSc(st, ev.s, IF ev.c = 0 THEN ScOf(st, ev.p) ELSE ScOf(st, ev.q)))
    [] ev.op = "sc.Equal"    -> OkR(st, IF st.sc[ev.p] = st.sc[ev.q] THEN 1 ELSE 0)
    [] ev.op = "sc.IsZero"   -> OkR(st, IF BigEq(ScOf(st, ev.p), 0) THEN 1 ELSE 0)
    [] ev.op = "sc.IsGreaterThanHalfN" -> OkR(st, IF SGreaterThanHalfN(ScOf(st, ev.p)) THEN 1 ELSE 0)
    [] ev.op = "sc.Negate"   -> Ok(SetSc(st, ev.s, SNeg(ScOf(st, ev.p))))
    [] ev.op = "sc.Invert"   -> Ok(SetSc(st, ev.s, SInv(ScOf(st, ev.p))))
    [] ev.op = "sc.SetBytes" ->
         LET b == st.buf[ev.b] IN
         IF Len(b) # W THEN Panic(st)                                             \* the harness refuses to build a *[32]byte of another length
         ELSE OkR(SetSc(st, ev.s, SDecode(OS2IP(b))[1]), SDecode(OS2IP(b))[2])
    [] ev.op = "sc.SetCanonicalBytes" ->
         LET b == st.buf[ev.b] IN
         IF Len(b) # W THEN Panic(st)
         ELSE IF OS2IP(b) \prec N THEN Ok(SetSc(st, ev.s, OS2IP(b))) ELSE Err(st)  \* receiver untouched
    [] ev.op = "sc.Bytes" -> Ok(SetBuf(st, ev.b, st.sc[ev.s]))
    (* ---- signature wire formats as free functions: parsers return fresh scalars (or nothing), builders a fresh slice ---- *)
    [] ev.op \in {"sig.ParseCompact", "sig.ParseCompactRec", "sig.ParseDER"} ->
         LET b == st.buf[ev.b]
             p == CASE ev.op = "sig.ParseCompact" -> ParseCompact(b, FALSE) [] ev.op = "sig.ParseCompactRec" -> ParseCompact(b, TRUE) [] OTHER -> ParseDerSig(b)
         IN  IF p[1] = "ok" THEN OkR(SetSc(SetSc(st, ev.s, p[2]), ev.t, p[3]), IF ev.op = "sig.ParseCompactRec" THEN p[4] ELSE -1)
             ELSE Err(st)                                                         \* no scalar is returned, whichever half was at fault
    [] ev.op = "sig.BuildCompact" -> Ok(SetBuf(st, ev.b, BuildCompact(ScOf(st, ev.s), ScOf(st, ev.t))))
    [] ev.op = "sig.BuildCompactRec" -> Ok(SetBuf(st, ev.b, BuildCompactRec(ScOf(st, ev.s), ScOf(st, ev.t), ev.c)))
    [] ev.op = "sig.BuildDER" -> Ok(SetBuf(st, ev.b, BuildDerSig(ScOf(st, ev.s), ScOf(st, ev.t))))
    (* ---- key objects ---- *)
    [] ev.op = "key.NewPrivate" ->
         LET b == st.buf[ev.b] IN
         IF Len(b) = W /\ (OS2IP(b) \prec N) /\ ~BigEq(OS2IP(b), 0)
         THEN Ok([st EXCEPT !.priv = b, !.pub = EncPt(PMulG(OS2IP(b)))])           \* the key pair object: private scalar + derived public key
         ELSE Err(st)
    [] ev.op = "key.NewPrivateFromScalar" ->
         IF BigEq(ScOf(st, ev.s), 0) THEN Err(st)
         ELSE Ok([st EXCEPT !.priv = st.sc[ev.s], !.pub = EncPt(PMulG(ScOf(st, ev.s)))])
    [] ev.op = "key.PrivScalar" -> IF st.priv = Nil THEN Panic(st) ELSE Ok([st EXCEPT !.sc[ev.s] = st.priv])
    [] ev.op = "key.PrivBytes"  -> IF st.priv = Nil THEN Panic(st) ELSE Ok(SetBuf(st, ev.b, st.priv))
    [] ev.op = "key.NewPublic" ->
         LET d == DecodeB(st.buf[ev.b]) IN
         IF d[1] = "ok" /\ ~IsInf(d[2]) THEN Ok([st EXCEPT !.pub = EncPt(d[2]), !.priv = Nil]) ELSE Err(st)
    [] ev.op = "key.NewPublicFromPoint" ->
         NeedValid(st, {ev.p}, LET a == PtOf(st, ev.p) IN IF IsInf(a) THEN Err(st) ELSE Ok([st EXCEPT !.pub = EncPt(a), !.priv = Nil]))
    [] ev.op = "key.PubPoint"      -> IF st.pub = Nil THEN Panic(st) ELSE Ok([st EXCEPT !.pt[ev.v] = st.pub])
    [] ev.op = "key.PubBytes"      -> IF st.pub = Nil THEN Panic(st) ELSE Ok(SetBuf(st, ev.b, st.pub))
    [] ev.op = "key.PubCompressed" -> IF st.pub = Nil THEN Panic(st) ELSE Ok(SetBuf(st, ev.b, EncCompressedB(DecodeB(st.pub)[2])))
    [] ev.op = "key.ECDH" ->      \* private key with ITSELF's public key slot (any public key object held)
         IF st.priv = Nil \/ st.pub = Nil THEN Panic(st)
         ELSE LET sh == PMul(OS2IP(st.priv), DecodeB(st.pub)[2]) IN
              IF IsInf(sh) THEN Err(st) ELSE Ok(SetBuf(st, ev.b, I2OSP(sh[1], W)))
    (* ---- more point constructors / predicates ---- *)
    [] ev.op = "pt.IsYOdd" ->
         NeedValid(st, {ev.p}, LET a == PtOf(st, ev.p) IN OkR(st, IF IsInf(a) THEN -1 ELSE IF FIsOdd(a[2]) THEN 1 ELSE 0))   \* parity of the identity: unconstrained
    [] ev.op = "pt.FromCoords" ->       \* NewPointFromCoords(x, y) with x || y taken from a 2W-byte buffer
         LET b == st.buf[ev.b] IN
         IF Len(b) # 2 * W THEN Panic(st)
         ELSE LET x == OS2IP(SubSeq(b, 1, W))  y == OS2IP(SubSeq(b, W + 1, 2 * W)) IN
              IF (x \prec P) /\ (y \prec P) /\ OnCurveXY(x, y) THEN Ok(SetPt(st, ev.v, <<x, y>>)) ELSE Err(st)
    [] ev.op = "pt.Recover" ->          \* RecoverPoint(scalar slot, recovery id c)
         LET d == RecoverPointD(ScOf(st, ev.s), ev.c) IN IF d[1] = "ok" THEN Ok(SetPt(st, ev.v, d[2])) ELSE Err(st)
    [] ev.op = "pt.SetUniform" ->       \* SetUniformBytes(buf[b]), W..2W bytes: the receiver may be a zero-value Point, it is overwritten
         LET b == st.buf[ev.b] IN
         IF Len(b) < W \/ Len(b) > 2 * W THEN Panic(st) ELSE Ok(SetPt(st, ev.v, SetUniformBytesD(b)))
    (* ---- BIP-340 key objects ---- *)
    [] ev.op = "skey.New" ->
         LET b == st.buf[ev.b] IN
         IF Len(b) = W /\ (OS2IP(b) \prec N) /\ ~BigEq(OS2IP(b), 0)
         THEN Ok([st EXCEPT !.spriv = b, !.spub = I2OSP(PMulG(OS2IP(b))[1], W)]) ELSE Err(st)
    [] ev.op = "skey.FromECDSA" ->
         IF st.priv = Nil THEN Panic(st) ELSE Ok([st EXCEPT !.spriv = st.priv, !.spub = I2OSP(PMulG(OS2IP(st.priv))[1], W)])
    [] ev.op = "skey.Bytes"  -> IF st.spriv = Nil THEN Panic(st) ELSE Ok(SetBuf(st, ev.b, st.spriv))
    [] ev.op = "skey.Scalar" -> IF st.spriv = Nil THEN Panic(st) ELSE Ok([st EXCEPT !.sc[ev.s] = st.spriv])
    [] ev.op = "spub.New" ->
         LET b == st.buf[ev.b]  l == IF Len(b) = W THEN LiftXEven(OS2IP(b)) ELSE <<FALSE>> IN
         IF l[1] THEN Ok([st EXCEPT !.spub = b, !.spriv = Nil]) ELSE Err(st)
    [] ev.op = "spub.FromPoint" ->
         NeedValid(st, {ev.p}, LET a == PtOf(st, ev.p) IN
                               IF IsInf(a) THEN Err(st) ELSE Ok([st EXCEPT !.spub = I2OSP(a[1], W), !.spriv = Nil]))
    [] ev.op = "spub.FromECDSA" ->
         IF st.pub = Nil THEN Panic(st) ELSE Ok([st EXCEPT !.spub = I2OSP(DecodeB(st.pub)[2][1], W), !.spriv = Nil])
    [] ev.op = "spub.Bytes" -> IF st.spub = Nil THEN Panic(st) ELSE Ok(SetBuf(st, ev.b, st.spub))
    [] ev.op = "spub.Point" -> IF st.spub = Nil THEN Panic(st) ELSE Ok(SetPt(st, ev.v, LiftXEven(OS2IP(st.spub))[2]))   \* always the even-y point
    (* ---- signatures: produced into / read from byte buffers the caller keeps (and may scribble over) ---- *)
    [] ev.op = "key.Sign" ->            \* PrivateKey.Sign(RFC6979SHA256(), buf[m], &ECDSAOptions{Encoding: c}) -> buf[b]
         IF st.priv = Nil THEN Panic(st)
         ELSE LET dg == st.buf[ev.m] IN
              IF Len(dg) # W \/ ev.c \notin {0, 1, 2} THEN Err(st)
              ELSE LET sg == Rfc6979Sign(OS2IP(st.priv), HashToScalarB(dg)[2]) IN Ok(SetBuf(st, ev.b, EncodeSig(ev.c, sg[2], sg[3], sg[4])))
    [] ev.op = "key.Verify" ->          \* PublicKey.Verify(buf[m], buf[b], &ECDSAOptions{Encoding: c}): a predicate, nothing changes
         IF st.pub = Nil THEN Panic(st)
         ELSE OkR(st, IF VerifyEncoded(DecodeB(st.pub)[2], st.buf[ev.m], st.buf[ev.b], TRUE, W, EncName(ev.c), FALSE) THEN 1 ELSE 0)
    [] ev.op = "key.Recover" ->         \* RecoverPublicKey(buf[m], ParseCompactRecoverableSignature(buf[b])): a NEW public-key object
         LET p == ParseCompact(st.buf[ev.b], TRUE)  h == HashToScalarB(st.buf[ev.m]) IN
         IF p[1] = "err" \/ h[1] = "err" THEN Err(st)
         ELSE LET rq == Recover(h[2], p[2], p[3], p[4]) IN
              IF rq[1] = "ok" THEN Ok([st EXCEPT !.pub = EncPt(rq[2]), !.priv = Nil]) ELSE Err(st)
    [] ev.op = "btc.Verify" ->          \* bitcoin.VerifyASN1(pub, buf[m], buf[b]): BIP-66 envelope with sighash byte, low-s
         IF st.pub = Nil THEN Panic(st)
         ELSE LET sig == st.buf[ev.b] IN
              OkR(st, IF IsBip66(sig) /\ VerifyEncoded(DecodeB(st.pub)[2], st.buf[ev.m], SubSeq(sig, 1, Len(sig) - 1), TRUE, W, "asn1", TRUE) THEN 1 ELSE 0)
    [] ev.op = "key.PubASN1" ->         \* PublicKey.ASN1Bytes(): SubjectPublicKeyInfo of the uncompressed point
         IF st.pub = Nil THEN Panic(st) ELSE Ok(SetBuf(st, ev.b, BuildSpki(st.pub)))
    [] ev.op = "key.ParseASN1" ->       \* ParseASN1PublicKey(buf[b]): a NEW public-key object, or nothing
         LET d == ParseSpki(st.buf[ev.b]) IN
         IF d[1] = "ok" THEN Ok([st EXCEPT !.pub = EncPt(d[2]), !.priv = Nil]) ELSE Err(st)
    (* ---- key comparison (crypto.PublicKey / crypto.PrivateKey Equal), against a key object freshly built from buf[b] ---- *)
    [] ev.op = "key.PubEqual" ->
         IF st.pub = Nil THEN Panic(st)
         ELSE LET d == DecodeB(st.buf[ev.b]) IN
              IF d[1] = "ok" /\ ~IsInf(d[2]) THEN OkR(st, IF EncPt(d[2]) = st.pub THEN 1 ELSE 0) ELSE Err(st)
    [] ev.op = "key.PrivEqual" ->
         IF st.priv = Nil THEN Panic(st)
         ELSE LET b == st.buf[ev.b] IN
              IF Len(b) = W /\ (OS2IP(b) \prec N) /\ ~BigEq(OS2IP(b), 0) THEN OkR(st, IF b = st.priv THEN 1 ELSE 0) ELSE Err(st)
    [] ev.op = "spub.Equal" ->
         IF st.spub = Nil THEN Panic(st)
         ELSE LET b == st.buf[ev.b] IN
              IF Len(b) = W /\ LiftXEven(OS2IP(b))[1] THEN OkR(st, IF b = st.spub THEN 1 ELSE 0) ELSE Err(st)
    [] ev.op = "skey.Equal" ->
         IF st.spriv = Nil THEN Panic(st)
         ELSE LET b == st.buf[ev.b] IN
              IF Len(b) = W /\ (OS2IP(b) \prec N) /\ ~BigEq(OS2IP(b), 0) THEN OkR(st, IF b = st.spriv THEN 1 ELSE 0) ELSE Err(st)
    [] ev.op = "key.EqualForeign" ->    \* Equal with an argument of another key type (c: 0 pub, 1 priv, 2 spub, 3 spriv is the receiver): never equal
         IF (CASE ev.c = 0 -> st.pub [] ev.c = 1 -> st.priv [] ev.c = 2 -> st.spub [] OTHER -> st.spriv) = Nil THEN Panic(st) ELSE OkR(st, 0)
    [] ev.op = "btc.PreHash" ->         \* PreHashSchnorrMessage(name, buf[m]) -> buf[b]; c: 0 a valid name, 1 the empty name, 2 invalid UTF-8
         IF ev.c # 0 THEN Err(st) ELSE Ok(SetBuf(st, ev.b, TaggedHash(PreHashName, st.buf[ev.m])))
    (* ---- key generation from the system RNG: WHICH key is generated is not specified; the model takes a representative and the  *)
    (* trace specification accepts any valid, consistent key pair and adopts it (Trace_Api)                                         *)
    [] ev.op = "key.Generate"  -> Ok([st EXCEPT !.priv = EncSc(2), !.pub = EncPt(PMulG(2))])
    [] ev.op = "skey.Generate" -> Ok([st EXCEPT !.spriv = EncSc(2), !.spub = I2OSP(PMulG(2)[1], W)])
    [] ev.op = "skey.Sign" ->           \* SchnorrPrivateKey.Sign(32 zero bytes of entropy, buf[m]) -> buf[b]
         IF st.spriv = Nil THEN Panic(st)
         ELSE LET sg == SignB(st.spriv, st.buf[ev.m], AuxZero) IN IF sg[1] = "ok" THEN Ok(SetBuf(st, ev.b, sg[2])) ELSE Err(st)
    [] ev.op = "spub.Verify" ->
         IF st.spub = Nil THEN Panic(st) ELSE OkR(st, IF VerifyB(st.spub, st.buf[ev.m], st.buf[ev.b]) THEN 1 ELSE 0)
    (* ---- round 8: the rest of the exported surface ---- *)
    [] ev.op = "sc.Set"  -> Ok([st EXCEPT !.sc[ev.s] = st.sc[ev.p]])
    [] ev.op = "sc.One"  -> Ok(SetSc(st, ev.s, 1))
    [] ev.op = "sc.Zero" -> Ok(SetSc(st, ev.s, 0))
    [] ev.op = "sc.NewFrom" -> Ok([st EXCEPT !.sc[ev.s] = st.sc[ev.p]])                    \* a FRESH object replaces the slot's object
    [] ev.op = "sc.NewFromUint64" -> Ok(SetSc(st, ev.s, Uint64Class(ev.c)))                \* c: 0, 1, 2 -> 0, 1, 2^64 - 1
    [] ev.op = "sc.NewFromBytes" ->                                                        \* fresh object + reduction flag
         LET b == st.buf[ev.b] IN
         IF Len(b) # W THEN Panic(st) ELSE OkR(SetSc(st, ev.s, SDecode(OS2IP(b))[1]), SDecode(OS2IP(b))[2])
    [] ev.op = "sc.NewFromCanonicalBytes" ->                                               \* fresh object, or nothing
         LET b == st.buf[ev.b] IN
         IF Len(b) # W THEN Panic(st) ELSE IF OS2IP(b) \prec N THEN Ok(SetSc(st, ev.s, OS2IP(b))) ELSE Err(st)
    [] ev.op = "pt.SplitUncompressed" ->    \* SplitUncompressedPoint(buf[b]) -> x bytes into buf[m] (a copy made by the caller), reply = parity of the last byte
         LET b == st.buf[ev.b] IN
         IF Len(b) # 2 * W + 1 THEN Panic(st) ELSE OkR(SetBuf(st, ev.m, SubSeq(b, 2, W + 1)), b[2 * W + 1] % 2)
    [] ev.op = "key.SignRaw" ->             \* PrivateKey.SignRaw(RFC6979SHA256(), buf[m]) -> fresh scalars r, s in slots s, t; reply v
         IF st.priv = Nil THEN Panic(st)
         ELSE LET h == HashToScalarB(st.buf[ev.m]) IN
              IF h[1] = "err" THEN Err(st)
              ELSE LET sg == Rfc6979Sign(OS2IP(st.priv), h[2]) IN OkR(SetSc(SetSc(st, ev.s, sg[2]), ev.t, sg[3]), sg[4])
    [] ev.op = "key.VerifyRaw" ->           \* PublicKey.VerifyRaw(buf[m], sc[s], sc[t]): a predicate
         IF st.pub = Nil THEN Panic(st)
         ELSE LET h == HashToScalarB(st.buf[ev.m]) IN
              OkR(st, IF h[1] = "ok" /\ VerifyPred(DecodeB(st.pub)[2], h[2], ScOf(st, ev.s), ScOf(st, ev.t)) THEN 1 ELSE 0)
    [] ev.op = "key.SignHedged" ->          \* PrivateKey.Sign(reader, buf[m], compact) -> buf[b]; c = 0: the reader delivers 32 bytes, c = 1: it fails after 31.
         IF st.priv = Nil THEN Panic(st)    \* WHICH signature is not specified (hedged nonce): the model takes the RFC 6979 one, Trace_Api accepts any valid low-s one
         ELSE LET dg == st.buf[ev.m] IN
              IF Len(dg) # W \/ ev.c # 0 THEN Err(st)
              ELSE LET sg == Rfc6979Sign(OS2IP(st.priv), HashToScalarB(dg)[2]) IN Ok(SetBuf(st, ev.b, EncodeSig(1, sg[2], sg[3], sg[4])))
    [] ev.op \in {"h2c.RO", "h2c.NU"} ->    \* hash-to-curve: tag buf[b], message buf[m] -> a FRESH point in slot v; an empty tag is refused
         LET r == IF ev.op = "h2c.RO" THEN HashToCurveRO(st.buf[ev.m], st.buf[ev.b]) ELSE EncodeToCurveNU(st.buf[ev.m], st.buf[ev.b]) IN
         IF r[1] = "ok" THEN Ok(SetPt(st, ev.v, r[2])) ELSE Err(st)
    [] ev.op = "btc.IsBip66" -> OkR(st, IF IsBip66(st.buf[ev.b]) THEN 1 ELSE 0)
    (* ---- the caller (environment) ---- *)
    [] ev.op \in {"env.LoadBuf", "env.MutateBuf"} -> Ok(SetBuf(st, ev.b, ev.content))
    [] ev.op = "env.AppendByte" -> Ok(SetBuf(st, ev.b, Append(st.buf[ev.b], 1)))           \* append(buf, 0x01): the caller grows a slice it may have been handed
    [] ev.op = "env.MutateScalar" -> Ok(SetSc(st, ev.s, SAdd(ScOf(st, ev.s), 1)))          \* s.Add(s, 1) on the caller's object
    [] ev.op = "env.MutatePoint"  -> NeedValid(st, {ev.p}, Ok(SetPt(st, ev.p, PAdd(PtOf(st, ev.p), GenPt))))
    [] ev.op = "env.ForgetPoint"  -> Ok([st EXCEPT !.pt[ev.p] = Uninit])                    \* the slot now holds a fresh zero-value Point

(* ---------------- invariants of the state machine ---------------- *)
StateOK(st) ==
  /\ \A i \in DOMAIN st.pt : st.pt[i] = Uninit \/ (DecodeB(st.pt[i])[1] = "ok" /\ EncPt(DecodeB(st.pt[i])[2]) = st.pt[i])  \* on the curve or identity
  /\ \A i \in DOMAIN st.sc : Len(st.sc[i]) = W /\ (OS2IP(st.sc[i]) \prec N)                                                  \* canonical
  /\ st.priv # Nil => Len(st.priv) = W /\ (OS2IP(st.priv) \prec N) /\ ~BigEq(OS2IP(st.priv), 0)
                      /\ st.pub = EncPt(PMulG(OS2IP(st.priv)))                                                                  \* key pair consistent
  /\ st.pub # Nil => DecodeB(st.pub)[1] = "ok" /\ ~IsInf(DecodeB(st.pub)[2])                                                    \* never the identity
  /\ st.spriv # Nil => Len(st.spriv) = W /\ (OS2IP(st.spriv) \prec N) /\ ~BigEq(OS2IP(st.spriv), 0)
                       /\ st.spub = I2OSP(PMulG(OS2IP(st.spriv))[1], W)
  /\ st.spub # Nil => Len(st.spub) = W /\ LiftXEven(OS2IP(st.spub))[1]

(* whatever a key object signs, the same key objects verify (every encoding) and recover; digests are the W-byte buffers of the pool *)
SignOK(st) ==
  /\ st.priv # Nil => \A i \in DOMAIN st.buf : Len(st.buf[i]) = W =>
        LET e == HashToScalarB(st.buf[i])[2]  sg == Rfc6979Sign(OS2IP(st.priv), e)  q == DecodeB(st.pub)[2] IN
        /\ sg[1] = "sig" /\ ~SGreaterThanHalfN(sg[3])
        /\ \A c \in {0, 1, 2} : VerifyEncoded(q, st.buf[i], EncodeSig(c, sg[2], sg[3], sg[4]), TRUE, W, EncName(c), TRUE)
        /\ Recover(e, sg[2], sg[3], sg[4]) = <<"ok", q>>
  /\ st.spriv # Nil => \A i \in DOMAIN st.buf :
        LET sg == SignB(st.spriv, st.buf[i], AuxZero) IN sg[1] = "ok" => VerifyB(st.spub, st.buf[i], sg[2])

(* the same conditions, evaluated only for the objects that differ from a state `o` in which they are known to hold *)
StateOKDelta(o, st) ==
  /\ \A i \in DOMAIN st.pt : (i \notin DOMAIN o.pt \/ o.pt[i] # st.pt[i]) =>
        (st.pt[i] = Uninit \/ (DecodeB(st.pt[i])[1] = "ok" /\ EncPt(DecodeB(st.pt[i])[2]) = st.pt[i]))
  /\ \A i \in DOMAIN st.sc : (i \notin DOMAIN o.sc \/ o.sc[i] # st.sc[i]) => (Len(st.sc[i]) = W /\ (OS2IP(st.sc[i]) \prec N))
  /\ (st.priv # o.priv \/ st.pub # o.pub) =>
        /\ st.priv # Nil => Len(st.priv) = W /\ (OS2IP(st.priv) \prec N) /\ ~BigEq(OS2IP(st.priv), 0) /\ st.pub = EncPt(PMulG(OS2IP(st.priv)))
        /\ st.pub # Nil => DecodeB(st.pub)[1] = "ok" /\ ~IsInf(DecodeB(st.pub)[2])
  /\ (st.spriv # o.spriv \/ st.spub # o.spub) =>
        /\ st.spriv # Nil => Len(st.spriv) = W /\ (OS2IP(st.spriv) \prec N) /\ ~BigEq(OS2IP(st.spriv), 0)
                              /\ st.spub = I2OSP(PMulG(OS2IP(st.spriv))[1], W)
        /\ st.spub # Nil => Len(st.spub) = W /\ LiftXEven(OS2IP(st.spub))[1]

IsEnv(ev)      == ev.op \in {"env.LoadBuf", "env.MutateBuf", "env.AppendByte", "env.MutateScalar", "env.MutatePoint", "env.ForgetPoint"}
IsKeyCtor(ev)  == ev.op \in {"key.NewPrivate", "key.NewPrivateFromScalar", "key.NewPublic", "key.NewPublicFromPoint",
                              "skey.New", "skey.FromECDSA", "spub.New", "spub.FromPoint", "spub.FromECDSA", "key.Recover", "key.ParseASN1", "key.Generate", "skey.Generate"}

(* a step is well behaved: failure => frame; caller actions and everything that is not a key constructor leave keys alone *)
StepOKR(st, ev, r) ==
  /\ r.kind \in {"ok", "err", "panic"}
  /\ (r.kind # "ok" => r.st = st)
  /\ (~IsKeyCtor(ev) => r.st.priv = st.priv /\ r.st.pub = st.pub /\ r.st.spriv = st.spriv /\ r.st.spub = st.spub)
  /\ StateOK(r.st)
StepOK(st, ev) == StepOKR(st, ev, Step(st, ev))
=============================================================================
