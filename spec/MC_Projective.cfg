INIT Init
NEXT Next
INVARIANT GroupLaw
CHECK_DEADLOCK FALSE
