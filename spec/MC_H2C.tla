---------------------------------- MODULE MC_H2C ----------------------------------
(***************************************************************************)
(* Pipeline A for C15 on a miniature SWU-capable curve E' : y^2 = x^3 +    *)
(* A'x + B' (A'B' # 0, Z chosen by RFC 9380 H.2): for ALL u in F_p the     *)
(* straight-line algorithm F.2 with sqrt_ratio (as coded in internal/swu)  *)
(* equals the declarative map of section 6.6.2, its output lies on E',     *)
(* the sgn0 rule holds, and the exceptional u (Z^2 u^4 + Z u^2 = 0) are    *)
(* handled.  expand_message_xmd's length logic is structural and is        *)
(* checked at full size by the trace specification against the RFC         *)
(* vectors and the Go code.                                                *)
(***************************************************************************)
EXTENDS H2C, TLC, FiniteSets

VARIABLES mU, mDone
FP == 0..(P - 1)

Init == mU \in FP /\ mDone = FALSE
Next == mDone = FALSE /\ mDone' = TRUE /\ UNCHANGED mU

SwuInv ==
  LET dd == MapToCurveSwuD(mU)  aa == MapToCurveSwuAlg(mU) IN
  /\ aa = dd                                                            \* F.2 = 6.6.2
  /\ FSqr(dd[2]) = GPrime(dd[1])                                        \* on E'
  /\ Sgn0(dd[2]) = Sgn0(mU)
  /\ dd[1] \in FP /\ dd[2] \in FP

ParamInv ==
  /\ SwuA # 0 /\ SwuB # 0 /\ ~FIsSquare(SwuZ) /\ SwuZ # P - 1
  /\ \A x \in FP : GPrime(x) # SwuZ
  /\ FIsSquare(GPrime(FMul(SwuB, FInv(FMul(SwuZ, SwuA)))))
  /\ \E u \in FP : FAdd(FSqr(FMul(SwuZ, FSqr(u))), FMul(SwuZ, FSqr(u))) = 0     \* the exceptional case occurs (u = 0 at least)
  /\ \A u \in FP, v \in FP : v # 0 =>
       LET sr == SqrtRatio3mod4(u, v)  q == FMul(u, FInv(v)) IN
       /\ sr[1] <=> FIsSquare(q)
       /\ IF sr[1] THEN FSqr(sr[2]) = q ELSE FSqr(sr[2]) = FMul(SwuZ, q)
=============================================================================
