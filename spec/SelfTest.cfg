INIT Init
NEXT Next
