---------------------------------- MODULE Nonce ----------------------------------
(***************************************************************************)
(* The state machine of ONE hedged ECDSA signing call (secec/ecdsa.go:     *)
(* sign -> mitigateDebianAndSony -> sampleRandomScalar -> loop), at the    *)
(* grain C09 talks about:                                                  *)
(*   phase "entropy": io.ReadFull(rand, 32 bytes) over an ARBITRARY reader *)
(*                    (each Read returns k <= asked bytes and maybe an     *)
(*                    error; ReadFull succeeds iff all bytes arrived, even *)
(*                    when the last chunk carried an error);               *)
(*   phase "sample":  draw 32-byte candidates from the per-signature DRBG; *)
(*                    a candidate is accepted iff it is in [1, n) as read  *)
(*                    (never reduced); at most MaxTry draws per sampler    *)
(*                    call;                                                *)
(*   phase "sign":    r = x(kG) mod n, s = k^-1(e + r d); if r = 0 or      *)
(*                    s = 0 the loop samples again FROM THE SAME DRBG.     *)
(* Candidates are abstracted to the classes the sampler distinguishes.     *)
(* WE is the number of entropy bytes (32 in the code; small in the model). *)
(***************************************************************************)
EXTENDS Integers, Sequences

CONSTANTS WE, MaxTry, MaxSign, MaxReads   \* MaxReads bounds the model only (a reader may return 0 bytes forever)

VARIABLES phase,      \* "entropy" | "sample" | "sign" | "done"
          got,        \* entropy bytes delivered so far
          asked,      \* size of the last request made to the reader
          reads,      \* number of Read calls on the caller's reader
          tries,      \* candidates drawn by the current sampler call
          draws,      \* candidates drawn from the DRBG over the whole Sign call
          cand,       \* class of the last candidate: "none" | "zero" | "ge_n" | "valid"
          rounds,     \* iterations of the sign loop
          out         \* "running" | "sig" | "err_entropy" | "err_sampling"

vars == <<phase, got, asked, reads, tries, draws, cand, rounds, out>>

Init == /\ phase = "entropy" /\ got = 0 /\ asked = 0 /\ reads = 0 /\ tries = 0 /\ draws = 0
        /\ cand = "none" /\ rounds = 0 /\ out = "running"

(* one Read on the caller's reader as io.ReadFull drives it: it asks for everything still missing *)
ReaderReturns(k, err) ==
  /\ phase = "entropy" /\ k \in 0..(WE - got) /\ reads < MaxReads
  /\ reads' = reads + 1 /\ asked' = WE - got /\ got' = got + k
  /\ IF got + k >= WE THEN phase' = "sample" /\ out' = out                 \* success even if err came with the last chunk
     ELSE IF err      THEN phase' = "done"   /\ out' = "err_entropy"
     ELSE                  phase' = "entropy" /\ out' = out
  /\ UNCHANGED <<tries, draws, cand, rounds>>

(* one 32-byte draw from the per-signature DRBG inside sampleRandomScalar *)
Candidate(c) ==
  /\ phase = "sample" /\ tries < MaxTry /\ c \in {"zero", "ge_n", "valid"}
  /\ tries' = tries + 1 /\ draws' = draws + 1 /\ cand' = c
  /\ IF c = "valid" THEN phase' = "sign" /\ out' = out
     ELSE IF tries + 1 = MaxTry THEN phase' = "done" /\ out' = "err_sampling"
     ELSE phase' = "sample" /\ out' = out
  /\ UNCHANGED <<got, asked, reads, rounds>>

(* the signing step with the accepted nonce: degenerate (r = 0 or s = 0) => back to the sampler, same DRBG *)
SignStep(degenerate) ==
  /\ phase = "sign" /\ rounds < MaxSign
  /\ rounds' = rounds + 1
  /\ IF degenerate THEN phase' = "sample" /\ tries' = 0 /\ out' = out
     ELSE phase' = "done" /\ tries' = tries /\ out' = "sig"
  /\ UNCHANGED <<got, asked, reads, draws, cand>>

Next == \/ \E k \in 0..WE, err \in BOOLEAN : ReaderReturns(k, err)
        \/ \E c \in {"zero", "ge_n", "valid"} : Candidate(c)
        \/ \E dg \in BOOLEAN : SignStep(dg)

Spec == Init /\ [][Next]_vars

TypeOK == /\ phase \in {"entropy", "sample", "sign", "done"} /\ got \in 0..WE /\ asked \in 0..WE
          /\ tries \in 0..MaxTry /\ cand \in {"none", "zero", "ge_n", "valid"}
          /\ out \in {"running", "sig", "err_entropy", "err_sampling"}

(* C09 *)
SignedOnlyWithFullEntropy == out = "sig" => got = WE /\ cand = "valid" /\ tries \in 1..MaxTry
NonceIsAcceptedCandidate  == phase = "sign" => cand = "valid"            \* the nonce is the candidate as drawn: never a reduced one
EntropyErrorMeansNoSig    == out = "err_entropy" => got < WE /\ draws = 0
NoDrawBeforeEntropy       == got < WE => draws = 0 /\ phase \in {"entropy", "done"}
SamplerBound              == tries <= MaxTry /\ (out = "err_sampling" => tries = MaxTry /\ cand # "valid")
ReaderAskedExactly        == asked <= WE /\ (reads = 0 => asked = 0 /\ got = 0)
NeverOverRead             == got <= WE
DrawsAccounted            == draws <= MaxTry * (rounds + 1)

(* action properties *)
EntropyMonotone == [][got' >= got]_vars
OutcomeFinal    == [][out # "running" => out' = out]_vars
=============================================================================
