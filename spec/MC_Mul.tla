--------------------------------- MODULE MC_Mul ---------------------------------
(***************************************************************************)
(* Pipeline A for C04 / C05 / C16 on a miniature curve whose GLV constants *)
(* were computed the libsecp256k1 way (gen_params.py) and are re-verified  *)
(* here.  For ALL scalars s (and ALL points a, identity included):         *)
(*   - the split is exact, both halves fit the HBits the ladder consumes   *)
(*     and stay below the closed-form bounds BoundK1 / BoundK2 (the same   *)
(*     formula is evaluated at full size by the trace specification);      *)
(*   - the rounding-by-carry trick equals true rounding;                   *)
(*   - the GLV window ladder, the constant-time and variable-time          *)
(*     fixed-base walks, Straus and the double-scalar multiply return the  *)
(*     group-theoretic result.                                             *)
(***************************************************************************)
EXTENDS Mul, TLC, FiniteSets

VARIABLES mKind, mS, mU, mA

Bug == IF "VERIF_BUG" \in DOMAIN IOEnv THEN IOEnv.VERIF_BUG ELSE "none"      \* a deliberately wrong design, selected by the orchestrator for non-vacuity runs
(* non-vacuity: a multiply-and-shift that truncates instead of rounding; a double multiply whose "vanishing term" shortcut multiplies G by *)
(* the wrong scalar                                                                                                                        *)
MulShiftUT(k, g) == IF Bug = "round_down" THEN (k * g) \div Pow2(T) ELSE MulShift(k, g)
DsmUT(u, s, a) == IF Bug = "dsm_vanish" /\ (s = 0 \/ IsInf(a)) THEN ScalarBaseMultVartime(s) ELSE DoubleScalarMultAlg(u, s, a)

FP   == 0..(P - 1)
Aff  == TLCEval({<<x, y>> \in FP \X FP : (y * y) % P = (x * x * x + B) % P})
Pts  == TLCEval(Aff \cup {Inf})
ZN   == 0..(N - 1)
(* reference multiplication by repeated addition, independent of Group!EcMul *)
RECURSIVE RefMul(_, _)
RefMul(k, pt) == IF k = 0 THEN Inf ELSE PAdd(RefMul(k - 1, pt), pt)

SmallPts == {Inf, GenPt, PNeg(GenPt), PDbl(GenPt), PMulG(5 % N), PNeg(PMulG(5 % N))}

Init == \/ mKind = "mul"  /\ mS \in ZN /\ mU = 0 /\ mA = Inf
        \/ mKind = "dsm"  /\ mS \in ZN /\ mU = 0 /\ mA = Inf
        \/ mKind = "msm2" /\ mS \in ZN /\ mU = 0 /\ mA = Inf
Next == \/ mKind = "mul"  /\ mKind' = "mul-pt"  /\ mA' \in Pts /\ UNCHANGED <<mS, mU>>
        \/ mKind = "dsm"  /\ mKind' = "dsm-pt"  /\ mA' \in Pts /\ mU' \in {0, 1, N - 1, HalfN, HalfN + 1, 7 % N} /\ UNCHANGED mS
        \/ mKind = "msm2" /\ mKind' = "msm2-pt" /\ mA' \in Pts /\ UNCHANGED mS
           /\ mU' \in (IF IOEnv.VERIF_MCFULL = "1" THEN ZN ELSE {0, 1, 2, N - 1, HalfN, HalfN + 1, 7 % N, (N - mS) % N})

Round(num, den) == (2 * num + den) \div (2 * den)      \* round half up, exact

SplitInv == mKind = "mul" =>
  LET kk == SplitGLV(mS)  n1 == Normalise(kk[1])  n2 == Normalise(kk[2]) IN
  /\ kk[1] \in ZN /\ kk[2] \in ZN
  /\ (kk[1] + kk[2] * Lambda) % N = mS
  /\ n1[1] < Pow2(HBits) /\ n2[1] < Pow2(HBits)
  /\ n1[1] <= BoundK1 /\ n2[1] <= BoundK2
  /\ MulShiftUT(mS, G1) = Round(mS * G1, Pow2(T)) /\ MulShiftUT(mS, G2) = Round(mS * G2, Pow2(T))
  /\ ScalarBaseMultCT(mS) = RefMul(mS, GenPt)
  /\ ScalarBaseMultVartime(mS) = RefMul(mS, GenPt)
  /\ PMulG(mS) = RefMul(mS, GenPt)                                    \* the D-level double-and-add agrees with repeated addition

ConstInv ==
  /\ (LatA1 + LatB1 * Lambda) % N = 0 /\ (LatA2 + LatB2 * Lambda) % N = 0
  /\ AbsI(LatA1 * LatB2 - LatA2 * LatB1) = N                         \* the basis spans the full lattice
  /\ {G1, G2} = {Round(Pow2(T) * AbsI(LatB2), N), Round(Pow2(T) * AbsI(LatB1), N)}
  /\ HalvesFit
  /\ (Beta * Beta * Beta) % P = 1 /\ Beta # 1 /\ (Lambda * Lambda * Lambda) % N = 1 /\ Lambda # 1
  /\ PMulG(Lambda) = MulBeta(GenPt)
  /\ \A i \in 0..(W - 1) : \A j \in 1..15 : OddEntry(i, j) = HugeEntry(i, 16 * j)   \* fromIdx = 16(j+1) - 1, zero based

MulInv == mKind = "mul-pt" =>
  /\ ScalarMultGLV(mS, mA) = RefMul(mS, mA)
  /\ MulBeta(mA) = RefMul(Lambda, mA)
  /\ MultiScalarMultAlg(<<mS>>, <<mA>>) = RefMul(mS, mA)

DsmInv == mKind = "dsm-pt" =>
  DsmUT(mU, mS, mA) = PAdd(RefMul(mU, GenPt), RefMul(mS, mA))

Msm2Inv == mKind = "msm2-pt" =>
  /\ MultiScalarMultAlg(<<mS, mU>>, <<mA, GenPt>>) = PAdd(RefMul(mS, mA), RefMul(mU, GenPt))
  /\ MultiScalarMultAlg(<<mS, mU>>, <<mA, mA>>) = RefMul((mS + mU) % N, mA)               \* repeated point: doubling inside the sum
  /\ MultiScalarMultAlg(<<mS, mU>>, <<mA, PNeg(mA)>>) = RefMul((mS + N - mU) % N, mA)     \* mutually inverse points
  /\ MultiScalarMultAlg(<<mS, mU, mS>>, <<GenPt, mA, PNeg(GenPt)>>) = RefMul(mU, mA)     \* partial sums through the identity
  /\ MultiScalarMultAlg(<<>>, <<>>) = Inf
=============================================================================
