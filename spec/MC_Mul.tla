--------------------------------- MODULE MC_Mul ---------------------------------
(***************************************************************************)
(* Pipeline A for C04 / C05 / C16 on a miniature curve whose GLV constants *)
(* were computed the libsecp256k1 way (gen_params.py) and are re-verified  *)
(* here.  For ALL scalars s (and ALL points a, identity included):         *)
(*   - the split is exact, both halves fit the HBits the ladder consumes   *)
(*     and stay below the closed-form bounds BoundK1 / BoundK2 (the same   *)
(*     formula is evaluated at full size by the trace specification);      *)
(*   - the rounding-by-carry trick equals true rounding;                   *)
(*   - the GLV window ladder, the constant-time and variable-time          *)
(*     fixed-base walks, Straus and the double-scalar multiply return the  *)
(*     group-theoretic result.                                             *)
(***************************************************************************)
EXTENDS Mul, TLC, FiniteSets

VARIABLES kind, s, u, a

FP   == 0..(P - 1)
Aff  == TLCEval({<<x, y>> \in FP \X FP : (y * y) % P = (x * x * x + B) % P})
Pts  == TLCEval(Aff \cup {Inf})
ZN   == 0..(N - 1)
(* reference multiplication by repeated addition, independent of Group!EcMul *)
RECURSIVE RefMul(_, _)
RefMul(k, pt) == IF k = 0 THEN Inf ELSE PAdd(RefMul(k - 1, pt), pt)

SmallPts == {Inf, GenPt, PNeg(GenPt), PDbl(GenPt), PMulG(5 % N), PNeg(PMulG(5 % N))}

Init == \/ kind = "mul"  /\ s \in ZN /\ u = 0 /\ a = Inf
        \/ kind = "dsm"  /\ s \in ZN /\ u = 0 /\ a = Inf
        \/ kind = "msm2" /\ s \in ZN /\ u = 0 /\ a = Inf
Next == \/ kind = "mul"  /\ kind' = "mul-pt"  /\ a' \in Pts /\ UNCHANGED <<s, u>>
        \/ kind = "dsm"  /\ kind' = "dsm-pt"  /\ a' \in Pts /\ u' \in {0, 1, N - 1, HalfN, HalfN + 1, 7 % N} /\ UNCHANGED s
        \/ kind = "msm2" /\ kind' = "msm2-pt" /\ a' \in Pts /\ UNCHANGED s
           /\ u' \in (IF IOEnv.VERIF_MCFULL = "1" THEN ZN ELSE {0, 1, 2, N - 1, HalfN, HalfN + 1, 7 % N, (N - s) % N})

Round(num, den) == (2 * num + den) \div (2 * den)      \* round half up, exact

SplitInv == kind = "mul" =>
  LET kk == SplitGLV(s)  n1 == Normalise(kk[1])  n2 == Normalise(kk[2]) IN
  /\ kk[1] \in ZN /\ kk[2] \in ZN
  /\ (kk[1] + kk[2] * Lambda) % N = s
  /\ n1[1] < Pow2(HBits) /\ n2[1] < Pow2(HBits)
  /\ n1[1] <= BoundK1 /\ n2[1] <= BoundK2
  /\ MulShift(s, G1) = Round(s * G1, Pow2(T)) /\ MulShift(s, G2) = Round(s * G2, Pow2(T))
  /\ ScalarBaseMultCT(s) = RefMul(s, GenPt)
  /\ ScalarBaseMultVartime(s) = RefMul(s, GenPt)
  /\ PMulG(s) = RefMul(s, GenPt)                                    \* the D-level double-and-add agrees with repeated addition

ConstInv ==
  /\ (LatA1 + LatB1 * Lambda) % N = 0 /\ (LatA2 + LatB2 * Lambda) % N = 0
  /\ AbsI(LatA1 * LatB2 - LatA2 * LatB1) = N                         \* the basis spans the full lattice
  /\ {G1, G2} = {Round(Pow2(T) * AbsI(LatB2), N), Round(Pow2(T) * AbsI(LatB1), N)}
  /\ HalvesFit
  /\ (Beta * Beta * Beta) % P = 1 /\ Beta # 1 /\ (Lambda * Lambda * Lambda) % N = 1 /\ Lambda # 1
  /\ PMulG(Lambda) = MulBeta(GenPt)
  /\ \A i \in 0..(W - 1) : \A j \in 1..15 : OddEntry(i, j) = HugeEntry(i, 16 * j)   \* fromIdx = 16(j+1) - 1, zero based

MulInv == kind = "mul-pt" =>
  /\ ScalarMultGLV(s, a) = RefMul(s, a)
  /\ MulBeta(a) = RefMul(Lambda, a)
  /\ MultiScalarMultAlg(<<s>>, <<a>>) = RefMul(s, a)

DsmInv == kind = "dsm-pt" =>
  DoubleScalarMultAlg(u, s, a) = PAdd(RefMul(u, GenPt), RefMul(s, a))

Msm2Inv == kind = "msm2-pt" =>
  /\ MultiScalarMultAlg(<<s, u>>, <<a, GenPt>>) = PAdd(RefMul(s, a), RefMul(u, GenPt))
  /\ MultiScalarMultAlg(<<s, u>>, <<a, a>>) = RefMul((s + u) % N, a)               \* repeated point: doubling inside the sum
  /\ MultiScalarMultAlg(<<s, u>>, <<a, PNeg(a)>>) = RefMul((s + N - u) % N, a)     \* mutually inverse points
  /\ MultiScalarMultAlg(<<s, u, s>>, <<GenPt, a, PNeg(GenPt)>>) = RefMul(u, a)     \* partial sums through the identity
  /\ MultiScalarMultAlg(<<>>, <<>>) = Inf
=============================================================================
