---------------------------------- MODULE NonceInd ----------------------------------
(* Apalache: the C09 invariants of Nonce.tla are INDUCTIVE, hence hold for unbounded reader behaviour *)
(* (any number of zero-byte reads, any WE / MaxTry / MaxSign), not only within TLC's MaxReads bound.   *)
EXTENDS Integers, Sequences

CONSTANTS
  \* @type: Int;
  WE,
  \* @type: Int;
  MaxTry,
  \* @type: Int;
  MaxSign,
  \* @type: Int;
  MaxReads

VARIABLES
  \* @type: Str;
  phase,
  \* @type: Int;
  got,
  \* @type: Int;
  asked,
  \* @type: Int;
  reads,
  \* @type: Int;
  tries,
  \* @type: Int;
  draws,
  \* @type: Str;
  cand,
  \* @type: Int;
  rounds,
  \* @type: Str;
  out

INSTANCE Nonce

ConstInit == WE \in 1..64 /\ MaxTry \in 1..16 /\ MaxSign \in 1..1000000 /\ MaxReads \in 1..1000000

IndInv ==
  /\ phase \in {"entropy", "sample", "sign", "done"}
  /\ cand \in {"none", "zero", "ge_n", "valid"}
  /\ out \in {"running", "sig", "err_entropy", "err_sampling"}
  /\ got >= 0 /\ got <= WE /\ asked >= 0 /\ asked <= WE /\ reads >= 0 /\ draws >= 0 /\ rounds >= 0
  /\ tries >= 0 /\ tries <= MaxTry
  /\ (phase = "done") <=> (out # "running")
  /\ (phase = "entropy") => (got < WE /\ draws = 0 /\ tries = 0 /\ rounds = 0 /\ cand = "none")
  /\ (phase = "sample") => (got = WE /\ tries < MaxTry)
  /\ (phase = "sign") => (got = WE /\ cand = "valid" /\ tries >= 1)
  /\ (out = "sig") => (got = WE /\ cand = "valid" /\ tries >= 1)
  /\ (out = "err_entropy") => (got < WE /\ draws = 0)
  /\ (out = "err_sampling") => (tries = MaxTry /\ cand # "valid" /\ got = WE)
  /\ (got < WE) => (draws = 0 /\ phase \in {"entropy", "done"})
  /\ (reads = 0) => (asked = 0 /\ got = 0)

IndInit ==
  /\ phase \in {"entropy", "sample", "sign", "done"}
  /\ cand \in {"none", "zero", "ge_n", "valid"}
  /\ out \in {"running", "sig", "err_entropy", "err_sampling"}
  /\ got \in Int /\ asked \in Int /\ reads \in Int /\ tries \in Int /\ draws \in Int /\ rounds \in Int
  /\ IndInv

\* the properties of C09 follow from the inductive invariant
Implied == IndInv => (SignedOnlyWithFullEntropy /\ NonceIsAcceptedCandidate /\ EntropyErrorMeansNoSig /\ NoDrawBeforeEntropy /\ SamplerBound /\ NeverOverRead)
=============================================================================
