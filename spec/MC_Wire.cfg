INIT Init
NEXT Next
INVARIANT DerInv
INVARIANT BuildInv
INVARIANT BipInv
CHECK_DEADLOCK FALSE
