--------------------------------- MODULE Hex ---------------------------------
(***************************************************************************)
(* Codec between the hexadecimal strings used in the ndjson traces /        *)
(* parameter files and TLA+ byte sequences / integers.  TLC strings are     *)
(* atomic, so these operators have no executable TLA+ definition; they are  *)
(* specified by the axioms below and evaluated by java/verif/BigIntOps.     *)
(* They are trace I/O, not part of the mathematics.                         *)
(*                                                                          *)
(*   HexToBytes(s)  the byte sequence written as the hex string s           *)
(*   BytesToHex(b)  inverse of HexToBytes (lower case)                      *)
(*   HexToInt(s)  = OS2IP(HexToBytes(s))                                    *)
(*   HexLen(s)    = Len(HexToBytes(s))                                      *)
(*   IntIsHex(x, n, s) = (HexLen(s) = n /\ HexToInt(s) = x)                 *)
(*   IntToHex(x, n)    = BytesToHex(I2OSP(x, n))                             *)
(*   HexSlice(s, i, j) = BytesToHex(SubSeq(HexToBytes(s), i + 1, j))         *)
(*                       (bytes i .. j-1, zero based; "" when out of range)  *)
(*   HexCat(s, t)      = BytesToHex(HexToBytes(s) \o HexToBytes(t))          *)
(***************************************************************************)
EXTENDS Integers, Sequences

Undefined(what) == CHOOSE v : v \notin {what}   \* TLC cannot evaluate this: loud failure without the override

HexToBytes(s) == Undefined(<<"HexToBytes", s>>)
BytesToHex(b) == Undefined(<<"BytesToHex", b>>)
HexToInt(s)   == Undefined(<<"HexToInt", s>>)
HexLen(s)     == Undefined(<<"HexLen", s>>)
IntIsHex(x, n, s) == Undefined(<<"IntIsHex", x, n, s>>)
IntToHex(x, n)    == Undefined(<<"IntToHex", x, n>>)
HexSlice(s, i, j) == Undefined(<<"HexSlice", s, i, j>>)
HexCat(s, t)      == Undefined(<<"HexCat", s, t>>)
=============================================================================
