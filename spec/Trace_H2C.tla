------------------------------- MODULE Trace_H2C -------------------------------
(***************************************************************************)
(* C15 — trace specification for hash-to-curve at full size: the whole     *)
(* RFC 9380 pipeline is evaluated by TLC from the logged message / DST /   *)
(* uniform bytes, so nothing intermediate is trusted from the log.         *)
(***************************************************************************)
EXTENDS TraceBase, H2C, Sec1

VARIABLES tl, tBad, tCnt

H(s)  == HexToInt(s)
HB(s) == HexToBytes(s)

Classes == {"suite_ro", "suite_nu", "dst_1", "dst_254", "dst_255", "dst_256", "dst_257", "dst_long", "dst_wide", "u_short", "dst_empty", "msg_empty", "msg_long",
            "uni_len_32", "uni_len_48", "uni_len_64", "uni_len_other", "uni_ge_p", "uni_panic", "u_zero", "u_one", "u_pm1", "u_exceptional",
            "gx1_square", "gx1_nonsquare", "u_odd", "u_even", "y_flipped", "xmd_ok", "xmd_err", "xmd_len_edge", "xmd_ell_max", "xmd_vector",
            "iso_ok", "iso_exceptional", "swu_ok", "suite_vector", "result_identity", "pure"}

DstClasses(d) == CASE Len(d) = 0 -> {"dst_empty"} [] Len(d) = 1 -> {"dst_1"} [] Len(d) = 254 -> {"dst_254"} [] Len(d) = 255 -> {"dst_255"}
                   [] Len(d) = 256 -> {"dst_256"} [] Len(d) = 257 -> {"dst_257"} [] Len(d) >= 65536 -> {"dst_long", "dst_wide"} [] Len(d) >= 1000 -> {"dst_long"} [] OTHER -> {}

UClasses(u) ==
  LET zu2 == FMul(SwuZ, FSqr(u))
      exc == BigEq(FAdd(FSqr(zu2), zu2), 0)
      tv1 == Inv0(FAdd(FSqr(zu2), zu2))
      x1  == IF exc THEN FMul(SwuB, FInv(FMul(SwuZ, SwuA))) ELSE FMul(FMul(FNeg(SwuB), FInv(SwuA)), FAdd(1, tv1))
      sq  == FIsSquare(GPrime(x1))
      y0  == IF sq THEN SqrtF(GPrime(x1)) ELSE SqrtF(GPrime(FMul(zu2, x1)))
  IN  (IF BigEq(u, 0) THEN {"u_zero"} ELSE {}) \cup (IF BigEq(u, 1) THEN {"u_one"} ELSE {}) \cup (IF BigEq(u, P -- 1) THEN {"u_pm1"} ELSE {})
      \cup (IF exc THEN {"u_exceptional"} ELSE {}) \cup (IF sq THEN {"gx1_square"} ELSE {"gx1_nonsquare"})
      \cup (IF FIsOdd(u) THEN {"u_odd"} ELSE {"u_even"}) \cup (IF Sgn0(u) # Sgn0(y0) THEN {"y_flipped"} ELSE {})

Verdict(ev) ==
  CASE ev.ev = "lib.Unexpected" -> << FALSE, {} >>                 \* a call that must succeed failed or panicked
    [] ev.ev = "h2c.Suite" ->
         LET msg == HB(ev.msg)  dst == HB(ev.dst)
             want == IF ev.suite = "RO" THEN HashToCurveRO(msg, dst) ELSE EncodeToCurveNU(msg, dst) IN
         << /\ IF want[1] = "err" THEN ~ev.ok ELSE ev.ok /\ ev.out = EncUncompressedH(want[2]) /\ ValidPoint(want[2])
            /\ ev.again = ev.out                                                       \* a pure function of its inputs
            /\ (Has(ev, "args_same") => ev.args_same),                                 \* ... that writes nothing the caller owns
            (IF ev.suite = "RO" THEN {"suite_ro"} ELSE {"suite_nu"}) \cup DstClasses(dst) \cup {"pure"}
            \cup (IF Len(msg) = 0 THEN {"msg_empty"} ELSE {}) \cup (IF Len(msg) > 128 THEN {"msg_long"} ELSE {})
            \cup (IF Has(ev, "vector") /\ ev.vector THEN {"suite_vector"} ELSE {})
            \cup (IF want[1] = "ok" /\ IsInf(want[2]) THEN {"result_identity"} ELSE {})
            \cup (IF Has(ev, "steer") /\ want[1] = "ok"                                \* a field element with a zero leading byte (a 31-byte integer)
                     /\ LET ub == ExpandMessageXmd(msg, dst, IF ev.suite = "RO" THEN 96 ELSE 48) IN
                        \E i \in 0..(IF ev.suite = "RO" THEN 1 ELSE 0) : FieldElem(ub[2], i) \prec Pow2(8 * W - 8)
                  THEN {"u_short"} ELSE {}) >>
    [] ev.ev = "h2c.Uniform" ->
         LET src == HB(ev["in"])  n == Len(src) IN
         IF n < 32 \/ n > 64 THEN << ev.panic, {"uni_panic"} >>
         ELSE LET u == OS2IP(src) %% P  want == SetUniformBytesD(src) IN
         << ~ev.panic /\ ev.out = EncUncompressedH(want) /\ ValidPoint(want) /\ ev.again = ev.out /\ (Has(ev, "zrecv") => ev.zrecv = ev.out),
            (CASE n = 32 -> {"uni_len_32"} [] n = 48 -> {"uni_len_48"} [] n = 64 -> {"uni_len_64"} [] OTHER -> {"uni_len_other"})
            \cup (IF P \preceq OS2IP(src) THEN {"uni_ge_p"} ELSE {}) \cup UClasses(u)
            \cup (IF IsInf(want) THEN {"result_identity"} ELSE {}) >>
    [] ev.ev = "h2c.Xmd" ->
         LET want == ExpandMessageXmd(HB(ev.msg), HB(ev.dst), ev.len) IN
         << IF want[1] = "err" THEN ~ev.ok ELSE ev.ok /\ HB(ev.out) = want[2],
            (IF want[1] = "ok" THEN {"xmd_ok"} ELSE {"xmd_err"}) \cup DstClasses(HB(ev.dst))
            \cup (IF ev.len \in {1, 31, 32, 33, 63, 64, 65} THEN {"xmd_len_edge"} ELSE {}) \cup (IF ev.len \in {8160, 8161} THEN {"xmd_ell_max"} ELSE {})
            \cup (IF Has(ev, "vector") /\ ev.vector THEN {"xmd_vector"} ELSE {}) >>
    [] ev.ev = "h2c.Swu" ->
         LET u == H(ev.u)  want == MapToCurveSwuD(u) IN
         << IntIsHex(want[1], W, ev.x) /\ IntIsHex(want[2], W, ev.y) /\ MapToCurveSwuAlg(u) = want
              /\ BigEq(FSqr(want[2]), GPrime(want[1])),
            {"swu_ok"} \cup UClasses(u) >>
    [] ev.ev = "h2c.Iso" ->
         LET xp == H(ev.x)  yp == H(ev.y)  want == IsoMapD(xp, yp) IN
         << IF IsInf(want) THEN ev.flag = 0
            ELSE ev.flag = 1 /\ IntIsHex(want[1], W, ev.ox) /\ IntIsHex(want[2], W, ev.oy)
                 /\ (BigEq(FSqr(yp), GPrime(xp)) => OnCurveXY(want[1], want[2])),     \* the isogeny maps E' onto E
            IF IsInf(want) THEN {"iso_exceptional"} ELSE {"iso_ok"} >>

Init == tl = 1 /\ tBad = 0 /\ tCnt = [k \in Classes \cup {"_any"} |-> 0]

Step ==
  /\ tl <= NLog
  /\ LET ev == Log[tl]
         v  == Verdict(ev)
     IN  /\ tBad' = IF v[1] THEN tBad ELSE tBad + 1
         /\ (IF v[1] THEN TRUE ELSE Mismatch(tl, ev))
         /\ tCnt' = BumpAll(tCnt, v[2])
  /\ tl' = tl + 1

Finish == tl = NLog + 1 /\ Done(tl, tBad, tCnt) /\ tl' = tl + 1 /\ UNCHANGED <<tBad, tCnt>>

Next == Step \/ Finish
Spec == Init /\ [][Next]_<<tl, tBad, tCnt>>
=============================================================================
