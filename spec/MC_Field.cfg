INIT Init
NEXT Next
INVARIANT PairInv
INVARIANT WideInv
CHECK_DEADLOCK FALSE
