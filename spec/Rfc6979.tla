--------------------------------- MODULE Rfc6979 ---------------------------------
(***************************************************************************)
(* RFC 6979 section 3.2 HMAC_DRBG (SHA-256, qlen = hlen = 256) as a state  *)
(* machine: state <<K, V, needUpdate>>.  Read delivers one 32-byte T and   *)
(* DEFERS step h.3's K/V update to the next Read (as drbgRFC6979 does); an *)
(* eager formulation is given as well and MC/trace checks relate them.     *)
(***************************************************************************)
EXTENDS Hash, Integers, Sequences

(* steps b-g: x and h1 are 32-byte strings int2octets(x), bits2octets(h1) *)
DrbgInit(x, h1) ==
  LET v0 == Rep(1, 32)
      k0 == Rep(0, 32)
      k1 == HmacSha256(k0, v0 \o <<0>> \o x \o h1)
      v1 == HmacSha256(k1, v0)
      k2 == HmacSha256(k1, v1 \o <<1>> \o x \o h1)
      v2 == HmacSha256(k2, v1)
  IN  [k |-> k2, v |-> v2, needUpdate |-> FALSE]

(* one Read: <<state', T>> *)
DrbgRead(st) ==
  LET k1 == IF st.needUpdate THEN HmacSha256(st.k, st.v \o <<0>>) ELSE st.k       \* deferred K = HMAC_K(V || 0x00)
      v1 == IF st.needUpdate THEN HmacSha256(k1, st.v) ELSE st.v                  \*          V = HMAC_K(V)
      v2 == HmacSha256(k1, v1)                                                    \* h.2: V = HMAC_K(V); T = V
  IN  <<[k |-> k1, v |-> v2, needUpdate |-> TRUE], v2>>

(* the i-th candidate (i >= 1), by the RFC's own (eager) formulation: after each rejected candidate      *)
(* K = HMAC_K(V || 0x00); V = HMAC_K(V), then V = HMAC_K(V) again to produce T                           *)
RECURSIVE EagerCandidate(_, _, _)
EagerCandidate(k, v, i) ==
  LET t == HmacSha256(k, v) IN
  IF i = 1 THEN t
  ELSE LET k2 == HmacSha256(k, t \o <<0>>)  v2 == HmacSha256(k2, t) IN EagerCandidate(k2, v2, i - 1)
Candidate(x, h1, i) == LET st == DrbgInit(x, h1) IN EagerCandidate(st.k, st.v, i)
=============================================================================
