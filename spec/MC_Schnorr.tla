-------------------------------- MODULE MC_Schnorr --------------------------------
(***************************************************************************)
(* Pipeline A for C13 / C14 on a miniature curve (challenge e ranges over  *)
(* ALL of Z_n: the hash is a free input at this level).                    *)
(*  verify: for ALL x-only keys (liftable or not, below or above p), ALL   *)
(*          r in [0, 2^8W), s in [0, n+4), e: the BIP-340 check accepts    *)
(*          exactly when some nonce k with even-y R = kG, x(R) = r gives   *)
(*          s = k + e d (d the even-y secret of the key);                  *)
(*  sign  : for ALL d0, k0, e: the signature produced verifies, d and k    *)
(*          are negated exactly by the parities of P and R;                *)
(*  keys  : lift_x accepts exactly the on-curve x below p and returns the  *)
(*          even-y point; XOnly of any point is that point.                *)
(***************************************************************************)
EXTENDS Schnorr, TLC, FiniteSets

VARIABLES mKind, mX, mE

Bug == IF "VERIF_BUG" \in DOMAIN IOEnv THEN IOEnv.VERIF_BUG ELSE "none"      \* a deliberately wrong design, selected by the orchestrator for non-vacuity runs
(* non-vacuity: verification that forgets the parity of R / accepts s >= n by reducing it *)
VerifyUT(Mul(_, _), pp, r, s, e) ==
  CASE Bug = "odd_R_accepted" ->
         /\ r < P /\ s < N
         /\ LET rr == PAdd(Mul(s, GenPt), Mul(SNeg(e), pp)) IN ~IsInf(rr) /\ rr[1] = r
    [] Bug = "s_reduced" -> r < P /\ VerifyCoreM(Mul, pp, r, s % N, e)
    [] OTHER -> VerifyCoreM(Mul, pp, r, s, e)
(* ... and signing that forgets to negate the nonce when R has odd y *)
SignUT(Mul(_, _), d, k0, Ch(_)) ==
  LET sg == SignCoreM(Mul, d, k0, Ch) IN
  IF Bug = "sign_no_negate_k" THEN <<sg[1], (k0 + Ch(sg[1]) * sg[3]) % N, sg[3], sg[4]>> ELSE sg

ZN   == 0..(N - 1)
FP   == 0..(P - 1)
Aff  == TLCEval({<<x, y>> \in FP \X FP : (y * y) % P = (x * x * x + B) % P})
Pts  == TLCEval(Aff \cup {Inf})
GT   == TLCEval([k \in ZN |-> PMulG(k)])
LogT == TLCEval([a \in Pts |-> CHOOSE k \in ZN : GT[k] = a])
TMul(k, a) == GT[(k * LogT[a]) % N]
XMax == IF W = 1 THEN 255 ELSE P + 3

Init == mKind \in {"verify", "sign", "keys"} /\ mX = -1 /\ mE = -1
Next == \/ mX = -1 /\ mX' \in (IF mKind = "sign" THEN 1..(N - 1) ELSE 0..XMax) /\ UNCHANGED <<mKind, mE>>
        \/ mX # -1 /\ mE = -1 /\ mE' \in (IF mKind = "keys" THEN {0} ELSE ZN) /\ UNCHANGED <<mKind, mX>>
Leaf == mX # -1 /\ mE # -1

KeysInv == Leaf /\ mKind = "keys" =>
  LET l == LiftXEven(mX) IN
  /\ l[1] <=> (mX < P /\ \E a \in Aff : a[1] = mX)
  /\ l[1] => l[2] \in Aff /\ l[2][1] = mX /\ l[2][2] % 2 = 0
  /\ \A a \in Aff : a[1] = mX => XOnly(a) = l[2] /\ XOnly(a) \in {a, PNeg(a)}

VerifyInv == Leaf /\ mKind = "verify" =>
  LET l == LiftXEven(mX) IN
  l[1] =>
    LET pp == l[2]  d == LogT[pp] IN
    \A r \in 0..XMax, s \in 0..(N + 3) :
      LET byDef == /\ r < P /\ s < N
                   /\ \E k \in 1..(N - 1) : GT[k][1] = r /\ GT[k][2] % 2 = 0 /\ s = (k + mE * d) % N
      IN  VerifyUT(TMul, pp, r, s, mE) <=> byDef

SignInv == Leaf /\ mKind = "sign" =>
  \A k0 \in 1..(N - 1) :
    LET sg == SignUT(TMul, mX, k0, LAMBDA x : mE)
        pp == XOnly(GT[mX]) IN
    /\ VerifyCoreM(TMul, pp, sg[1], sg[2], mE)
    /\ GT[sg[3]] = pp /\ sg[3] \in {mX, (N - mX) % N}
    /\ GT[sg[4]][1] = sg[1] /\ GT[sg[4]][2] % 2 = 0 /\ sg[4] \in {k0, (N - k0) % N}
=============================================================================
