INIT Init
NEXT Next
INVARIANT TableInv
INVARIANT VerifyInv
INVARIANT SignInv
INVARIANT RecoverInv
INVARIANT EcdhInv
CHECK_DEADLOCK FALSE
