--------------------------------- MODULE MC_Sec1 ---------------------------------
(***************************************************************************)
(* Pipeline A for C06 on a miniature curve with one-byte coordinates       *)
(* (p in {163, 211}: n < p < 2^8 < 2n, so a byte can be >= p exactly as a   *)
(* 32-byte string can be >= p on the real curve):                           *)
(* for EVERY byte string of length 0..2W+1 (all 256 prefixes for the        *)
(* compressed length, the prefixes 0,2,3,4,6,7,255 for the uncompressed     *)
(* length) the declarative decoder of Sec1.tla accepts exactly the image    *)
(* of the encoders, decode/encode are mutually inverse, every point has     *)
(* exactly one encoding per format, and the step-by-step algorithm of       *)
(* point_s11n.go (A-level, below) refines it, writing its receiver only on  *)
(* success.  RecoverPoint is checked for all (x mod n, id in 0..255).       *)
(***************************************************************************)
EXTENDS Sec1, TLC, FiniteSets

VARIABLES mB, mRcv, mPhase

Bug == IF "VERIF_BUG" \in DOMAIN IOEnv THEN IOEnv.VERIF_BUG ELSE "none"      \* a deliberately wrong design, selected by the orchestrator for non-vacuity runs

FP    == 0..(P - 1)
Aff   == TLCEval({<<x, y>> \in FP \X FP : (y * y) % P = (x * x * x + B) % P})
Pts   == TLCEval(Aff \cup {Inf})
EncC  == TLCEval({EncCompressedB(a) : a \in Pts})
EncU  == TLCEval({EncUncompressedB(a) : a \in Pts})
EncAll == TLCEval(EncC \cup EncU)
Byte  == 0..255
UPfx  == IF IOEnv.VERIF_MCFULL = "1" THEN {0, 2, 3, 4, 6, 7, 255} ELSE {4, 6}

(* A-level: SetBytes / SetCompressedBytes / SetUncompressedBytes as coded; returns <<ok, receiver'>> *)
SqrtAlgP(a) == LET r == ModPow(a, (P + 1) \div 4, P) IN IF (r * r) % P = a % P THEN <<r, 1>> ELSE <<0, 0>>
SetCompressedAlg(v, src) ==
  IF Len(src) # W + 1 THEN <<FALSE, v>>
  ELSE IF (IF Bug = "prefix_flag" THEN (src[1] \div 2) % 2 = 0 ELSE src[1] \notin {2, 3}) THEN <<FALSE, v>>      \* (bug: the prefix tested as a flag bit)
  ELSE LET x == OS2IP(SubSeq(src, 2, W + 1)) IN
       IF x >= P THEN <<FALSE, v>>                                   \* canonical decode of x
       ELSE LET s == SqrtAlgP(FAdd(FMul(FSqr(x), x), B)) IN
            IF s[2] # 1 THEN <<FALSE, IF Bug = "stale_receiver" THEN "clobbered" ELSE v>>                        \* (bug: x decoded into the receiver first)
            ELSE LET y == s[1]  tagEq == (y % 2) = (src[1] % 2) IN
                 <<TRUE, <<x, IF tagEq THEN y ELSE FNeg(y)>>>>
SetUncompressedAlg(v, src) ==
  IF Len(src) # 2 * W + 1 THEN <<FALSE, v>>
  ELSE IF src[1] # 4 THEN <<FALSE, v>>
  ELSE LET x == OS2IP(SubSeq(src, 2, W + 1))  y == OS2IP(SubSeq(src, W + 2, 2 * W + 1)) IN
       IF x >= P \/ y >= P THEN <<FALSE, v>>
       ELSE IF FAdd(FMul(FSqr(x), x), B) # FSqr(y) THEN <<FALSE, v>>
       ELSE <<TRUE, <<x, y>>>>
SetBytesAlg(v, src) ==
  CASE Len(src) = 1         -> (IF src[1] = 0 THEN <<TRUE, Inf>> ELSE <<FALSE, v>>)
    [] Len(src) = W + 1     -> SetCompressedAlg(v, src)
    [] Len(src) = 2 * W + 1 -> SetUncompressedAlg(v, src)
    [] OTHER                -> <<FALSE, v>>

(* RecoverPoint as coded: x = xs (+ n); the sanity check re-reduces x mod n and compares flag and value *)
RecoverAlg(xs, id) ==
  IF id >= 4 THEN <<"err">>
  ELSE LET hi  == (id \div 2) % 2
           xfe == IF hi = 1 THEN FAdd(xs, N % P) ELSE xs            \* field addition: may wrap mod p
           red == SDecode(xfe)                                      \* NewScalarFromBytes(xFe.Bytes())
       IN  IF Bug # "recover_no_overflow_check" /\ ~(red[2] = hi /\ red[1] = xs) THEN <<"err">>
           ELSE LET d == SetCompressedAlg("none", <<2 + (id % 2)>> \o I2OSP(xfe, W)) IN
                IF d[1] THEN <<"ok", d[2]>> ELSE <<"err">>

Init == /\ mPhase = 0 /\ mRcv = "junk"
        /\ mB \in {<<>>} \cup {<<x>> : x \in Byte}
Next == /\ mPhase = 0 /\ mPhase' = 1 /\ mRcv' = mRcv
        /\ Len(mB) = 1
        /\ \/ mB' \in {mB \o <<x>> : x \in Byte}
           \/ mB[1] \in UPfx /\ mB' \in {mB \o <<x, y>> : x \in Byte, y \in Byte}

DecodeInv ==
  LET d == DecodeB(mB)  alg == SetBytesAlg(mRcv, mB) IN
  /\ (d[1] = "ok") <=> (mB \in EncAll)                         \* accepts exactly the image of the encoders
  /\ (d[1] = "ok") => /\ d[2] \in Pts
                      /\ mB \in {EncCompressedB(d[2]), EncUncompressedB(d[2])}   \* decode-then-encode (same format)
                      /\ alg = <<TRUE, d[2]>>
  /\ (d[1] = "err") => alg = <<FALSE, mRcv>>                           \* receiver untouched on every failure path
  /\ SetCompressedAlg(mRcv, mB) = (IF DecodeCompressedB(mB)[1] = "ok" THEN <<TRUE, DecodeCompressedB(mB)[2]>> ELSE <<FALSE, mRcv>>)
  /\ SetUncompressedAlg(mRcv, mB) = (IF DecodeUncompressedB(mB)[1] = "ok" THEN <<TRUE, DecodeUncompressedB(mB)[2]>> ELSE <<FALSE, mRcv>>)

BijectionInv == mPhase = 0 /\ mB = <<>> =>
  /\ Cardinality(Pts) = N
  /\ Cardinality(EncC) = N /\ Cardinality(EncU) = N                   \* one encoding per point per format
  /\ \A a \in Pts : DecodeB(EncCompressedB(a)) = <<"ok", a>> /\ DecodeB(EncUncompressedB(a)) = <<"ok", a>>
  /\ \A xs \in 0..(N - 1), id \in 0..255 :
       LET d == RecoverPointD(xs, id) IN
       /\ RecoverAlg(xs, id) = d
       /\ (d[1] = "ok") => /\ d[2] \in Aff /\ d[2][1] % N = xs /\ d[2][2] % 2 = id % 2 /\ id < 4
                           /\ (d[2][1] >= N <=> id >= 2)
       /\ (d[1] = "err" /\ id < 4) => ~\E a \in Aff : a[1] = xs + N * (id \div 2) /\ a[2] % 2 = id % 2

ASSUME N < P /\ P < 256 /\ 256 < 2 * N /\ W = 1
=============================================================================
