------------------------------ MODULE Trace_Wire ------------------------------
(***************************************************************************)
(* C12 — trace specification for the wire-format parsers and builders at   *)
(* full size.  Every verdict is computed by the grammar predicates of      *)
(* Wire.tla on the logged BYTES (independently of how the harness built    *)
(* them); no parser may panic.                                             *)
(***************************************************************************)
EXTENDS TraceBase, Wire

VARIABLES tl, tBad, tCnt

H(s)  == HexToInt(s)
HB(s) == HexToBytes(s)

Classes == {"der_ok", "der_bad", "der_len_long_form", "der_indefinite", "der_leading_zero", "der_negative", "der_trailing",
            "der_wrong_tag", "der_empty_int", "der_33_byte", "der_value_zero", "der_value_ge_n", "der_short_input",
            "build_roundtrip", "build_high_bit", "build_short",
            "cmp_ok", "cmp_bad_len", "cmp_zero", "cmp_ge_n", "cmpv_ok", "spki_prefix_sweep",
            "bip_ok", "bip_len_edge", "bip_bad", "bip_but_not_der", "bip_neg", "bip_len_wide", "bip_padding",
            "spki_ok_unc", "spki_ok_cmp", "spki_unused_bits", "spki_unused_bits_zero_pad", "spki_bad_oid", "spki_trailing",
            "spki_bad_point", "spki_identity", "spki_params", "spki_bad", "random_bytes", "model_sig_shape", "model_spki_shape", "enc_stable"}

DerClasses(b, d) ==
  (IF d[1] = "ok" THEN {"der_ok"} ELSE {"der_bad"})
  \cup (IF Len(b) < 8 THEN {"der_short_input"} ELSE {})
  \cup (IF Len(b) >= 2 /\ b[1] = 48 /\ b[2] \in {129, 130} THEN {"der_len_long_form"} ELSE {})
  \cup (IF Len(b) >= 2 /\ b[1] = 48 /\ b[2] = 128 THEN {"der_indefinite"} ELSE {})
  \cup (IF Len(b) >= 1 /\ b[1] # 48 THEN {"der_wrong_tag"} ELSE {})
  \cup (IF Len(b) >= 6 /\ b[1] = 48 /\ b[2] = Len(b) - 2 /\ b[3] = 2 /\ b[4] >= 1 /\ 4 + b[4] <= Len(b) THEN
          (IF b[5] >= 128 THEN {"der_negative"} ELSE {})
          \cup (IF b[4] > 1 /\ b[5] = 0 /\ b[6] < 128 THEN {"der_leading_zero"} ELSE {})
          \cup (IF b[4] > W /\ ~(b[4] = W + 1 /\ b[5] = 0) THEN {"der_33_byte"} ELSE {})
          \cup (IF d[1] = "err" /\ b[4] <= W + 1 /\ MinimalPosInt(SubSeq(b, 5, 4 + b[4])) /\ BigEq(OS2IP(SubSeq(b, 5, 4 + b[4])), 0) THEN {"der_value_zero"} ELSE {})
          \cup (IF d[1] = "err" /\ b[4] <= W + 1 /\ MinimalPosInt(SubSeq(b, 5, 4 + b[4])) /\ (N \preceq OS2IP(SubSeq(b, 5, 4 + b[4]))) THEN {"der_value_ge_n"} ELSE {})
        ELSE {})
  \cup (IF Len(b) >= 4 /\ b[1] = 48 /\ b[3] = 2 /\ b[4] = 0 THEN {"der_empty_int"} ELSE {})
  \cup (IF Len(b) >= 3 /\ b[1] = 48 /\ b[2] < 128 /\ b[2] # Len(b) - 2 THEN {"der_trailing"} ELSE {})

Verdict(ev) ==
  CASE ev.ev = "lib.Unexpected" -> << FALSE, {} >>                 \* a call that must succeed failed or panicked
    [] ev.ev = "der.Parse" ->
         LET b == HB(ev["in"])  d == ParseDerSig(b) IN
         << ~ev.panic
            /\ IF d[1] = "ok" THEN ev.ok /\ IntIsHex(d[2], W, ev.r) /\ IntIsHex(d[3], W, ev.s) /\ ev.rebuilt = ev["in"]   \* parse-then-build
                              ELSE ~ev.ok,
            DerClasses(b, d) \cup (IF Has(ev, "random") /\ ev.random THEN {"random_bytes"} ELSE {})
            \cup (IF Has(ev, "cls") THEN {ev.cls} ELSE {}) >>
    [] ev.ev = "der.Build" ->
         LET r == H(ev.r)  s == H(ev.s)  want == BuildDerSig(r, s) IN
         << HB(ev.out) = want /\ ParseDerSig(want) = <<"ok", r, s>> /\ ev.reparsed,                                        \* build-then-parse
            {"build_roundtrip"} \cup (IF ~(r \prec Pow2(8 * W - 1)) \/ ~(s \prec Pow2(8 * W - 1)) THEN {"build_high_bit"} ELSE {})
            \cup (IF (r \prec Pow2(8 * W - 16)) \/ (s \prec Pow2(8 * W - 16)) THEN {"build_short"} ELSE {}) >>
    [] ev.ev = "cmp.Parse" ->
         LET b == HB(ev["in"])  d == ParseCompact(b, ev.withv) IN
         << ~ev.panic
            /\ IF d[1] = "ok" THEN /\ ev.ok /\ IntIsHex(d[2], W, ev.r) /\ IntIsHex(d[3], W, ev.s) /\ ev.rebuilt = ev["in"]
                                   /\ (ev.withv => ev.v = d[4])
                              ELSE ~ev.ok,
            (IF d[1] = "ok" THEN (IF ev.withv THEN {"cmpv_ok"} ELSE {"cmp_ok"}) ELSE {})
            \cup (IF Len(b) # 2 * W + (IF ev.withv THEN 1 ELSE 0) THEN {"cmp_bad_len"} ELSE
                    (IF BigEq(OS2IP(SubSeq(b, 1, W)), 0) \/ BigEq(OS2IP(SubSeq(b, W + 1, 2 * W)), 0) THEN {"cmp_zero"} ELSE {})
                    \cup (IF (N \preceq OS2IP(SubSeq(b, 1, W))) \/ (N \preceq OS2IP(SubSeq(b, W + 1, 2 * W))) THEN {"cmp_ge_n"} ELSE {})) >>
    [] ev.ev = "bip66" ->
         LET b == HB(ev["in"])  want == IsBip66(b) IN
         << ~ev.panic /\ (ev.out <=> want) /\ (want <=> Bip66Alg(b)),
            (IF want THEN {"bip_ok"} ELSE {"bip_bad"}) \cup (IF Len(b) \in {8, 9, 73, 74} THEN {"bip_len_edge"} ELSE {})
            \cup (IF want /\ ParseDerSig(SubSeq(b, 1, Len(b) - 1))[1] = "err" THEN {"bip_but_not_der"} ELSE {})
            \cup (IF ~want /\ Len(b) >= 9 /\ b[5] >= 128 THEN {"bip_neg"} ELSE {})
            \cup (IF Len(b) >= 9 /\ (b[2] >= 128 \/ b[4] >= 128 \/ b[Len(b)] >= 240) THEN {"bip_len_wide"} ELSE {})
            \cup (IF ~want /\ Len(b) >= 9 /\ b[4] > 1 /\ b[5] = 0 /\ b[6] < 128 THEN {"bip_padding"} ELSE {}) >>
    [] ev.ev = "sig.Stable" -> << ev.now = ev.then, {"enc_stable"} >>       \* an encoding handed out earlier is untouched by later encoding calls
    [] ev.ev = "spki.Parse" ->
         LET b == HB(ev["in"])  d == ParseSpki(b) IN
         << ~ev.panic
            /\ IF d[1] = "ok" THEN /\ ev.ok /\ ev.unc = EncUncompressedH(d[2])
                                   /\ HB(ev.rebuilt) = BuildSpki(EncUncompressedB(d[2]))
                                   /\ (Len(b) = Len(BuildSpki(EncUncompressedB(d[2]))) => ev.rebuilt = ev["in"])   \* re-encoding an uncompressed key reproduces the input
                                   /\ (Has(ev, "unc2") => ev.unc2 = ev.unc /\ ev.reb2 = ev.rebuilt /\ ev.pt2 = ev.unc)  \* ... and the key does not move when the caller reuses its buffers
                              ELSE ~ev.ok,
            (IF d[1] = "ok" THEN (IF Len(b) < 60 THEN {"spki_ok_cmp"} ELSE {"spki_ok_unc"}) ELSE {"spki_bad"})
            \cup (IF Has(ev, "cls") THEN {ev.cls} ELSE {}) >>

Init == tl = 1 /\ tBad = 0 /\ tCnt = [k \in Classes \cup {"_any"} |-> 0]

Step ==
  /\ tl <= NLog
  /\ LET ev == Log[tl]
         v  == Verdict(ev)
     IN  /\ tBad' = IF v[1] THEN tBad ELSE tBad + 1
         /\ (IF v[1] THEN TRUE ELSE Mismatch(tl, ev))
         /\ tCnt' = BumpAll(tCnt, v[2] \cap Classes)
  /\ tl' = tl + 1

Finish == tl = NLog + 1 /\ Done(tl, tBad, tCnt) /\ tl' = tl + 1 /\ UNCHANGED <<tBad, tCnt>>

Next == Step \/ Finish
Spec == Init /\ [][Next]_<<tl, tBad, tCnt>>
=============================================================================
