-------------------------------- MODULE Trace_CT --------------------------------
(***************************************************************************)
(* C17 — trace specification for the observations of secret-handling       *)
(* operations.  The harness (a coverage-instrumented build,                *)
(* -covermode=atomic over all packages of the module) clears the block     *)
(* counters, performs ONE call, and snapshots them; `obs` is the digest of *)
(* the per-function counter payload.  State: `seen[op, pub]` = the         *)
(* observation of the first secret tried for that operation and public     *)
(* input; every later secret must give the SAME observation (CT!           *)
(* ConstantTime).  The variable-time twins are logged as negative controls *)
(* and must be distinguishable somewhere (CT!ObserverNotBlind).  ct.Func   *)
(* events list every function of the module with its coverage after        *)
(* running ONLY the secret-handling operations: a function documented as   *)
(* variable-time (name contains "Vartime") must not have been entered.     *)
(***************************************************************************)
EXTENDS TraceBase, FiniteSets

VARIABLES tl, tBad, tCnt, seen, ctl

Classes == {"obs_first", "obs_same", "secret_zero", "secret_zero_heavy", "secret_f_heavy", "secret_one", "secret_nm1", "secret_random", "secret_neg_half",
            "secret_pos_half", "secret_odd_y", "secret_even_y", "control_differs", "func_ct_covered", "func_vartime_unreached",
            "build_asm", "build_purego", "op_field", "op_scalar", "op_mult", "op_basemult", "op_msm", "op_key", "op_ecdh", "op_sign", "op_schnorr"}

(* <<ok, classes, seen', ctl'>> *)
V(ev) ==
  CASE ev.ev = "lib.Unexpected" -> << FALSE, {}, seen, ctl >>   \* a call that must succeed failed or panicked
    [] ev.ev = "ct.Obs" ->
         LET k == <<ev.build, ev.op, ev.pub>>
             cl == ({"secret_" \o ev.cls, "op_" \o ev.group, "build_" \o ev.build}) \cap Classes IN
         IF ev.control
         THEN << TRUE, {}, seen, IF k \in DOMAIN ctl THEN [ctl EXCEPT ![k] = @ \cup {ev.obs}] ELSE ctl @@ (k :> {ev.obs}) >>
         ELSE IF k \in DOMAIN seen
              THEN << seen[k] = ev.obs, cl \cup {"obs_same"}, seen, ctl >>
              ELSE << TRUE, cl \cup {"obs_first"}, seen @@ (k :> ev.obs), ctl >>
    [] ev.ev = "ct.Func" ->
         << ev.vartime => ~ev.covered,
            (IF ev.vartime /\ ~ev.covered THEN {"func_vartime_unreached"} ELSE {}) \cup (IF ~ev.vartime /\ ev.covered THEN {"func_ct_covered"} ELSE {}),
            seen, ctl >>

Init == tl = 1 /\ tBad = 0 /\ tCnt = [k \in Classes \cup {"_any"} |-> 0] /\ seen = <<>> /\ ctl = <<>>

Step ==
  /\ tl <= NLog
  /\ LET ev == Log[tl]  v == V(ev) IN
     /\ tBad' = IF v[1] THEN tBad ELSE tBad + 1
     /\ (IF v[1] THEN TRUE ELSE Mismatch(tl, ev))
     /\ tCnt' = BumpAll(tCnt, v[2])
     /\ seen' = v[3] /\ ctl' = v[4]
  /\ tl' = tl + 1

Finish == /\ tl = NLog + 1
          /\ Done(tl, tBad, [tCnt EXCEPT !["control_differs"] = Cardinality({k \in DOMAIN ctl : Cardinality(ctl[k]) > 1})])
          /\ tl' = tl + 1 /\ UNCHANGED <<tBad, tCnt, seen, ctl>>

Next == Step \/ Finish
Spec == Init /\ [][Next]_<<tl, tBad, tCnt, seen, ctl>>
=============================================================================
