------------------------------- MODULE TraceBase -------------------------------
(***************************************************************************)
(* Common machinery of the trace specifications (pipeline B).              *)
(*                                                                         *)
(* The Go harness logs one ndjson event per call into the real code.  A    *)
(* trace specification consumes the log one line per step; at every step   *)
(* TLC evaluates the specification's verdict on that event (the logged     *)
(* reply must be the reply the specification allows for the logged         *)
(* arguments and state).  A step whose event is NOT allowed is recorded as *)
(* a mismatch (and printed) rather than disabling the behaviour, so that   *)
(* the rest of the trace is still examined.  When the log is exhausted a   *)
(* final step prints the totals; the orchestrator accepts the trace iff    *)
(* that line is present with zero mismatches and every targeted corner     *)
(* class was exercised.                                                    *)
(***************************************************************************)
EXTENDS Integers, Sequences, TLC, TLCExt, Json, IOUtils

Log == ndJsonDeserialize(IOEnv.VERIF_TRACE)
NLog == Len(Log)

Has(ev, f) == f \in DOMAIN ev

(* bump the counters of the classes in set cs *)
Bump(cnt, cs) == [k \in DOMAIN cnt |-> IF k \in cs THEN cnt[k] + 1 ELSE cnt[k]]

(* bump plus the bookkeeping key "_any": events that fall in at least one corner class *)
BumpAll(cnt, cs) == Bump(cnt, cs \cup (IF cs = {} THEN {} ELSE {"_any"}))

Mismatch(l, ev)  == PrintT("MISMATCH " \o ToString(l))
Done(l, bad, cnt) == PrintT("TRACE-DONE " \o ToJson([n |-> l - 1, bad |-> bad, cnt |-> cnt]))
=============================================================================
