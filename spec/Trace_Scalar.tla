------------------------------ MODULE Trace_Scalar ------------------------------
(***************************************************************************)
(* C02 — trace specification for the Scalar type (full-size parameters).   *)
(* Every logged call must return what ScalarField.tla says for its         *)
(* arguments; failed canonical decodes must leave the receiver untouched.  *)
(***************************************************************************)
EXTENDS TraceBase, ScalarField

VARIABLES tl, tBad, tCnt, life          \* life: the abstract value of the long-lived object of the lifetime chain (sc.Life)

H(s)      == HexToInt(s)
Is(x, s)  == IntIsHex(x, W, s)
RMont     == TwoW %% N
RInv      == ModInv(RMont, N)
FlagOf(b) == IF b THEN 1 ELSE 0

Classes == {"life_step", "life_zero", "life_reject", "canon_repr", "sum_window", "diff_borrow", "mont_window", "mont_sqr_window", "decode_ge_n", "decode_lt_n",
            "canon_reject", "canon_accept", "inv_zero", "inv_special", "alias_all", "alias_recv",
            "half_boundary", "gt_half", "le_half", "sum_empty", "sum_alias", "sum_long", "sum_fold_window_value", "sum_fold_window_mont", "prod_empty",
            "pow2k_panic", "near_n", "near_zero", "cneg_zero"}

PostsOK(ev) ==
  /\ (ev.alias \in {"none", "r=b", "a=b"}) => ev.a_post = ev.a
  /\ (ev.alias \in {"none", "r=a", "a=b"}) => ev.b_post = ev.b
  /\ (ev.alias \in {"a=b", "r=a=b"}) => ev.a = ev.b
  /\ ev.ret

Near(x) == (x \prec Pow2(34)) \/ ((N -- x) \prec Pow2(34))

AliasClass(ev) == (IF ev.alias = "r=a=b" THEN {"alias_all"} ELSE {})
                  \cup (IF ev.alias \in {"r=a", "r=b"} THEN {"alias_recv"} ELSE {})

VecInts(v) == [i \in 1..Len(v) |-> H(v[i])]
(* the plain integer sum of a vector, and "within 2^132 of a multiple of 2^(8W)": the window in which a sum that defers its reduction has to fold carries *)
RECURSIVE IntSum(_)
IntSum(v) == IF Len(v) = 0 THEN 0 ELSE v[1] ++ IntSum(Tail(v))
NearMult(t) == LET m == t %% TwoW IN ((m \prec Pow2(132)) \/ ((TwoW -- m) \prec Pow2(132)))

(* special inversion arguments named by the property: 1, n-1, small values, powers of two *)
InvSpecial(a) == BigEq(a, 1) \/ BigEq(a, N -- 1) \/ (a \prec 1024)
                 \/ (\E k \in 10..255 : BigEq(a, Pow2(k)))

Verdict(ev) ==
  CASE ev.ev = "lib.Unexpected" -> << FALSE, {} >>                 \* a call that must succeed failed or panicked
    [] ev.ev = "sc.Add" ->
         LET a == H(ev.a) b == H(ev.b) IN
         << Is(SAdd(a, b), ev.out) /\ PostsOK(ev),
            (IF N \preceq (a ++ b) THEN {"sum_window"} ELSE {}) \cup AliasClass(ev)
            \cup (IF Near(a) /\ Near(b) THEN {"near_n"} ELSE {}) >>
    [] ev.ev = "sc.Sub" ->
         LET a == H(ev.a) b == H(ev.b) IN
         << Is(SSub(a, b), ev.out) /\ PostsOK(ev), (IF a \prec b THEN {"diff_borrow"} ELSE {}) \cup AliasClass(ev) >>
    [] ev.ev = "sc.Mul" ->
         LET a == H(ev.a) b == H(ev.b) IN
         << Is(SMul(a, b), ev.out) /\ PostsOK(ev), AliasClass(ev) >>
    [] ev.ev = "sc.Equal" -> << ev.out = FlagOf(BigEq(H(ev.a), H(ev.b))), {} >>
    [] ev.ev = "sc.CSel"  -> << ev.out = (IF ev.c = 0 THEN ev.a ELSE ev.b), {} >>
    [] ev.ev = "sc.CNeg"  -> << Is(IF ev.c = 0 THEN H(ev.a) ELSE SNeg(H(ev.a)), ev.out),
                                IF BigEq(H(ev.a), 0) THEN {"cneg_zero"} ELSE {} >>
    [] ev.ev = "sc.Neg"   -> << Is(SNeg(H(ev.a)), ev.out), AliasClass(ev) >>
    [] ev.ev = "sc.Sqr"   -> << Is(SSqr(H(ev.a)), ev.out), AliasClass(ev) >>
    [] ev.ev = "sc.Inv"   ->
         LET a == H(ev.a) IN
         << Is(SInv(a), ev.out),
            (IF BigEq(a, 0) THEN {"inv_zero"} ELSE {}) \cup (IF InvSpecial(a) THEN {"inv_special"} ELSE {})
            \cup AliasClass(ev) >>
    [] ev.ev \in {"sc.Set", "sc.NewFrom"} -> << Is(H(ev.a), ev.out), {} >>
    [] ev.ev = "sc.FromUint64" -> << Is(H(ev["in"]), ev.out), {} >>
    [] ev.ev = "sc.IsZero" -> << ev.out = FlagOf(BigEq(H(ev.a), 0)), IF BigEq(H(ev.a), 0) THEN {"near_zero"} ELSE {} >>
    [] ev.ev = "sc.IsGtHalf" ->
         LET a == H(ev.a)
             d == IF HalfN \prec a THEN a -- HalfN ELSE HalfN -- a IN
         << ev.out = FlagOf(SGreaterThanHalfN(a)),
            (IF d \prec 4 THEN {"half_boundary"} ELSE {}) \cup (IF ev.out = 1 THEN {"gt_half"} ELSE {"le_half"}) >>
    [] ev.ev = "sc.Pow2k" ->
         << IF ev.k = 0 THEN ev.panic ELSE (~ev.panic /\ Is(SPow2k(H(ev.a), ev.k), ev.out)),
            IF ev.k = 0 THEN {"pow2k_panic"} ELSE {} >>
    [] ev.ev = "sc.Sum" ->
         (* recv = index (1-based) of the vector entry that IS the receiver, 0 if none *)
         << Is(SSum(VecInts(ev.vec)), ev.out) /\ ev.vec_post = [i \in 1..Len(ev.vec) |-> IF i = ev.recv THEN ev.out ELSE ev.vec[i]],
            (IF Len(ev.vec) = 0 THEN {"sum_empty"} ELSE {}) \cup (IF ev.recv > 0 \/ ev.dup THEN {"sum_alias"} ELSE {})
            \cup (IF Len(ev.vec) >= 4 THEN {"sum_long"} ELSE {})
            \cup (IF Len(ev.vec) >= 3 /\ NearMult(IntSum(VecInts(ev.vec))) THEN {"sum_fold_window_value"} ELSE {})
            \cup (IF Len(ev.vec) >= 3 /\ NearMult(IntSum([i \in 1..Len(ev.vec) |-> (H(ev.vec[i]) ** TwoW) %% N])) THEN {"sum_fold_window_mont"} ELSE {}) >>
    [] ev.ev = "sc.Product" ->
         << Is(SProduct(VecInts(ev.vec)), ev.out) /\ ev.vec_post = [i \in 1..Len(ev.vec) |-> IF i = ev.recv THEN ev.out ELSE ev.vec[i]],
            (IF Len(ev.vec) = 0 THEN {"prod_empty"} ELSE {}) \cup (IF ev.recv > 0 \/ ev.dup THEN {"sum_alias"} ELSE {}) >>
    [] ev.ev \in {"sc.SetBytes", "sc.NewFromBytes", "sc.ReduceSat"} ->
         LET d == SDecode(H(ev["in"])) IN
         << Is(d[1], ev.out) /\ ev.flag = d[2] /\ HexLen(ev["in"]) = W,
            IF d[2] = 1 THEN {"decode_ge_n"} ELSE {"decode_lt_n"} >>
    [] ev.ev = "sc.SetCanonical" ->
         LET d == SDecodeCanonical(H(ev["in"])) IN
         << IF d[1] = "ok" THEN ev.ok /\ ~ev.retnil /\ ev.post = ev["in"]
                           ELSE ~ev.ok /\ ev.retnil /\ ev.post = ev.pre,
            IF d[1] = "ok" THEN {"canon_accept"} ELSE {"canon_reject"} >>
    [] ev.ev = "sc.NewFromCanonical" ->
         LET d == SDecodeCanonical(H(ev["in"])) IN
         << IF d[1] = "ok" THEN ev.ok /\ ~ev.retnil /\ ev.out = ev["in"] ELSE ~ev.ok /\ ev.retnil, {} >>
    [] ev.ev = "sc.Canon" ->        \* internal representation: the limbs hold the canonical residue v*R, so the predicates agree with the encoding
         << IntIsHex(SMul(H(ev.v), RMont), W, ev.mont) /\ ev.iszero = FlagOf(BigEq(H(ev.v), 0)) /\ ev.eq_fresh = 1, {"canon_repr"} >>
    [] ev.ev = "sc.Zero" -> << Is(0, ev.out), {} >>
    [] ev.ev = "sc.One"  -> << Is(1, ev.out), {} >>
    [] ev.ev = "sc.Const" ->
         << CASE ev.name = "halfn" -> Is(HalfN, ev.out)
              [] ev.name = "nsat"  -> Is(N, ev.out), {} >>
    (* raw fiat entry points, operands are Montgomery-domain residues x = X*R mod n *)
    [] ev.ev = "smont.Mul" ->
         LET a == H(ev.a) b == H(ev.b) r == ((a ** b) ** RInv) %% N IN
         << Is(r, ev.out), IF (r ** TwoW) \prec (a ** b) THEN {"mont_window"} ELSE {} >>
    [] ev.ev = "smont.Sqr" ->
         LET a == H(ev.a) r == ((a ** a) ** RInv) %% N IN
         << Is(r, ev.out), IF (r ** TwoW) \prec (a ** a) THEN {"mont_sqr_window"} ELSE {} >>
    [] ev.ev = "smont.Add" -> << Is(SAdd(H(ev.a), H(ev.b)), ev.out), {} >>
    [] ev.ev = "smont.Sub" -> << Is(SSub(H(ev.a), H(ev.b)), ev.out), {} >>
    [] ev.ev = "smont.Opp" -> << Is(SNeg(H(ev.a)), ev.out), {} >>
    [] ev.ev = "smont.From" -> << Is(SMul(H(ev.a), RInv), ev.out), {} >>
    [] ev.ev = "smont.To"   -> << Is(SMul(H(ev.a), RMont), ev.out), {} >>
    [] ev.ev = "smont.Nonzero" -> << ev.out = FlagOf(~BigEq(H(ev.a), 0)), {} >>

(* ---- object lifetime (sc.Life, stateful): the expected value of the long-lived object after one more mutation, and what *)
(* every observer (on the object, a fresh copy and a second long-lived object set from it) must then report              *)
LifeWant(cur, ev) ==
  LET a == IF ev.op = "wide" THEN 0 ELSE H(ev.arg) IN
  CASE ev.op = "reset"    -> a
    [] ev.op = "zero"     -> 0
    [] ev.op = "one"      -> 1
    [] ev.op = "add"      -> SAdd(cur, a)
    [] ev.op = "sub"      -> SSub(cur, a)
    [] ev.op = "rsub"     -> SSub(a, cur)
    [] ev.op = "neg"      -> SNeg(cur)
    [] ev.op = "mul"      -> SMul(cur, a)
    [] ev.op = "sq"       -> SMul(cur, cur)
    [] ev.op = "set"      -> a
    [] ev.op = "setbytes" -> a %% N
    [] ev.op = "setcanon" -> IF a \prec N THEN a ELSE cur                    \* a rejected decode leaves the object as it was
    [] ev.op = "cneg"     -> IF ev.ctrl = 0 THEN cur ELSE SNeg(cur)
    [] ev.op = "csel"     -> IF ev.ctrl = 0 THEN cur ELSE a
    [] ev.op = "inv"      -> SInv(cur)
    [] ev.op = "double"   -> SAdd(cur, cur)
    [] ev.op = "sum"      -> SAdd(SAdd(cur, a), cur)
    [] ev.op = "prod"     -> SMul(SMul(cur, a), cur)
    [] ev.op = "setu64"   -> a
    [] ev.op = "inv_from" -> SInv(a)                                          \* receiver distinct from the operand and holding something else
    [] ev.op = "neg_from" -> SNeg(a)
    [] ev.op = "sq_from"  -> SMul(a, a)
    [] ev.op = "cneg_from" -> IF ev.ctrl = 0 THEN a ELSE SNeg(a)
    [] ev.op = "add2"     -> SAdd(a, a)
    [] ev.op = "sub2"     -> SSub(0, a)
    [] ev.op = "mul2"     -> SMul(a, a)
LifeObsOK(ev, want) ==
  /\ (Has(ev, "retself") => ev.retself # 0)                                  \* every mutator returns its receiver
  /\ (Has(ev, "arg_after") /\ ev.arg_after # "" => Is(H(ev.arg), ev.arg_after))   \* and leaves its operand as it was
  /\ Is(want, ev.bytes) /\ ev.bytes_again = ev.bytes /\ ev.copy = ev.bytes /\ ev.other = ev.bytes
  /\ ev.ghalf = FlagOf(SGreaterThanHalfN(want)) /\ ev.copy_ghalf = ev.ghalf /\ ev.other_ghalf = ev.ghalf
  /\ ev.iszero = FlagOf(BigEq(want, 0)) /\ ev.copy_iszero = ev.iszero /\ ev.eqself = 1 /\ ev.eqcopy = 1

Init == tl = 1 /\ tBad = 0 /\ tCnt = [k \in Classes \cup {"_any"} |-> 0] /\ life = IntToHex(0, W)

Step ==
  /\ tl <= NLog
  /\ LET ev == Log[tl] IN
     IF ev.ev = "sc.Life"
     THEN LET want == LifeWant(H(life), ev)  ok == LifeObsOK(ev, want) IN
          /\ tBad' = IF ok THEN tBad ELSE tBad + 1
          /\ (IF ok THEN TRUE ELSE Mismatch(tl, ev))
          /\ tCnt' = BumpAll(tCnt, {"life_step"} \cup (IF ev.op = "zero" THEN {"life_zero"} ELSE {}) \cup (IF ev.op = "setcanon" /\ ~(H(ev.arg) \prec N) THEN {"life_reject"} ELSE {}))
          /\ life' = IntToHex(want, W)
     ELSE LET v == Verdict(ev) IN
          /\ tBad' = IF v[1] THEN tBad ELSE tBad + 1
          /\ (IF v[1] THEN TRUE ELSE Mismatch(tl, ev))
          /\ tCnt' = BumpAll(tCnt, v[2])
          /\ life' = life
  /\ tl' = tl + 1

Finish == tl = NLog + 1 /\ Done(tl, tBad, tCnt) /\ tl' = tl + 1 /\ UNCHANGED <<tBad, tCnt, life>>

Next == Step \/ Finish
Spec == Init /\ [][Next]_<<tl, tBad, tCnt, life>>
=============================================================================
