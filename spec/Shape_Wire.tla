--------------------------------- MODULE Shape_Wire ---------------------------------
(***************************************************************************)
(* Pipeline C for C12: the STRUCTURAL deviations of a DER signature and of *)
(* a SubjectPublicKeyInfo, as a finite shape model.  A shape is a record   *)
(* of choices (tags, length forms, integer forms, trailing bytes, missing  *)
(* elements; unused-bit count, padding, algorithm identifier variants,     *)
(* content class ...).  TLC enumerates the base shape, EVERY single        *)
(* deviation and EVERY pair of deviations in different positions, and      *)
(*  (a) writes them out as skeletons for the Go driver, which builds a     *)
(*      full-size byte string for each and feeds it to the real parsers    *)
(*      (the verdict on those bytes comes from Wire.tla via Trace_Wire);   *)
(*  (b) builds each signature shape at the miniature width itself and      *)
(*      checks against the grammar that a deviating shape is accepted      *)
(*      only when its bytes coincide with the canonical encoding of what   *)
(*      was parsed (no second encoding is ever accepted).                  *)
(***************************************************************************)
EXTENDS Wire, TLC, Json, IOUtils, FiniteSets, SequencesExt

LenForms == {"short", "long81", "long82", "indef", "plus1", "minus1"}
IntForms == {"min", "extra0", "two0", "neg", "empty", "pad"}

TLV(tag, content, lf) ==
  CASE lf = "short"  -> <<tag, Len(content)>> \o content
    [] lf = "long81" -> <<tag, 129, Len(content)>> \o content
    [] lf = "long82" -> <<tag, 130, 0, Len(content)>> \o content
    [] lf = "indef"  -> <<tag, 128>> \o content \o <<0, 0>>
    [] lf = "plus1"  -> <<tag, Len(content) + 1>> \o content
    [] lf = "minus1" -> <<tag, IF Len(content) = 0 THEN 255 ELSE Len(content) - 1>> \o content

IntBodyF(v, f) ==
  LET raw == MinBytes(v)  min == DerIntBody(v) IN
  CASE f = "min"    -> min
    [] f = "extra0" -> <<0>> \o min
    [] f = "two0"   -> <<0, 0>> \o min
    [] f = "neg"    -> IF raw[1] >= 128 THEN raw ELSE <<raw[1] + 128>> \o Tail(raw)
    [] f = "empty"  -> <<>>
    [] f = "pad"    -> [i \in 1..(W + 1 - Len(raw)) |-> 0] \o raw

SigBase == [seqTag |-> 48, seqLen |-> "short", rTag |-> 2, rLen |-> "short", rForm |-> "min",
            sTag |-> 2, sLen |-> "short", sForm |-> "min", trailIn |-> 0, trailOut |-> 0, missingS |-> FALSE]
SigDevs ==
       {<<"seqTag", t>> : t \in {49, 16, 160}}
  \cup {<<f, t>> : f \in {"rTag", "sTag"}, t \in {3, 130}}
  \cup {<<f, lf>> : f \in {"seqLen", "rLen", "sLen"}, lf \in LenForms \ {"short"}}
  \cup {<<f, i>> : f \in {"rForm", "sForm"}, i \in IntForms \ {"min"}}
  \cup {<<f, k>> : f \in {"trailIn", "trailOut"}, k \in {1, 2}}
  \cup {<<"missingS", TRUE>>}
Apply(sh, d) == [sh EXCEPT ![d[1]] = d[2]]
Singles(base, devs) == {Apply(base, d) : d \in devs}
Pairs(base, devs)   == UNION {{Apply(Apply(base, d1), d2) : d2 \in {d \in devs : d[1] # d1[1]}} : d1 \in devs}
SigShapes == {SigBase} \cup Singles(SigBase, SigDevs) \cup Pairs(SigBase, SigDevs)

BuildSigShape(sh, r, s) ==
  LET body0 == TLV(sh.rTag, IntBodyF(r, sh.rForm), sh.rLen)
      body1 == IF sh.missingS THEN body0 ELSE body0 \o TLV(sh.sTag, IntBodyF(s, sh.sForm), sh.sLen)
      body  == body1 \o (CASE sh.trailIn = 0 -> <<>> [] sh.trailIn = 1 -> <<0>> [] OTHER -> <<2, 1, 1>>)
  IN  TLV(sh.seqTag, body, sh.seqLen) \o (CASE sh.trailOut = 0 -> <<>> [] sh.trailOut = 1 -> <<0>> [] OTHER -> <<5, 0>>)

SpkiBase == [unused |-> 0, pad |-> "zero", alg |-> "ok", trailIn |-> 0, trailBits |-> 0, trailOut |-> 0, bitsLen |-> "short", content |-> "unc"]
SpkiDevs ==
       {<<"unused", k>> : k \in 1..8}
  \cup {<<"pad", x>> : x \in {"shift", "nonzero"}}
  \cup {<<"alg", a>> : a \in {"swapped", "wrongcurve", "nonminimal", "dup", "missing", "settag", "long81", "params"}}
  \cup {<<f, 1>> : f \in {"trailIn", "trailBits", "trailOut"}}
  \cup {<<"bitsLen", lf>> : lf \in {"long81", "plus1", "minus1", "indef"}}
  \cup {<<"content", x>> : x \in {"cmp", "badpoint", "hybrid", "short", "identity", "noncanon"}}
SpkiShapes == {SpkiBase} \cup Singles(SpkiBase, SpkiDevs) \cup Pairs(SpkiBase, SpkiDevs)

(* (b) at the miniature width: a deviating signature shape is accepted only if it IS the canonical encoding *)
Vals == {1, 5, 127, 128, N - 1}
NoSecondEncoding ==
  \A sh \in SigShapes : \A r \in Vals, s \in Vals :
    LET b == BuildSigShape(sh, r, s)  d == ParseDerSig(b) IN
    (d[1] = "ok") => (b = BuildDerSig(d[2], d[3]))
BaseAccepted == \A r \in Vals, s \in Vals : ParseDerSig(BuildSigShape(SigBase, r, s)) = <<"ok", r, s>>
(* the deviations that are rejected for EVERY value pair (the others coincide with a canonical encoding for some values) *)
AlwaysRejected == {sh \in SigShapes : \A r \in Vals, s \in Vals : ParseDerSig(BuildSigShape(sh, r, s))[1] = "err"}

ASSUME PrintT(<<"SHAPES", "sig", Cardinality(SigShapes), "spki", Cardinality(SpkiShapes), "always_rejected_sig", Cardinality(AlwaysRejected)>>)
ASSUME BaseAccepted
ASSUME NoSecondEncoding
ASSUME IF "VERIF_SKEL_DIR" \in DOMAIN IOEnv
       THEN /\ ndJsonSerialize(IOEnv.VERIF_SKEL_DIR \o "/sig-shapes.ndjson", SetToSeq(SigShapes))
            /\ ndJsonSerialize(IOEnv.VERIF_SKEL_DIR \o "/spki-shapes.ndjson", SetToSeq(SpkiShapes))
       ELSE TRUE

VARIABLE mX
Init == mX = 0
Next == UNCHANGED mX
=============================================================================
