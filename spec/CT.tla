------------------------------------ MODULE CT ------------------------------------
(***************************************************************************)
(* C17 — what "secret-independent control flow and lookups" means, as a    *)
(* relation on OBSERVATIONS.  An execution of an operation on (public      *)
(* input, secret input) yields an observation: the multiset of basic       *)
(* blocks executed (what a coverage-instrumented build counts) and the     *)
(* sequence of table entries touched.  The operation is constant-time      *)
(* with respect to this observer iff the observation is a function of the  *)
(* public input alone (a 2-safety property):                               *)
(*      \A pub, s1, s2 : Obs(op, pub, s1) = Obs(op, pub, s2)               *)
(* The module also gives the observation semantics of the two window       *)
(* ladders of point_mul_glv.go / point_mul_table.go (constant-time and     *)
(* Vartime twins) so that TLC can show the relation holds for the former   *)
(* for ALL secrets of a miniature instance and FAILS for the latter        *)
(* (the observer is not blind).                                            *)
(***************************************************************************)
EXTENDS Integers, Sequences, FiniteSets, Bags

CONSTANTS WBitsC, NWinC            \* window width and number of windows of the miniature ladder

Window(k, i) == (k \div (2 ^ (WBitsC * i))) % (2 ^ WBitsC)
TblSize == 2 ^ WBitsC - 1

(* observation of one table selection: blocks executed and entries touched *)
SelectCT(idx)      == [blocks |-> <<"lookup_scan", "add">>, touched |-> [j \in 1..TblSize |-> j]]          \* scans every entry
SelectVartime(idx) == IF idx = 0 THEN [blocks |-> <<"skip">>, touched |-> <<>>]
                      ELSE [blocks |-> <<"index", "add">>, touched |-> <<idx>>]

RECURSIVE LadderObs(_, _, _)
LadderObs(Select(_), k, i) ==                 \* windows i, i-1, ..., 0
  LET s == Select(Window(k, i))
      here == [blocks |-> (IF i = NWinC - 1 THEN <<>> ELSE [j \in 1..WBitsC |-> "dbl"]) \o s.blocks, touched |-> s.touched]
  IN  IF i = 0 THEN here
      ELSE LET rest == LadderObs(Select, k, i - 1) IN [blocks |-> here.blocks \o rest.blocks, touched |-> here.touched \o rest.touched]

(* block COUNTERS (what the instrumented build exposes): a bag of block labels *)
RECURSIVE SeqToBag(_)
SeqToBag(s) == IF s = <<>> THEN EmptyBag ELSE SeqToBag(Tail(s)) (+) SetToBag({Head(s)})
Counters(obs) == SeqToBag(obs.blocks)

ObsCT(k)      == LadderObs(SelectCT, k, NWinC - 1)
ObsVartime(k) == LadderObs(SelectVartime, k, NWinC - 1)

Secrets == 0..(2 ^ (WBitsC * NWinC) - 1)
ConstantTime(Obs(_))    == \A s1, s2 \in Secrets : Counters(Obs(s1)) = Counters(Obs(s2)) /\ Obs(s1).touched = Obs(s2).touched
ObserverNotBlind(Obs(_)) == \E s1, s2 \in Secrets : Counters(Obs(s1)) # Counters(Obs(s2)) /\ Obs(s1).touched # Obs(s2).touched
=============================================================================
