--------------------------------- MODULE Field ---------------------------------
(***************************************************************************)
(* The base field F_p (D-level) and the byte-level decode/encode rules of   *)
(* internal/field.                                                          *)
(***************************************************************************)
EXTENDS Params, ModArith

FAdd(a, b) == MAdd(a, b, P)
FSub(a, b) == MSub(a, b, P)
FNeg(a)    == MNeg(a, P)
FMul(a, b) == MMul(a, b, P)
FSqr(a)    == MSqr(a, P)
FInv(a)    == MInv(a, P)
FPow2k(a, k) == ModPow(a, Pow2(k), P)               \* a^(2^k), k >= 1
FIsSquare(a) == MIsSquare(a, P)
FIsOdd(a)  == MIsOdd(a)
FCanon(a)  == MCanon(a, P)

(* Sqrt: relation between the argument and the (value, flag) the library returns.  Which of
   the two roots is returned is not part of the contract. *)
SqrtOK(a, r, flag) ==
  /\ FCanon(r)
  /\ (flag = 1) <=> FIsSquare(a)
  /\ (flag = 1) => BigEq(FSqr(r), a)
  /\ (flag = 0) => BigEq(r, 0)

(* sqrt_ratio(u, v) of RFC 9380 F.2.1: for v # 0, flag says whether u/v is a square and r is
   a root of u/v or of Z*u/v respectively (Z the suite's non-square).  For v = 0 the RFC leaves
   the function unspecified; the straight-line algorithm yields r = 0 and flag = (u = 0). *)
SqrtRatioOK(u, v, zz, r, flag) ==
  /\ FCanon(r)
  /\ IF BigEq(v, 0)
     THEN BigEq(r, 0) /\ ((flag = 1) <=> BigEq(u, 0))
     ELSE LET q == FMul(u, FInv(v)) IN
          /\ (flag = 1) <=> FIsSquare(q)
          /\ (flag = 1) => BigEq(FSqr(r), q)
          /\ (flag = 0) => BigEq(FSqr(r), FMul(zz, q))

(* Byte strings are given as the integer they denote (OS2IP) plus their length. *)
FDecode(v)          == MDecode(v, P)                 \* v < 2^(8W)
FDecodeCanonical(v) == MDecodeCanonical(v, P)
FWideReduce(v)      == v %% P                        \* any length W..2W
=============================================================================
