SPECIFICATION Spec
CONSTANTS
  Gor = {1, 2, 3}
  OpsPer = 2
  Buggy = FALSE
INVARIANT Frame
INVARIANT NoRace
INVARIANT AsAlone
PROPERTY FrameStep
CHECK_DEADLOCK FALSE
