----------------------------------- MODULE Conc -----------------------------------
(***************************************************************************)
(* C20 — N goroutines perform read-only operations on SHARED objects       *)
(* (keys, points, scalars, the precomputed tables).  Every operation is    *)
(* modelled at memory-access grain: it reads shared locations, writes only *)
(* locations private to the call, and returns a function of what it read.  *)
(* The FRAME CONDITION (no step of an operation writes a shared location)  *)
(* is what the implementation is bound to (Trace_Conc + the race           *)
(* detector); this module shows that it implies race freedom and that      *)
(* every call returns what it would return alone.  With Buggy = TRUE one   *)
(* operation keeps a scratch value in the shared object (a cached buffer / *)
(* lazily computed encoding): TLC then finds both the race and the wrong   *)
(* result, which demonstrates that the invariants are not vacuous.         *)
(***************************************************************************)
EXTENDS Integers, Sequences, FiniteSets, TLC

CONSTANTS Gor, OpsPer, Buggy

VARIABLES shared,     \* [loc -> value]: the shared objects
          pc,         \* [g -> "idle" | "read" | "scratch" | "compute" | "done"]
          acc,        \* [g -> <<loc, "r"|"w">> or <<>>]: the access in flight (for race detection)
          tmp,        \* [g -> value read so far] (private)
          done,       \* [g -> number of completed operations]
          results     \* [g -> sequence of results]

vars == <<shared, pc, acc, tmp, done, results>>

Locs     == {"key", "scratch"}
Shared0  == [l \in Locs |-> IF l = "key" THEN 7 ELSE 0]
F(k, g)  == k * 10 + 1                         \* the function every operation computes of the shared key

Init == /\ shared = Shared0 /\ pc = [g \in Gor |-> "idle"] /\ acc = [g \in Gor |-> <<>>]
        /\ tmp = [g \in Gor |-> 0] /\ done = [g \in Gor |-> 0] /\ results = [g \in Gor |-> <<>>]

Begin(g) == /\ pc[g] = "idle" /\ done[g] < OpsPer
            /\ pc' = [pc EXCEPT ![g] = "read"] /\ acc' = [acc EXCEPT ![g] = <<"key", "r">>]
            /\ UNCHANGED <<shared, tmp, done, results>>

Read(g) == /\ pc[g] = "read"
           /\ tmp' = [tmp EXCEPT ![g] = shared["key"]]
           /\ pc' = [pc EXCEPT ![g] = IF Buggy THEN "scratch" ELSE "compute"]
           /\ acc' = [acc EXCEPT ![g] = IF Buggy THEN <<"scratch", "w">> ELSE <<>>]
           /\ UNCHANGED <<shared, done, results>>

(* only in the buggy variant: the operation parks an intermediate value in the shared object and reads it back *)
Scratch(g) == /\ pc[g] = "scratch"
              /\ shared' = [shared EXCEPT !["scratch"] = tmp[g] + g]
              /\ pc' = [pc EXCEPT ![g] = "compute"] /\ acc' = [acc EXCEPT ![g] = <<"scratch", "r">>]
              /\ UNCHANGED <<tmp, done, results>>

Compute(g) == /\ pc[g] = "compute"
              /\ LET k == IF Buggy THEN shared["scratch"] - g ELSE tmp[g] IN
                 results' = [results EXCEPT ![g] = Append(@, F(k, g))]
              /\ done' = [done EXCEPT ![g] = @ + 1]
              /\ pc' = [pc EXCEPT ![g] = "idle"] /\ acc' = [acc EXCEPT ![g] = <<>>]
              /\ UNCHANGED <<shared, tmp>>

Next == \E g \in Gor : Begin(g) \/ Read(g) \/ Scratch(g) \/ Compute(g)
Spec == Init /\ [][Next]_vars

(* the frame condition the implementation is checked against *)
Frame     == shared = Shared0
FrameStep == [][shared' = shared]_vars
(* what follows from it *)
NoRace    == \A g1, g2 \in Gor : g1 # g2 /\ acc[g1] # <<>> /\ acc[g2] # <<>> /\ acc[g1][1] = acc[g2][1]
                                  => acc[g1][2] = "r" /\ acc[g2][2] = "r"
AsAlone   == \A g \in Gor : \A i \in 1..Len(results[g]) : results[g][i] = F(Shared0["key"], g)
=============================================================================
