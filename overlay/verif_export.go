//go:build verif && !verifpub

package secp256k1

import (
	"unsafe"

	"gitlab.com/yawning/secp256k1-voi/internal/field"
)

// Verification-only accessors (added to a scratch copy of the tree by /verif;
// never part of /repo).  Add-only: nothing here changes existing behaviour.

func (s *Scalar) VerifSetMont(l [4]uint64) *Scalar { s.m = l; return s }
func (s *Scalar) VerifMont() [4]uint64             { return s.m }
func (s *Scalar) VerifPow2k(a *Scalar, k uint) *Scalar {
	return s.pow2k(a, k)
}
func (s *Scalar) VerifSplitGLV() (*Scalar, *Scalar) { return s.splitGLV() }
func (s *Scalar) VerifMulGFlooredDiv(k, g *Scalar) *Scalar {
	return s.mulGFlooredDiv(k, g)
}
func VerifReduceSaturatedScalar(dst, src *[4]uint64) uint64 { return reduceSaturated(dst, src) }
func VerifHalfNSat() [4]uint64                              { return halfNSat }
func VerifNSat() [5]uint64                                  { return nSat }

// VerifGLVConsts returns (-lambda, -b1, -b2, g1, g2) and beta as used by the running code.
func VerifGLVConsts() (negLambda, negB1, negB2, g1, g2 *Scalar, beta *field.Element) {
	return NewScalarFrom(scNegLambda), NewScalarFrom(scNegB1), NewScalarFrom(scNegB2),
		NewScalarFrom(scG1), NewScalarFrom(scG2), field.NewElementFrom(feBeta)
}

// VerifNewPointRaw builds a Point from raw projective coordinates without any check.
func VerifNewPointRaw(x, y, z *field.Element) *Point {
	p := &Point{isValid: true}
	p.x.Set(x)
	p.y.Set(y)
	p.z.Set(z)
	return p
}

// VerifCoords returns copies of the raw projective coordinates and the validity flag.
func (v *Point) VerifCoords() (x, y, z *field.Element, valid bool) {
	return field.NewElementFrom(&v.x), field.NewElementFrom(&v.y), field.NewElementFrom(&v.z), v.isValid
}

func (v *Point) VerifAddComplete(p, q *Point) *Point { v.addComplete(p, q); v.isValid = true; return v }
func (v *Point) VerifAddMixed(p *Point, x2, y2 *field.Element) *Point {
	v.addMixed(p, x2, y2)
	v.isValid = true
	return v
}
func (v *Point) VerifDoubleComplete(p *Point) *Point { v.doubleComplete(p); v.isValid = true; return v }
func (v *Point) VerifRescale(p *Point) *Point        { return v.rescale(p) }
func (v *Point) VerifMulBeta(p *Point) *Point        { return v.mulBeta(p) }
func (v *Point) VerifScalarMultVartimeGLV(s *Scalar, p *Point) *Point {
	return v.scalarMultVartimeGLV(s, p)
}
func (v *Point) VerifScalarBaseMultVartime(s *Scalar) *Point { return v.scalarBaseMultVartime(s) }

// Tables.

type VerifProjTable = projectivePointMultTable
type VerifAffinePoint = affinePoint
type VerifAffineTable = affinePointMultTable

func VerifNewProjTable(p *Point) *VerifProjTable {
	t := newProjectivePointMultTable(p)
	return &t
}
func (tbl *VerifProjTable) VerifEntry(i int) *Point {
	p := &Point{isValid: true}
	p.x.Set(&tbl[i].x)
	p.y.Set(&tbl[i].y)
	p.z.Set(&tbl[i].z)
	return p
}
func (tbl *VerifProjTable) VerifSetEntry(i int, x, y, z *field.Element) {
	tbl[i].x.Set(x)
	tbl[i].y.Set(y)
	tbl[i].z.Set(z)
}
func VerifLookupProjective(tbl *VerifProjTable, out *Point, idx uint64) {
	lookupProjectivePoint(tbl, out, idx)
}
func (tbl *VerifAffineTable) VerifSetEntry(i int, x, y *field.Element) {
	tbl[i].x.Set(x)
	tbl[i].y.Set(y)
}
func (ap *VerifAffinePoint) VerifXY() (*field.Element, *field.Element) {
	return field.NewElementFrom(&ap.x), field.NewElementFrom(&ap.y)
}
func (ap *VerifAffinePoint) VerifSetXY(x, y *field.Element) { ap.x.Set(x); ap.y.Set(y) }
func VerifLookupAffine(tbl *VerifAffineTable, out *VerifAffinePoint, idx uint64) {
	lookupAffinePoint(tbl, out, idx)
}

// VerifHugeTableEntry returns entry j (0..254) of generator table i (0..31): (x, y).
func VerifHugeTableEntry(i, j int) (*field.Element, *field.Element) {
	e := &generatorHugeAffineTable[i][j]
	return field.NewElementFrom(&e.x), field.NewElementFrom(&e.y)
}

// VerifOddTableEntry returns entry j (0..14) of the odd generator table i (0..31): (x, y).
func VerifOddTableEntry(i, j int) (*field.Element, *field.Element) {
	e := &generatorOddAffineTable[i][j]
	return field.NewElementFrom(&e.x), field.NewElementFrom(&e.y)
}

// ---- raw memory access for the lookup oracles (C17 / C19)

// VerifPointSize / VerifAffineSize are the strides of the two table types.
func VerifPointSize() uintptr  { return unsafe.Sizeof(Point{}) }
func VerifAffineSize() uintptr { return unsafe.Sizeof(affinePoint{}) }

// VerifLookupProjectiveAt runs the build's lookup on a table placed at an arbitrary address.
func VerifLookupProjectiveAt(addr unsafe.Pointer, out *Point, idx uint64) {
	lookupProjectivePoint((*projectivePointMultTable)(addr), out, idx)
}
func VerifLookupAffineAt(addr unsafe.Pointer, out *VerifAffinePoint, idx uint64) {
	lookupAffinePoint((*affinePointMultTable)(addr), out, idx)
}
func VerifSelectAndAddProjectiveAt(addr unsafe.Pointer, sum *Point, idx uint64, vartime bool) {
	tbl := (*projectivePointMultTable)(addr)
	if vartime {
		tbl.SelectAndAddVartime(sum, idx)
	} else {
		tbl.SelectAndAdd(sum, idx)
	}
}
func VerifSelectAndAddAffineAt(addr unsafe.Pointer, sum *Point, idx uint64) {
	(*affinePointMultTable)(addr).SelectAndAdd(sum, idx)
}

// VerifPointImage / VerifSetPointImage read and write the raw memory image of a Point (coordinates in
// Montgomery form, the validity flag and padding), for "writes only the coordinate bytes" checks.
func VerifPointImage(p *Point) []byte {
	b := make([]byte, unsafe.Sizeof(*p))
	copy(b, unsafe.Slice((*byte)(unsafe.Pointer(p)), unsafe.Sizeof(*p)))
	return b
}
func VerifSetPointImage(p *Point, img []byte) {
	copy(unsafe.Slice((*byte)(unsafe.Pointer(p)), unsafe.Sizeof(*p)), img)
}
func VerifAffineImage(p *VerifAffinePoint) []byte {
	b := make([]byte, unsafe.Sizeof(*p))
	copy(b, unsafe.Slice((*byte)(unsafe.Pointer(p)), unsafe.Sizeof(*p)))
	return b
}
func VerifSetAffineImage(p *VerifAffinePoint, img []byte) {
	copy(unsafe.Slice((*byte)(unsafe.Pointer(p)), unsafe.Sizeof(*p)), img)
}
func VerifProjTableImage(t *VerifProjTable) []byte {
	return unsafe.Slice((*byte)(unsafe.Pointer(t)), unsafe.Sizeof(*t))
}
func VerifAffineTableImage(t *VerifAffineTable) []byte {
	return unsafe.Slice((*byte)(unsafe.Pointer(t)), unsafe.Sizeof(*t))
}

// VerifTablesImage returns the raw memory of the package-level precomputed tables (for frame checks).
func VerifTablesImage() [][]byte {
	return [][]byte{
		unsafe.Slice((*byte)(unsafe.Pointer(generatorHugeAffineTable)), unsafe.Sizeof(*generatorHugeAffineTable)),
		unsafe.Slice((*byte)(unsafe.Pointer(generatorOddAffineTable)), unsafe.Sizeof(*generatorOddAffineTable)),
	}
}

// VerifScalarImage is the raw limb image of a scalar.
func VerifScalarImage(s *Scalar) []byte {
	return append([]byte{}, unsafe.Slice((*byte)(unsafe.Pointer(s)), unsafe.Sizeof(*s))...)
}
