//go:build verif && !verifpub

package h2c

import "crypto"

// Verification-only accessors (added to a scratch copy of the tree by /verif).

func VerifExpandMessageXMD(out []byte, dst, msg []byte) error {
	return expandMessageXMD(out, crypto.SHA256, dst, msg)
}
