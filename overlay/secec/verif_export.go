//go:build verif && !verifpub

package secec

import (
	"io"

	"gitlab.com/yawning/secp256k1-voi"
)

// Verification-only accessors (added to a scratch copy of the tree by /verif).

func VerifSampleRandomScalar(rand io.Reader) (*secp256k1.Scalar, error) {
	return sampleRandomScalar(rand)
}
func VerifNewDrbgRFC6979(x, e *secp256k1.Scalar) io.Reader  { return newDrbgRFC6979(x, e) }
func VerifHashToScalar(h []byte) (*secp256k1.Scalar, error) { return hashToScalar(h) }

// VerifVerifyAlt runs the SEC 1 4.1.5 (private key) verification path.
func VerifVerifyAlt(d *PrivateKey, digest []byte, r, s *secp256k1.Scalar) bool {
	return verify(d, nil, digest, r, s) == nil
}

// VerifMitigate exposes the hedged-nonce reader construction.
func VerifMitigate(rand io.Reader, k *PrivateKey, e *secp256k1.Scalar) (io.Reader, error) {
	return mitigateDebianAndSony(rand, domainSepECDSA, k, e)
}

// VerifImage returns the raw memory image of everything reachable from the key objects (for frame checks).
func (k *PrivateKey) VerifImage() []byte {
	m := k.scalar.VerifMont()
	var out []byte
	for _, l := range m {
		for i := 0; i < 8; i++ {
			out = append(out, byte(l>>(8*i)))
		}
	}
	return append(out, k.publicKey.VerifImage()...)
}

func (k *PublicKey) VerifImage() []byte {
	out := append([]byte{}, secp256k1.VerifPointImage(k.point)...)
	return append(out, k.pointBytes...)
}

// VerifSplitKey builds a key object from a private scalar and an unrelated public-key object (C09: the nonce has a secret input).
func VerifSplitKey(d *secp256k1.Scalar, pub *PublicKey) *PrivateKey {
	return &PrivateKey{scalar: d, publicKey: pub}
}
