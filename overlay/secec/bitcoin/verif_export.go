//go:build verif && !verifpub

package bitcoin

import secp256k1 "gitlab.com/yawning/secp256k1-voi"

// Verification-only accessors (added to a scratch copy of the tree by /verif).

func VerifSignSchnorr(aux *[32]byte, sk *SchnorrPrivateKey, msg []byte) ([]byte, error) {
	return signSchnorr(aux, sk, msg)
}
func VerifVerifySchnorrSelf(sk *SchnorrPrivateKey, msg, sig []byte) bool {
	return verifySchnorrSelf(sk.d, sk.PublicKey().Bytes(), msg, sig)
}
func VerifSchnorrD(sk *SchnorrPrivateKey) []byte { return sk.d.Bytes() }
func VerifTaggedHash(tag string, vals ...[]byte) []byte {
	return schnorrTaggedHash(tag, vals...)
}

// VerifImage returns the raw memory image of everything reachable from the key objects (for frame checks).
func (k *SchnorrPrivateKey) VerifImage() []byte {
	var out []byte
	for _, s := range [](interface{ VerifMont() [4]uint64 }){k.dPrime, k.d} {
		for _, l := range s.VerifMont() {
			for i := 0; i < 8; i++ {
				out = append(out, byte(l>>(8*i)))
			}
		}
	}
	return append(out, k.publicKey.VerifImage()...)
}

func (k *SchnorrPublicKey) VerifImage() []byte {
	out := append([]byte{}, secp256k1.VerifPointImage(k.point)...)
	return append(out, k.xBytes...)
}
