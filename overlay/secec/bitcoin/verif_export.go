//go:build verif

package bitcoin

// Verification-only accessors (added to a scratch copy of the tree by /verif).

func VerifSignSchnorr(aux *[32]byte, sk *SchnorrPrivateKey, msg []byte) ([]byte, error) {
	return signSchnorr(aux, sk, msg)
}
func VerifVerifySchnorrSelf(sk *SchnorrPrivateKey, msg, sig []byte) bool {
	return verifySchnorrSelf(sk.d, sk.PublicKey().Bytes(), msg, sig)
}
func VerifSchnorrD(sk *SchnorrPrivateKey) []byte { return sk.d.Bytes() }
func VerifTaggedHash(tag string, vals ...[]byte) []byte {
	return schnorrTaggedHash(tag, vals...)
}
