//go:build verif && !verifpub

package field

// Verification-only accessors (added to a scratch copy of the tree by /verif;
// never part of /repo).  Add-only: nothing here changes existing behaviour.

func (fe *Element) VerifSetMont(l [4]uint64) *Element { fe.m = l; return fe }
func (fe *Element) VerifMont() [4]uint64              { return fe.m }
func (fe *Element) VerifPow3mod4(x *Element) *Element { return fe.pow3mod4(x) }
func (fe *Element) VerifSetShortBytes(b []byte) *Element {
	return fe.setShortBytes(b)
}
func VerifReduceSaturated(dst, src *[4]uint64) uint64 { return reduceSaturated(dst, src) }
func VerifTwo192() *Element                           { return NewElementFrom(scTwo192) }
func VerifTwo384() *Element                           { return NewElementFrom(scTwo384) }
func VerifC2() *Element                               { return NewElementFrom(feC2) }
func VerifMSat() [5]uint64                            { return mSat }
