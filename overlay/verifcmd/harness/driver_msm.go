//go:build verif

package main

import (
	"math/big"
	"math/rand"

	secp256k1 "gitlab.com/yawning/secp256k1-voi"
)

func init() {
	register("msm", "C16: multi-scalar and double-scalar multiplication over list shapes, scalar/point classes and aliasing", driveMSM)
}

func driveMSM(c *ctx) {
	r := rand.New(rand.NewSource(c.seed))
	// cold start: the first multiplication of this process is the variable-time double-scalar one, on a point that came from bytes
	// (no ScalarBaseMult, key generation or signing has happened yet)
	for i := 0; i < 2; i++ {
		P := bigECMul(add(randBig(r, add(bigN, -1)), 1), &xy{bigGx, bigGy})
		p, err := secp256k1.NewPointFromBytes(encUnc(*P))
		if err != nil {
			c.E("lib.Unexpected", "what", "a valid point encoding was rejected: "+err.Error())
			continue
		}
		u1, u2 := randBig(r, bigN), randBig(r, bigN)
		if i == 1 {
			u2 = big.NewInt(0)
		}
		ph := ptRaw(p)
		v := secp256k1.NewIdentityPoint().DoubleScalarMultBasepointVartime(scFrom(u1), scFrom(u2), p)
		c.E("dsm", "alias", "none", "u1", h32(u1), "u2", h32(u2), "p", ph, "out", ptRaw(v), "p_post", ptRaw(p))
	}
	G := secp256k1.NewGeneratorPoint()
	R1 := mulG(add(randBig(r, add(bigN, -3)), 2))
	R2 := mulG(add(randBig(r, add(bigN, -3)), 2))
	neg := func(p *secp256k1.Point) *secp256k1.Point { return secp256k1.NewIdentityPoint().Negate(p) }

	type kind struct {
		name string
		f    func(v *secp256k1.Point, ss []*secp256k1.Scalar, ps []*secp256k1.Point) *secp256k1.Point
	}
	kinds := []kind{
		{"ct", func(v *secp256k1.Point, ss []*secp256k1.Scalar, ps []*secp256k1.Point) *secp256k1.Point {
			return v.MultiScalarMult(ss, ps)
		}},
		{"vartime", func(v *secp256k1.Point, ss []*secp256k1.Scalar, ps []*secp256k1.Point) *secp256k1.Point {
			return v.MultiScalarMultVartime(ss, ps)
		}},
	}
	scClass := func(k int, prev []*big.Int) *big.Int {
		switch k {
		case 0:
			return big.NewInt(0)
		case 1:
			return big.NewInt(1)
		case 2:
			return add(bigN, -1)
		case 3:
			if len(prev) > 0 { // = -s_j
				return new(big.Int).Mod(new(big.Int).Neg(prev[r.Intn(len(prev))]), bigN)
			}
			return randBig(r, bigN)
		case 4:
			if len(prev) > 0 { // = s_j
				return prev[r.Intn(len(prev))]
			}
			return randBig(r, bigN)
		case 6: // the scalar whose internal (Montgomery) limbs are {1,0,0,0}: 2^-256 mod n, NOT one
			return new(big.Int).ModInverse(new(big.Int).Mod(big2_256, bigN), bigN)
		case 7: // other values whose internal form is a limb pattern
			mp := montPatternValues(r, bigN)
			return mp[r.Intn(len(mp))]
		default:
			return randBig(r, bigN)
		}
	}
	ptClass := func(k int, prev []*secp256k1.Point) *secp256k1.Point {
		switch k {
		case 0:
			return secp256k1.NewIdentityPoint()
		case 1:
			return clonePt(G)
		case 2:
			if len(prev) > 0 { // P_j (the same abstract point, another representative)
				return rep(prev[r.Intn(len(prev))], add(randBig(r, add(bigP, -1)), 1))
			}
			return clonePt(R1)
		case 3:
			if len(prev) > 0 { // -P_j
				return neg(prev[r.Intn(len(prev))])
			}
			return neg(R1)
		case 4:
			return idRep(big.NewInt(9))
		case 5:
			return rep(R2, add(randBig(r, add(bigP, -1)), 1))
		case 7: // points that share a coordinate with the generator: -G (same x), in two representatives; lambda*G, lambda^2*G (same y)
			return neg(G)
		case 8:
			return rep(neg(G), add(randBig(r, add(bigP, -1)), 1))
		case 9:
			return mulG(bigLambda)
		case 10:
			return neg(mulG(new(big.Int).Mod(new(big.Int).Mul(bigLambda, bigLambda), bigN)))
		default:
			return mulG(randBig(r, bigN))
		}
	}
	aliasAt := 0 // > 0: the receiver is this entry of the list (1-based) instead of a drawn one
	run := func(n int, scPick, ptPick func(i int) int, aliasRecv bool, mism int) {
		var ssb []*big.Int
		var ps []*secp256k1.Point
		for i := 0; i < n; i++ {
			ssb = append(ssb, scClass(scPick(i), ssb))
			ps = append(ps, ptClass(ptPick(i), ps))
		}
		for _, k := range kinds {
			ss := make([]*secp256k1.Scalar, len(ssb))
			ssh := make([]string, len(ssb))
			for i, s := range ssb {
				ss[i] = scFrom(s)
				ssh[i] = h32(s)
			}
			pp := make([]*secp256k1.Point, len(ps))
			pph := make([]string, len(ps))
			for i, p := range ps {
				pp[i] = clonePt(p)
				pph[i] = ptRaw(p)
			}
			if mism != 0 { // mismatched lengths must be refused
				if mism > 0 {
					ss = append(ss, scFrom(big.NewInt(3)))
					ssh = append(ssh, h32(big.NewInt(3)))
				} else {
					pp = append(pp, clonePt(G))
					pph = append(pph, ptRaw(G))
				}
			}
			v := rep(R1, big.NewInt(77))
			recv := 0
			if aliasRecv && n > 0 {
				recv = 1 + r.Intn(n)
				if aliasAt > 0 && aliasAt <= n {
					recv = aliasAt
				}
				v = pp[recv-1]
			}
			pre := ptRaw(v)
			pn := catch(func() { k.f(v, ss, pp) })
			post := make([]string, len(pp))
			for i := range pp {
				post[i] = ptRaw(pp[i])
			}
			sspost := make([]string, len(ss))
			for i := range ss {
				sspost[i] = scHex(ss[i])
			}
			c.E("msm", "kind", k.name, "ss", ssh, "ps", pph, "recv", recv, "panic", pn, "pre", pre, "out", ptRaw(v), "ps_post", post, "ss_post", sspost)
		}
	}
	rnd := func(m int) func(int) int { return func(int) int { return r.Intn(m) } }
	// lengths 0..6: every (scalar class, point class) pair in the first two slots, random classes afterwards
	for n := 0; n <= 6; n++ {
		if n == 0 {
			run(0, rnd(8), rnd(11), false, 0)
			continue
		}
		for sc := 0; sc < 8; sc++ {
			for pc := 0; pc < 11; pc++ {
				sc, pc := sc, pc
				first := func(cls, m int) func(int) int {
					return func(i int) int {
						if i == n-1 {
							return cls
						}
						return r.Intn(m)
					}
				}
				run(n, first(sc, 8), first(pc, 11), (sc+pc)%3 == 0, 0)
			}
		}
	}
	// cancellation: partial sums through the identity and through doubling
	for it := 0; it < c.scale(6, 60); it++ {
		s := randBig(r, bigN)
		P := mulG(randBig(r, bigN))
		type sp struct {
			s *big.Int
			p *secp256k1.Point
		}
		cases := [][]sp{
			{{s, P}, {new(big.Int).Sub(bigN, s), P}}, // s P - s P
			{{s, P}, {s, neg(P)}},                    // s P + s (-P)
			{{s, P}, {s, P}},                         // doubling of equal partial sums
			{{s, P}, {big.NewInt(1), G}, {new(big.Int).Sub(bigN, s), P}},   // through the identity mid-way
			{{big.NewInt(1), P}, {big.NewInt(1), P}, {add(bigN, -2), P}},   // sums to the identity
			{{big.NewInt(0), P}, {big.NewInt(0), G}},                       // all-zero scalars
			{{s, secp256k1.NewIdentityPoint()}, {s, idRep(big.NewInt(3))}}, // all-identity points
		}
		for _, cs := range cases {
			for _, k := range kinds {
				ss := make([]*secp256k1.Scalar, len(cs))
				ssh := make([]string, len(cs))
				pp := make([]*secp256k1.Point, len(cs))
				pph := make([]string, len(cs))
				for i, e := range cs {
					ss[i] = scFrom(new(big.Int).Mod(e.s, bigN))
					ssh[i] = scHex(ss[i])
					pp[i] = clonePt(e.p)
					pph[i] = ptRaw(e.p)
				}
				v := rep(R2, big.NewInt(5))
				pre := ptRaw(v)
				pn := catch(func() { k.f(v, ss, pp) })
				post := make([]string, len(pp))
				for i := range pp {
					post[i] = ptRaw(pp[i])
				}
				c.E("msm", "kind", k.name, "ss", ssh, "ps", pph, "recv", 0, "panic", pn, "pre", pre, "out", ptRaw(v), "ps_post", post, "ss_post", ssh)
			}
		}
	}
	// mismatched lengths
	for n := 0; n <= 3; n++ {
		run(n, rnd(8), rnd(11), false, 1)
		run(n, rnd(8), rnd(11), false, -1)
	}
	// long lists
	longs := []int{7, 8, 15, 16, 31, 32, 33, 64, 65, 67, 129, 130}
	if c.thorough() {
		longs = append(longs, 100, 127, 191, 193, 255, 257)
	}
	for _, n := range longs {
		run(n, rnd(8), rnd(11), n%2 == 1, 0)
	}
	// the receiver at chosen places of a long list: first, last, the middle, and either side of the places where an implementation
	// might cut the list into chunks (powers of two) - a partial result written to the receiver before a later chunk reads it (round 8)
	for _, n := range longs {
		seen := map[int]bool{}
		for _, at := range []int{1, n, n / 2, 8, 9, 16, 17, 32, 33, 64, 65, 128, 129} {
			if at < 1 || at > n || seen[at] || (n < 33 && at != 1 && at != n) {
				continue
			}
			seen[at] = true
			aliasAt = at
			run(n, rnd(8), rnd(11), true, 0)
		}
	}
	aliasAt = 0
	for i := 0; i < c.scale(10, 300); i++ {
		run(2+r.Intn(5), rnd(8), rnd(11), i%2 == 0, 0)
	}

	// ---- DoubleScalarMultBasepointVartime
	pts := []*secp256k1.Point{secp256k1.NewIdentityPoint(), idRep(big.NewInt(2)), clonePt(G), neg(G), R1, rep(R1, big.NewInt(11)), R2}
	half := new(big.Int).Rsh(add(bigN, -1), 1)
	us := []*big.Int{big.NewInt(0), big.NewInt(1), add(bigN, -1), half, add(half, 1)}
	for i := 0; i < c.scale(6, 100); i++ {
		us = append(us, randBig(r, bigN))
	}
	// u2 (and the single scalar of a one-term batch) steered to the corners of the variable-base multiply: extreme split halves,
	// rounding-bit flips, limb carries in the rounded quotients
	for i, u2 := range steeredScalars(r, 0) {
		if !c.thorough() && i%2 != int(c.seed%2) {
			continue
		}
		p := clonePt(R1)
		v := rep(R2, big.NewInt(19))
		u1 := randBig(r, bigN)
		v.DoubleScalarMultBasepointVartime(scFrom(u1), scFrom(u2), p)
		c.E("dsm", "alias", "none", "u1", h32(u1), "u2", h32(u2), "p", ptRaw(R1), "out", ptRaw(v), "p_post", ptRaw(p))
		for _, vt := range []bool{false, true} {
			p = clonePt(R1)
			v = rep(R2, big.NewInt(23))
			name := "ct"
			if vt {
				name = "vartime"
				v.MultiScalarMultVartime([]*secp256k1.Scalar{scFrom(u2)}, []*secp256k1.Point{p})
			} else {
				v.MultiScalarMult([]*secp256k1.Scalar{scFrom(u2)}, []*secp256k1.Point{p})
			}
			c.E("msm", "kind", name, "ss", []string{h32(u2)}, "ps", []string{ptRaw(R1)}, "recv", 0, "panic", false, "pre", "", "out", ptRaw(v),
				"ps_post", []string{ptRaw(p)}, "ss_post", []string{h32(u2)})
		}
	}
	for i, u1 := range us {
		for j, u2 := range us {
			for pi, p0 := range pts {
				if !c.thorough() && (i+j+pi)%3 != 0 && i > 4 && j > 4 {
					continue
				}
				p := clonePt(p0)
				v := rep(R2, big.NewInt(13))
				v.DoubleScalarMultBasepointVartime(scFrom(u1), scFrom(u2), p)
				c.E("dsm", "alias", "none", "u1", h32(u1), "u2", h32(u2), "p", ptRaw(p0), "out", ptRaw(v), "p_post", ptRaw(p))
				if (i+j)%2 == 0 {
					p = clonePt(p0)
					p.DoubleScalarMultBasepointVartime(scFrom(u1), scFrom(u2), p)
					c.E("dsm", "alias", "v=p", "u1", h32(u1), "u2", h32(u2), "p", ptRaw(p0), "out", ptRaw(p))
				}
			}
			// u1 G + u2 P = identity: P = G, u2 = -u1
			if j == 0 {
				p := clonePt(G)
				v := rep(R2, big.NewInt(17))
				u2n := new(big.Int).Mod(new(big.Int).Neg(u1), bigN)
				v.DoubleScalarMultBasepointVartime(scFrom(u1), scFrom(u2n), p)
				c.E("dsm", "alias", "none", "u1", h32(u1), "u2", h32(u2n), "p", ptRaw(G), "out", ptRaw(v), "p_post", ptRaw(p))
			}
		}
	}
}
