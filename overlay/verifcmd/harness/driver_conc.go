//go:build verif

package main

import (
	"bytes"
	"crypto/sha256"
	"math/big"
	"math/rand"
	"os"
	"runtime"
	"strconv"
	"strings"
	"sync"
	"sync/atomic"

	secp256k1 "gitlab.com/yawning/secp256k1-voi"
	"gitlab.com/yawning/secp256k1-voi/secec"
	"gitlab.com/yawning/secp256k1-voi/secec/bitcoin"
	"gitlab.com/yawning/secp256k1-voi/secec/h2c"
)

func init() {
	register("conc", "C20: many goroutines use shared keys / points / scalars / tables read-only (built with -race); results vs sequential; frames", driveConc)
	register("conchammer", "C20: every operation on its own, hammered by all goroutines at once (run with the race detector halting at the first report)", driveConcHammer)
}

type shared struct {
	priv  *secec.PrivateKey
	pub   *secec.PublicKey
	peer  *secec.PublicKey
	spriv *bitcoin.SchnorrPrivateKey
	spub  *bitcoin.SchnorrPublicKey
	pt    *secp256k1.Point // a non-normalised representative
	sc    *secp256k1.Scalar
	sig   [3]*secp256k1.Scalar // r, s and the digest's recovery id holder
	v     byte
	dig   []byte
	ssig  []byte
	// inputs that programs share between goroutines as a matter of course: one options object (its Hash left unset, as its
	// documentation invites), one domain separation tag, one compact signature
	opts *secec.ECDSAOptions
	dst  []byte
	csig []byte
	pt2  *secp256k1.Point // a second shared point (the right-hand operand of non-commutative operations)
	// fresh key objects nobody has looked at yet: every one is shared by a whole group of consecutive callers, so that the FIRST use
	// of an object (a lazily derived half, a cache) happens in several goroutines at once
	freshKeys []*secec.PrivateKey
	freshPub  []string
	freshCtr  atomic.Int64
	group     int64
	// round 9: fresh objects of every key type, and the first USE of each (sign, verify, derive a shared secret, encode) by a small group
	// of goroutines at once; the expected answer was computed beforehand, sequentially, on a twin object built from the same bytes
	freshObjs   []freshObj
	freshObjCtr atomic.Int64
}

type freshObj struct {
	kind  int
	priv  *secec.PrivateKey
	pub   *secec.PublicKey
	spriv *bitcoin.SchnorrPrivateKey
	spub  *bitcoin.SchnorrPublicKey
	dig   []byte
	ent   []byte
	sig   []byte
	want  string
}

const freshObjKinds = 8

// useFresh performs the kind's first-use operation on o (or on its twin when building the expectation).
func useFresh(kind int, priv *secec.PrivateKey, pub *secec.PublicKey, spriv *bitcoin.SchnorrPrivateKey, spub *bitcoin.SchnorrPublicKey, peer *secec.PublicKey, dig, ent, sig []byte) string {
	switch kind {
	case 0: // hedged signature with given entropy: a deterministic function of (key, digest, entropy)
		b, err := priv.Sign(&fixedReader{append([]byte{}, ent...)}, dig, &secec.ECDSAOptions{Encoding: secec.EncodingCompact})
		if err != nil {
			return "err"
		}
		return hx(b)
	case 1:
		b, err := priv.Sign(secec.RFC6979SHA256(), dig, &secec.ECDSAOptions{Encoding: secec.EncodingCompactRecoverable})
		if err != nil {
			return "err"
		}
		return hx(b)
	case 2:
		b, err := priv.ECDH(peer)
		if err != nil {
			return "err"
		}
		return hx(b)
	case 3:
		return strconv.FormatBool(pub.Verify(dig, sig, &secec.ECDSAOptions{Encoding: secec.EncodingCompact}))
	case 4:
		return hx(pub.ASN1Bytes()) + hx(pub.CompressedBytes()) + hx(pub.Bytes()) + hx(pub.Point().CompressedBytes())
	case 5:
		b, err := spriv.Sign(&fixedReader{append([]byte{}, ent...)}, dig, nil)
		if err != nil {
			return "err"
		}
		return hx(b)
	case 6:
		return strconv.FormatBool(spub.Verify(dig, sig))
	default:
		return hx(spub.Bytes()) + hx(spub.Point().UncompressedBytes())
	}
}

func optsImage(o *secec.ECDSAOptions) []byte {
	return []byte(strconv.Itoa(int(o.Hash)) + "/" + strconv.Itoa(int(o.Encoding)) + "/" + strconv.FormatBool(o.SelfVerify) + "/" + strconv.FormatBool(o.RejectMalleable))
}

func (sh *shared) images() map[string][]byte {
	if deep {
		return deepImages(sh)
	}
	// exported views only (the deep memory images need the verif accessors)
	return map[string][]byte{
		"priv": sh.priv.Bytes(), "pub": sh.pub.Bytes(), "peer": sh.peer.Bytes(), "spriv": sh.spriv.Bytes(), "spub": sh.spub.Bytes(),
		"pt": sh.pt.UncompressedBytes(), "pt2": sh.pt2.UncompressedBytes(), "sc": sh.sc.Bytes(), "sig_r": sh.sig[0].Bytes(), "sig_s": sh.sig[1].Bytes(),
		"dig": append([]byte{}, sh.dig...), "ssig": append([]byte{}, sh.ssig...),
	}
}

type concOp struct {
	name string
	f    func(sh *shared, arg int) string
}

// freshSep: an operation whose result depends on fresh system randomness returns "<deterministic status>" + freshSep + "<token>": the
// status is compared with the sequential run, the token (a nonce's r, a generated key's fingerprint) must never repeat.
const freshSep = "|fresh|"

func splitFresh(out string) (string, string) {
	if i := strings.Index(out, freshSep); i >= 0 {
		return out[:i], out[i+len(freshSep):]
	}
	return out, ""
}

func concOps() []concOp {
	ent := func(arg int) []byte {
		h := sha256.Sum256([]byte{byte(arg), byte(arg >> 8), 0x5a})
		return h[:]
	}
	msg := func(arg int) []byte {
		h := sha256.Sum256([]byte{byte(arg), 0xa5})
		return h[:]
	}
	return []concOp{
		{"sign_hedged", func(sh *shared, arg int) string {
			r, s, v, err := sh.priv.SignRaw(&fixedReader{ent(arg)}, msg(arg))
			if err != nil {
				return "err"
			}
			return scHex(r) + scHex(s) + strconv.Itoa(int(v))
		}},
		{"sign_rfc6979", func(sh *shared, arg int) string {
			sig, err := sh.priv.Sign(secec.RFC6979SHA256(), msg(arg), nil)
			if err != nil {
				return "err"
			}
			return hx(sig)
		}},
		{"verify", func(sh *shared, arg int) string {
			d := sh.dig
			if arg%2 == 1 {
				d = msg(arg)
			}
			return strconv.FormatBool(sh.pub.VerifyRaw(d, sh.sig[0], sh.sig[1]))
		}},
		{"recover", func(sh *shared, arg int) string {
			q, err := secec.RecoverPublicKey(sh.dig, sh.sig[0], sh.sig[1], sh.v^byte(arg&1))
			if err != nil {
				return "err"
			}
			return hx(q.Bytes())
		}},
		{"ecdh", func(sh *shared, arg int) string {
			b, err := sh.priv.ECDH(sh.peer)
			if err != nil {
				return "err"
			}
			return hx(b)
		}},
		{"scalarmult", func(sh *shared, arg int) string {
			return hx(secp256k1.NewIdentityPoint().ScalarMult(sh.sc, sh.pt).CompressedBytes())
		}},
		{"basemult", func(sh *shared, arg int) string {
			return hx(secp256k1.NewIdentityPoint().ScalarBaseMult(sh.sc).CompressedBytes())
		}},
		{"msm", func(sh *shared, arg int) string {
			return hx(secp256k1.NewIdentityPoint().MultiScalarMult([]*secp256k1.Scalar{sh.sc, sh.sig[0]}, []*secp256k1.Point{sh.pt, sh.pt}).CompressedBytes())
		}},
		{"dsm", func(sh *shared, arg int) string {
			return hx(secp256k1.NewIdentityPoint().DoubleScalarMultBasepointVartime(sh.sc, sh.sig[1], sh.pt).CompressedBytes())
		}},
		{"mult_special_points", func(sh *shared, arg int) string { // shared scalars with points an implementation may special-case: G, -G, the identity, 2G (round 10)
			g := secp256k1.NewGeneratorPoint()
			p := []*secp256k1.Point{g, secp256k1.NewIdentityPoint().Negate(g), secp256k1.NewIdentityPoint(), secp256k1.NewIdentityPoint().Double(g)}[arg%4]
			n := secp256k1.NewIdentityPoint
			return hx(n().DoubleScalarMultBasepointVartime(sh.sc, sh.sig[1], p).CompressedBytes()) + hx(n().ScalarMult(sh.sc, p).CompressedBytes()) +
				hx(n().MultiScalarMultVartime([]*secp256k1.Scalar{sh.sc, sh.sig[1]}, []*secp256k1.Point{p, g}).CompressedBytes()) +
				hx(n().MultiScalarMult([]*secp256k1.Scalar{sh.sig[1], sh.sc}, []*secp256k1.Point{g, p}).CompressedBytes())
		}},
		{"encode", func(sh *shared, arg int) string {
			x, _ := sh.pt.XBytes()
			return hx(sh.pt.UncompressedBytes()) + hx(sh.pt.CompressedBytes()) + hx(x) + hx(sh.sc.Bytes()) + strconv.Itoa(int(sh.pt.IsYOdd()))
		}},
		{"pointops", func(sh *shared, arg int) string {
			a := secp256k1.NewIdentityPoint().Add(sh.pt, sh.pt)
			b := secp256k1.NewIdentityPoint().Double(sh.pt)
			return strconv.Itoa(int(a.Equal(b))) + strconv.Itoa(int(sh.pt.Equal(sh.pt))) + hx(secp256k1.NewIdentityPoint().Negate(sh.pt).CompressedBytes())
		}},
		{"keyviews", func(sh *shared, arg int) string {
			return hx(sh.pub.Bytes()) + hx(sh.pub.CompressedBytes()) + hx(sh.pub.ASN1Bytes()) + hx(sh.priv.Bytes()) + scHex(sh.priv.Scalar()) +
				hx(sh.pub.Point().CompressedBytes()) + hx(sh.spub.Bytes()) + hx(sh.spriv.Bytes())
		}},
		{"h2c", func(sh *shared, arg int) string {
			p, err := h2c.Secp256k1_XMD_SHA256_SSWU_RO([]byte("conc-dst"), msg(arg))
			if err != nil {
				return "err"
			}
			return hx(p.CompressedBytes())
		}},
		{"h2c_long_dst", func(sh *shared, arg int) string { // distinct oversize (> 255 bytes) tags: the tag is hashed first
			dst := bytes.Repeat([]byte{byte(0x41 + arg)}, 301+arg)
			f := h2c.Secp256k1_XMD_SHA256_SSWU_RO
			if arg%2 == 1 {
				f = h2c.Secp256k1_XMD_SHA256_SSWU_NU
			}
			p, err := f(dst, msg(arg))
			if err != nil {
				return "err"
			}
			return hx(p.CompressedBytes())
		}},
		{"uniform_wide", func(sh *shared, arg int) string { // 49..64-byte uniform strings (the c * 2^384 term of the wide reduction)
			b := append(append([]byte{}, msg(arg)...), ent(arg)...)
			return hx(secp256k1.NewIdentityPoint().SetUniformBytes(b[:49+arg*5]).CompressedBytes())
		}},
		{"uniform_degenerate", func(sh *shared, arg int) string { // the exceptional inputs of the map (u = 0, Z u^2 = -1), 32 / 48 / 64 bytes
			u := big.NewInt(0)
			if arg%2 == 1 {
				u = sqrtP(new(big.Int).ModInverse(big.NewInt(11), bigP))
			}
			b := make([]byte, []int{32, 48, 64, 48}[arg%4])
			u.FillBytes(b)
			return hx(new(secp256k1.Point).SetUniformBytes(b).CompressedBytes())
		}},
		{"dsm_zero", func(sh *shared, arg int) string { // zero scalars on the variable-time paths (fast paths, early returns)
			z := secp256k1.NewScalar()
			var p *secp256k1.Point
			switch arg % 3 {
			case 0:
				p = secp256k1.NewIdentityPoint().DoubleScalarMultBasepointVartime(sh.sc, z, sh.pt)
			case 1:
				p = secp256k1.NewIdentityPoint().MultiScalarMultVartime([]*secp256k1.Scalar{z}, []*secp256k1.Point{sh.pt})
			default:
				p = secp256k1.NewIdentityPoint().MultiScalarMultVartime([]*secp256k1.Scalar{z, sh.sc}, []*secp256k1.Point{sh.pt, secp256k1.NewIdentityPoint()})
			}
			return hx(p.CompressedBytes())
		}},
		{"schnorr_from_point", func(sh *shared, arg int) string { // key objects built FROM the shared point: it stays the caller's
			k, err := bitcoin.NewSchnorrPublicKeyFromPoint(sh.pt)
			if err != nil {
				return "err"
			}
			k2, err := secec.NewPublicKeyFromPoint(sh.pt)
			if err != nil {
				return "err"
			}
			return hx(k.Bytes()) + hx(k2.CompressedBytes())
		}},
		{"pointops_shared_rhs", func(sh *shared, arg int) string { // the shared points as LEFT and RIGHT operands of every binary / unary operation
			a := secp256k1.NewIdentityPoint().Subtract(sh.pt, sh.pt2)
			b := secp256k1.NewIdentityPoint().Subtract(sh.pt2, sh.pt)
			cs := secp256k1.NewIdentityPoint().ConditionalSelect(sh.pt, sh.pt2, uint64(arg&1))
			cn := secp256k1.NewIdentityPoint().ConditionalNegate(sh.pt2, uint64(arg>>1&1))
			st := secp256k1.NewIdentityPoint().Set(sh.pt2)
			cp := secp256k1.NewPointFrom(sh.pt)
			sum := secp256k1.NewIdentityPoint().Add(sh.pt2, sh.pt)
			return hx(a.CompressedBytes()) + hx(b.CompressedBytes()) + hx(cs.CompressedBytes()) + hx(cn.CompressedBytes()) + hx(st.CompressedBytes()) +
				hx(cp.CompressedBytes()) + hx(sum.CompressedBytes()) + strconv.Itoa(int(sh.pt.Equal(sh.pt2))) + strconv.Itoa(int(sh.pt2.IsIdentity()))
		}},
		{"scalarops_shared", func(sh *shared, arg int) string { // the shared scalars as operands of every scalar operation
			x, y := sh.sc, sh.sig[arg&1]
			n := secp256k1.NewScalar
			return scHex(n().Add(x, y)) + scHex(n().Subtract(x, y)) + scHex(n().Subtract(y, x)) + scHex(n().Multiply(x, y)) + scHex(n().Square(x)) +
				scHex(n().Negate(y)) + scHex(n().Invert(x)) + scHex(n().ConditionalNegate(x, uint64(arg>>1&1))) + scHex(n().ConditionalSelect(x, y, uint64(arg&1))) +
				scHex(n().Sum(x, y, x)) + scHex(n().Product(y, x, y)) + scHex(secp256k1.NewScalarFrom(x)) + scHex(n().Set(y)) +
				strconv.Itoa(int(x.Equal(y))) + strconv.Itoa(int(x.IsZero())) + strconv.Itoa(int(y.IsGreaterThanHalfN())) + hx(x.Bytes())
		}},
		{"fresh_key_first_use", func(sh *shared, arg int) string { // the first look at a key object nobody has looked at yet, by a whole group at once
			i := int((sh.freshCtr.Add(1) - 1) / sh.group)
			if i >= len(sh.freshKeys) {
				return "ok"
			}
			k := sh.freshKeys[i]
			var got string
			switch arg % 4 {
			case 0:
				got = hx(k.PublicKey().Bytes())
			case 1:
				got = hx(k.Public().(*secec.PublicKey).Bytes())
			case 2:
				x, _ := secp256k1.NewIdentityPoint().ScalarBaseMult(k.Scalar()).XBytes()
				got = hx(bitcoin.NewSchnorrPrivateKeyFromECDSA(k).PublicKey().Bytes())
				if got == hx(x) {
					return "ok"
				}
				return "bad"
			default:
				got = hx(k.PublicKey().Point().UncompressedBytes())
			}
			if got == sh.freshPub[i] {
				return "ok"
			}
			return "bad"
		}},
		{"fresh_obj_first_use", func(sh *shared, arg int) string { // the first USE of a fresh key object of any type, by a small group at once
			i := int((sh.freshObjCtr.Add(1) - 1) / 8)
			if i >= len(sh.freshObjs) {
				return "ok"
			}
			o := &sh.freshObjs[i]
			if got := useFresh(o.kind, o.priv, o.pub, o.spriv, o.spub, sh.peer, o.dig, o.ent, o.sig); got != o.want {
				return "bad kind " + strconv.Itoa(o.kind)
			}
			return "ok"
		}},
		{"sign_shared_opts", func(sh *shared, arg int) string { // every goroutine passes the SAME options object
			sig, err := sh.priv.Sign(secec.RFC6979SHA256(), msg(arg), sh.opts)
			if err != nil {
				return "err"
			}
			return hx(sig)
		}},
		{"verify_shared_opts", func(sh *shared, arg int) string {
			d := sh.dig
			if arg%2 == 1 {
				d = msg(arg)
			}
			return strconv.FormatBool(sh.pub.Verify(d, sh.csig, sh.opts))
		}},
		{"h2c_shared_dst", func(sh *shared, arg int) string {
			p, err := h2c.Secp256k1_XMD_SHA256_SSWU_NU(sh.dst, sh.dig)
			if err != nil {
				return "err"
			}
			return hx(p.CompressedBytes())
		}},
		{"sign_system_rand", func(sh *shared, arg int) string { // rand == nil: the process-wide entropy source, from every goroutine at once
			r, s, _, err := sh.priv.SignRaw(nil, msg(arg))
			if err != nil {
				return "err"
			}
			return strconv.FormatBool(sh.pub.VerifyRaw(msg(arg), r, s)) + freshSep + scHex(r)
		}},
		{"generate_key", func(sh *shared, arg int) string {
			var b []byte
			ok := false
			if arg%2 == 0 {
				k, err := secec.GenerateKey()
				if err != nil {
					return "err"
				}
				b = k.Bytes()
				ok = secp256k1.NewIdentityPoint().ScalarBaseMult(k.Scalar()).Equal(k.PublicKey().Point()) == 1
			} else {
				k, err := bitcoin.GenerateSchnorrKey()
				if err != nil {
					return "err"
				}
				b = k.Bytes()
				x, _ := secp256k1.NewIdentityPoint().ScalarBaseMult(k.Scalar()).XBytes()
				ok = bytes.Equal(x, k.PublicKey().Bytes())
			}
			return strconv.FormatBool(ok) + freshSep + hx(sha256Sum(b))
		}},
		{"schnorr_sign_system_rand", func(sh *shared, arg int) string {
			sig, err := sh.spriv.Sign(nil, msg(arg), nil)
			if err != nil {
				return "err"
			}
			return strconv.FormatBool(sh.spub.Verify(msg(arg), sig)) // (deterministic in the key and message up to the aux bytes: no token)
		}},
		{"schnorr_sign", func(sh *shared, arg int) string {
			sig, err := sh.spriv.Sign(&fixedReader{ent(arg)}, msg(arg), nil)
			if err != nil {
				return "err"
			}
			return hx(sig)
		}},
		{"schnorr_verify", func(sh *shared, arg int) string {
			m := sh.dig
			if arg%2 == 1 {
				m = msg(arg)
			}
			return strconv.FormatBool(sh.spub.Verify(m, sh.ssig))
		}},
	}
}

// safely runs one operation; a panic inside the library (possible when shared state was corrupted by a race) becomes a result
func safely(o concOp, sh *shared, arg int) (out string) {
	defer func() {
		if r := recover(); r != nil {
			out = "panic"
		}
	}()
	return o.f(sh, arg)
}

func driveConc(c *ctx)       { concRun(c, false) }
func driveConcHammer(c *ctx) { concRun(c, true) }

func concRun(c *ctx, hammer bool) {
	// phase 0: first use of the precomputed tables from many goroutines at once, before anything else has touched them
	if !hammer {
		var wg sync.WaitGroup
		outs := make([]string, 32)
		for g := 0; g < 32; g++ {
			wg.Add(1)
			go func(g int) {
				defer wg.Done()
				defer func() {
					if r := recover(); r != nil {
						outs[g] = "panic"
					}
				}()
				s := secp256k1.NewScalarFromUint64(uint64(1000003 + g%4))
				outs[g] = hx(secp256k1.NewIdentityPoint().ScalarBaseMult(s).CompressedBytes())
			}(g)
		}
		wg.Wait()
		for g := 0; g < 32; g++ {
			s := secp256k1.NewScalarFromUint64(uint64(1000003 + g%4))
			c.E("conc.Init", "g", g, "out", outs[g], "seq", hx(secp256k1.NewIdentityPoint().ScalarBaseMult(s).CompressedBytes()))
		}
	}
	rng := rand.New(rand.NewSource(c.seed))
	d := add(randBig(rng, add(bigN, -1)), 1)
	sh := &shared{priv: privFrom(d)}
	sh.pub = sh.priv.PublicKey()
	sh.peer = privFrom(add(randBig(rng, add(bigN, -1)), 1)).PublicKey()
	sh.spriv = bitcoin.NewSchnorrPrivateKeyFromECDSA(sh.priv)
	sh.spub = sh.spriv.PublicKey()
	sh.pt = rep(mulG(randBig(rng, bigN)), add(randBig(rng, add(bigP, -1)), 1))
	sh.sc = scFrom(randBig(rng, bigN))
	sh.dig = randBytes(rng, 32)
	r, s, v, err := sh.priv.SignRaw(&fixedReader{randBytes(rng, 32)}, sh.dig)
	if err != nil {
		panic(err)
	}
	sh.sig = [3]*secp256k1.Scalar{r, s, nil}
	sh.v = v
	sh.ssig, err = sh.spriv.Sign(&fixedReader{randBytes(rng, 32)}, sh.dig, nil)
	if err != nil {
		panic(err)
	}
	sh.pt2 = rep(mulG(randBig(rng, bigN)), add(randBig(rng, add(bigP, -1)), 1))
	sh.group = int64(c.scale(32, 64))
	for i := 0; i < 600; i++ {
		dd := add(randBig(rng, add(bigN, -1)), 1)
		sh.freshKeys = append(sh.freshKeys, privFrom(dd)) // (constructed, never looked at)
		sh.freshPub = append(sh.freshPub, hx(mulG(dd).UncompressedBytes()))
	}
	for i := 0; i < c.scale(1600, 4800); i++ {
		dd := add(randBig(rng, add(bigN, -1)), 1)
		kb := be32(dd)[:]
		o := freshObj{kind: i % freshObjKinds, dig: randBytes(rng, 32), ent: randBytes(rng, 32)}
		twinPriv := privFrom(dd)
		twinS, err := bitcoin.NewSchnorrPrivateKey(kb)
		if err != nil {
			panic(err)
		}
		switch o.kind {
		case 0, 1, 2:
			o.priv = privFrom(dd)
		case 3, 4:
			o.sig, err = twinPriv.Sign(&fixedReader{append([]byte{}, o.ent...)}, o.dig, &secec.ECDSAOptions{Encoding: secec.EncodingCompact})
			if err != nil {
				panic(err)
			}
			enc := twinPriv.PublicKey().CompressedBytes()
			if i%2 == 0 {
				enc = twinPriv.PublicKey().Bytes()
			}
			if o.pub, err = secec.NewPublicKey(enc); err != nil {
				panic(err)
			}
		case 5:
			if o.spriv, err = bitcoin.NewSchnorrPrivateKey(kb); err != nil {
				panic(err)
			}
		default:
			if o.sig, err = twinS.Sign(&fixedReader{append([]byte{}, o.ent...)}, o.dig, nil); err != nil {
				panic(err)
			}
			if o.spub, err = bitcoin.NewSchnorrPublicKey(twinS.PublicKey().Bytes()); err != nil {
				panic(err)
			}
		}
		o.want = useFresh(o.kind, twinPriv, twinPriv.PublicKey(), twinS, twinS.PublicKey(), sh.peer, o.dig, o.ent, o.sig)
		sh.freshObjs = append(sh.freshObjs, o)
	}
	sh.opts = &secec.ECDSAOptions{Encoding: secec.EncodingCompact}
	optsAtStart := optsImage(sh.opts)
	sh.dst = []byte("conc-shared-dst")
	sh.csig = secec.BuildCompactSignature(r, s)
	ops := concOps()
	nargs := 4
	c.nextTrace()
	// phase 1: sequential results
	for _, o := range ops {
		for a := 0; a < nargs; a++ {
			out, fresh := splitFresh(safely(o, sh, a))
			c.E("conc.Base", "op", o.name, "arg", a, "out", out, "fresh", fresh)
		}
	}
	before := sh.images()
	// phase 2: concurrent read-only use
	procs := []int{runtime.NumCPU(), 2, 4}
	G := c.scale(32, 64)
	rounds := c.scale(3, 12)
	type res struct {
		op  string
		arg int
		out string
	}
	total := 0
	if hammer {
		rounds = 0
	}
	for round := 0; round < rounds; round++ {
		runtime.GOMAXPROCS(procs[round%len(procs)])
		results := make([][]res, G)
		var wg sync.WaitGroup
		start := make(chan struct{})
		for g := 0; g < G; g++ {
			wg.Add(1)
			seed := c.seed*7919 + int64(round*1000+g)
			go func(g int, seed int64) {
				defer wg.Done()
				lr := rand.New(rand.NewSource(seed))
				<-start
				for k := 0; k < 6; k++ {
					o := ops[lr.Intn(len(ops))]
					a := lr.Intn(nargs)
					results[g] = append(results[g], res{o.name, a, safely(o, sh, a)})
				}
			}(g, seed)
		}
		close(start)
		wg.Wait()
		for g := range results {
			for k, r := range results[g] {
				out, fresh := splitFresh(r.out)
				c.E("conc.Call", "round", round, "g", g, "seq", k, "op", r.op, "arg", r.arg, "out", out, "fresh", fresh)
				total++
			}
		}
	}
	// phase 3: every operation on its own, hammered by all goroutines at once (shared state INSIDE one operation — a static scratch
	// slot, a pooled buffer — needs two callers in the same few instructions; the random mix above rarely puts them there)
	runtime.GOMAXPROCS(runtime.NumCPU())
	iters := c.scale(40, 120) // > 1024 calls per operation (anything that refreshes shared state every 2^k calls comes round)
	for oi, o := range ops {
		if !hammer {
			break
		}
		results := make([][]res, G)
		var wg sync.WaitGroup
		start := make(chan struct{})
		for g := 0; g < G; g++ {
			wg.Add(1)
			go func(g int) {
				defer wg.Done()
				<-start
				for k := 0; k < iters; k++ {
					a := (g + k) % nargs
					results[g] = append(results[g], res{o.name, a, safely(o, sh, a)})
				}
			}(g)
		}
		close(start)
		wg.Wait()
		for g := range results {
			for k, r := range results[g] {
				out, fresh := splitFresh(r.out)
				c.E("conc.Call", "round", 1000+oi, "g", g, "seq", k, "op", r.op, "arg", r.arg, "out", out, "fresh", fresh)
				total++
			}
		}
	}
	after := sh.images()
	for name, b := range before {
		c.E("conc.Frame", "obj", name, "same", bytes.Equal(b, after[name]), "before", hx(sha256Sum(b)), "after", hx(sha256Sum(after[name])))
	}
	// the options object is an INPUT: as the caller built it, from construction to the end (sequential phase included)
	c.E("conc.Frame", "obj", "opts", "same", bytes.Equal(optsAtStart, optsImage(sh.opts)), "before", hx(sha256Sum(optsAtStart)), "after", hx(sha256Sum(optsImage(sh.opts))))
	c.E("conc.Done", "goroutines", G, "rounds", rounds, "calls", total, "race_build", raceEnabled, "pid", os.Getpid())
	c.sticky = false
	_ = big.NewInt
}
