//go:build verif && !purego

package main

const isPurego = false
