//go:build verif

package main

import (
	"bytes"
	"crypto/hmac"
	"crypto/sha256"
	"math/big"
	"math/rand"

	secp256k1 "gitlab.com/yawning/secp256k1-voi"
	"gitlab.com/yawning/secp256k1-voi/internal/field"
)

// Helpers shared by all drivers; nothing here needs the verif accessors (see deep_on.go / deep_off.go).

// Lattice basis of the GLV decomposition (libsecp256k1's constants); used ONLY to steer inputs.
var (
	glvA1 = bi("3086d221a7d46bcde86c90e49284eb15")
	glvB1 = new(big.Int).Neg(bi("e4437ed6010e88286f547fa90abfe4c3"))
	glvA2 = bi("114ca50f7a8e2f3f657c1108d9d44cfd8")
	glvB2 = bi("3086d221a7d46bcde86c90e49284eb15")
	glvG1 = bi("3086d221a7d46bcde86c90e49284eb153daa8a1471e8ca7fe893209a45dbb031")
	glvG2 = bi("e4437ed6010e88286f547fa90abfe4c4221208ac9df506c61571b4ae8ac47f71")
)

func h32(v *big.Int) string { return hx(be32(v)[:]) }

func feFrom(v *big.Int) *field.Element {
	fe, err := field.NewElementFromCanonicalBytes(be32(v))
	if err != nil {
		panic("feFrom: " + err.Error())
	}
	return fe
}

// feHex is the canonical encoding of fe; like scHex it watches the internal (Montgomery) representation.
func feHex(fe *field.Element) string {
	b := fe.Bytes()
	watchFe(fe, b)
	return hx(b)
}

// catch runs f and reports whether it panicked.
func catch(f func()) (panicked bool) {
	defer func() {
		if r := recover(); r != nil {
			panicked = true
		}
	}()
	f()
	return false
}

func b2i(b bool) int {
	if b {
		return 1
	}
	return 0
}

// feJunk returns a receiver pre-filled with a seeded non-zero value (so that "receiver unchanged"
// and "receiver fully overwritten" are observable and runs are reproducible).
func feJunk(r *rand.Rand) *field.Element {
	return feFrom(add(randBig(r, add(bigP, -1)), 1))
}

func scFrom(v *big.Int) *secp256k1.Scalar {
	s, err := secp256k1.NewScalarFromCanonicalBytes(be32(v))
	if err != nil {
		panic("scFrom: " + err.Error())
	}
	return s
}

// scHex is the canonical encoding of s.  It also watches the INTERNAL representation: the Montgomery limbs of every scalar the
// harness looks at must be the canonical residue v*R mod n (a value like n itself in the limbs encodes to 0 but is not zero for
// IsZero / Equal).  Every anomaly, and a sample of the normal cases, is logged as an sc.Canon event; TLC decides.
func scHex(s *secp256k1.Scalar) string {
	b := s.Bytes()
	watchSc(s, b)
	return hx(b)
}

func scJunk(r *rand.Rand) *secp256k1.Scalar {
	return scFrom(add(randBig(r, add(bigN, -1)), 1))
}

func mulG(k *big.Int) *secp256k1.Point {
	return secp256k1.NewIdentityPoint().ScalarBaseMult(scFrom(new(big.Int).Mod(k, bigN)))
}

func encOrPanic(p *secp256k1.Point) string {
	s := "panic"
	catch(func() { s = hx(p.UncompressedBytes()) })
	return s
}

// gauss2 reduces the 2-d lattice basis (u, v) (Lagrange/Gauss).
func gauss2(u, v [2]*big.Int) ([2]*big.Int, [2]*big.Int) {
	norm := func(a [2]*big.Int) *big.Int {
		return new(big.Int).Add(new(big.Int).Mul(a[0], a[0]), new(big.Int).Mul(a[1], a[1]))
	}
	dot := func(a, b [2]*big.Int) *big.Int {
		return new(big.Int).Add(new(big.Int).Mul(a[0], b[0]), new(big.Int).Mul(a[1], b[1]))
	}
	for i := 0; i < 2000; i++ {
		if norm(u).Cmp(norm(v)) < 0 {
			u, v = v, u
		}
		// u = u - round(<u,v>/<v,v>) v
		nv := norm(v)
		if nv.Sign() == 0 {
			break
		}
		q := roundDiv(dot(u, v), nv)
		if q.Sign() == 0 {
			break
		}
		u = [2]*big.Int{new(big.Int).Sub(u[0], new(big.Int).Mul(q, v[0])), new(big.Int).Sub(u[1], new(big.Int).Mul(q, v[1]))}
	}
	return u, v
}

func roundDiv(a, b *big.Int) *big.Int {
	// round(a/b), b > 0
	two := big.NewInt(2)
	num := new(big.Int).Add(new(big.Int).Mul(a, two), b)
	den := new(big.Int).Mul(b, two)
	q := new(big.Int).Div(num, den) // floor for positive den (big.Int Div is Euclidean)
	return q
}

// smallMultNear finds s in [1, 2^256) ∩ [1, n) such that (s*g mod 2^mbits) is within about tol of target.
// It reduces the lattice {(s*2^scale, s*g mod 2^mbits)} and applies Babai rounding, then perturbs with
// short vectors.  Untrusted steering: the trace specification classifies what was actually achieved.
func smallMultNear(r *rand.Rand, g *big.Int, mbits uint, target *big.Int, scale uint) []*big.Int {
	M := pow2(mbits)
	u := [2]*big.Int{pow2(scale), new(big.Int).Mod(g, M)}
	v := [2]*big.Int{big.NewInt(0), M}
	u, v = gauss2(u, v)
	// solve c1*u + c2*v ~ (0, target) over the rationals
	det := new(big.Int).Sub(new(big.Int).Mul(u[0], v[1]), new(big.Int).Mul(u[1], v[0]))
	if det.Sign() == 0 {
		return nil
	}
	// (0, t) = c1 u + c2 v  =>  c1 = (0*v1 - t*v0)/det, c2 = (u0*t - u1*0)/det
	c1n := new(big.Int).Neg(new(big.Int).Mul(target, v[0]))
	c2n := new(big.Int).Mul(u[0], target)
	if det.Sign() < 0 {
		det.Neg(det)
		c1n.Neg(c1n)
		c2n.Neg(c2n)
	}
	c1, c2 := roundDiv(c1n, det), roundDiv(c2n, det)
	var out []*big.Int
	for d1 := int64(-2); d1 <= 2; d1++ {
		for d2 := int64(-2); d2 <= 2; d2++ {
			a, b := add(c1, d1), add(c2, d2)
			x := new(big.Int).Add(new(big.Int).Mul(a, u[0]), new(big.Int).Mul(b, v[0]))
			if new(big.Int).Mod(x, pow2(scale)).Sign() != 0 {
				continue
			}
			s := new(big.Int).Rsh(x, scale)
			if x.Sign() < 0 {
				s = new(big.Int).Neg(new(big.Int).Rsh(new(big.Int).Neg(x), scale))
			}
			s.Mod(s, M)
			if s.Sign() > 0 && s.Cmp(bigN) < 0 {
				out = append(out, s)
			}
		}
	}
	return out
}

// steeredScalars returns scalars aimed at the corner cases named by C04.
func steeredScalars(r *rand.Rand, nRand int) []*big.Int {
	half := new(big.Int).Rsh(add(bigN, -1), 1)
	var out []*big.Int
	put := func(v *big.Int) { out = append(out, new(big.Int).Mod(v, bigN)) }
	for d := int64(0); d <= 2; d++ {
		put(big.NewInt(d))
		put(add(bigN, -1-d))
		put(add(half, d))
		put(add(half, -d))
	}
	lam := bigLambda
	lam2 := new(big.Int).Mod(new(big.Int).Mul(lam, lam), bigN)
	for _, v := range []*big.Int{lam, lam2, new(big.Int).Neg(lam), new(big.Int).Neg(lam2), add(lam, 1), add(lam, -1), add(lam2, 1)} {
		put(v)
	}
	for _, k := range []uint{64, 127, 128, 129, 192, 255} {
		put(pow2(k))
		put(add(pow2(k), -1))
	}
	// halves at extreme magnitude: (k1, k2) = e1*(a1,b1) + e2*(a2,b2) with |e_i| just below 1/2
	den := big.NewInt(1 << 30)
	for _, s1 := range []int64{1, -1} {
		for _, s2 := range []int64{1, -1} {
			for t := 0; t < 6; t++ {
				e1 := big.NewInt(s1 * ((1 << 29) - 1 - int64(r.Intn(1<<(4*uint(t)+1)))))
				e2 := big.NewInt(s2 * ((1 << 29) - 1 - int64(r.Intn(1<<(4*uint(t)+1)))))
				k1 := new(big.Int).Add(new(big.Int).Mul(e1, glvA1), new(big.Int).Mul(e2, glvA2))
				k2 := new(big.Int).Add(new(big.Int).Mul(e1, glvB1), new(big.Int).Mul(e2, glvB2))
				k1 = roundDiv(k1, den)
				k2 = roundDiv(k2, den)
				put(new(big.Int).Add(k1, new(big.Int).Mul(k2, lam)))
			}
		}
	}
	// ... and much closer to the corners of the cell (within 2^-60, 2^-100, 2^-126 of 1/2): the halves within a few units of their
	// extreme magnitudes, where a range assertion or a bound constant that is off in a middle digit first bites
	for _, sh := range []uint{60, 100, 126} {
		dn := pow2(sh)
		halfDn := pow2(sh - 1)
		for _, s1 := range []int64{1, -1} {
			for _, s2 := range []int64{1, -1} {
				for t := 0; t < 2; t++ {
					e1 := new(big.Int).Mul(big.NewInt(s1), add(halfDn, -1-int64(r.Intn(3+60*t))))
					e2 := new(big.Int).Mul(big.NewInt(s2), add(halfDn, -1-int64(r.Intn(3+60*t))))
					k1 := new(big.Int).Add(new(big.Int).Mul(e1, glvA1), new(big.Int).Mul(e2, glvA2))
					k2 := new(big.Int).Add(new(big.Int).Mul(e1, glvB1), new(big.Int).Mul(e2, glvB2))
					put(new(big.Int).Add(roundDiv(k1, dn), new(big.Int).Mul(roundDiv(k2, dn), lam)))
				}
			}
		}
	}
	// rounding bit (bit 383 of s*g) on either side of a flip
	for _, g := range []*big.Int{glvG1, glvG2} {
		for _, d := range []int64{1, -1} {
			tgt := new(big.Int).Add(pow2(383), new(big.Int).Mul(big.NewInt(d), pow2(300)))
			for _, s := range smallMultNear(r, g, 384, tgt, 88) {
				put(s)
			}
		}
		// rounded quotient carries across the 64-bit limb: (s*g mod 2^448) in [2^448 - 2^383, 2^448)
		tgt := new(big.Int).Sub(pow2(448), pow2(382))
		for _, s := range smallMultNear(r, g, 448, tgt, 126) {
			put(s)
		}
	}
	// round 10: EXACT ties of the rounded quotient - s*g = X*2^384 + 2^383 + d with 0 <= d < g (so that every limb between the rounding
	// bit and d is zero), and the neighbours on either side: a special case for "exactly one half" can only show here
	for _, g := range []*big.Int{glvG1, glvG2} {
		for t := 0; t < 3; t++ {
			X := randBig(r, pow2(uint(100+12*t)))
			num := new(big.Int).Add(new(big.Int).Lsh(X, 384), pow2(383))
			k := new(big.Int).Div(new(big.Int).Add(num, add(g, -1)), g) // ceil
			for _, d := range []int64{-1, 0, 1} {
				if v := add(k, d); v.Sign() > 0 && v.Cmp(bigN) < 0 {
					put(v)
				}
			}
		}
	}
	// round 10: scalars built from CHOSEN halves k1 + k2*lambda: both halves with the same number of leading zero bytes and leading
	// bytes that add up to 256 (a byte-wise "both zero" test on the sum wraps), or one half shorter than the other
	for _, z := range []int{0, 1, 2, 5, 8, 11, 14} {
		for _, ab := range [][2]byte{{0x80, 0x80}, {0x7f, 0x81}, {0x01, 0xff}, {0xff, 0x01}, {0x40, 0xc0}, {0x00, 0x9a}, {0x9a, 0x00}} {
			mk := func(lead byte) *big.Int {
				b := make([]byte, 16)
				for i := z; i < 16; i++ {
					b[i] = byte(r.Intn(256))
				}
				b[z] = lead
				if z == 0 && lead >= 0x80 {
					b[z] = lead >> 1 // keep the half inside the cell
				}
				return new(big.Int).SetBytes(b)
			}
			k1, k2 := mk(ab[0]), mk(ab[1])
			for _, sg := range [][2]int64{{1, 1}, {1, -1}, {-1, 1}} {
				put(new(big.Int).Add(new(big.Int).Mul(big.NewInt(sg[0]), k1), new(big.Int).Mul(new(big.Int).Mul(big.NewInt(sg[1]), k2), lam)))
			}
		}
	}
	// round 10: limbs that a digit recoding fills up - adding the per-digit bias of a signed-window recoding (0x80 per byte, 8 per nibble,
	// 0x10 per 5-bit digit ...) to such a limb gives all ones, so that a carry coming in from below has to ripple through it
	for _, bias := range []uint64{0x8080808080808080, 0x8888888888888888, 0x0842108421084210, 0x8000000000000000, 0x0101010101010101} {
		full := ^bias
		for hiLimb := 1; hiLimb < 4; hiLimb++ {
			for _, below := range []uint64{full + 1, full + 2, ^uint64(0), full, full - 1} {
				var l [4]uint64
				for i := range l {
					l[i] = r.Uint64()
				}
				l[3] >>= 2
				l[hiLimb] = full
				l[hiLimb-1] = below
				if hiLimb == 3 {
					l[3] = full >> 1 // stay below n
				}
				put(limbsToBig(l))
			}
		}
	}
	for i := 0; i < nRand; i++ {
		put(randBig(r, bigN))
	}
	// every pattern of zero / non-zero 64-bit limbs
	for pat := 1; pat < 16; pat++ {
		var l [4]uint64
		for k := 0; k < 4; k++ {
			if pat&(1<<uint(k)) != 0 {
				l[k] = r.Uint64() | 1
			}
		}
		put(limbsToBig(l))
	}
	// nibble patterns
	for _, pat := range []string{"00", "ff", "0f", "f0", "10", "01"} {
		b := ""
		for i := 0; i < 32; i++ {
			b += pat
		}
		put(bi(b))
	}
	// scalars whose INTERNAL (Montgomery) form is a limb pattern — {1,0,0,0} is 2^-256 mod n, not 1 (a predicate that reads the limbs
	// raw takes it for one), single limbs, single bits
	for _, v := range montPatternValues(r, bigN) {
		put(v)
	}
	return out
}

// taggedHash is BIP-340's tagged hash; used only to CONSTRUCT inputs (the specification recomputes every hash itself).
func taggedHash(tag string, vals ...[]byte) []byte {
	t := sha256.Sum256([]byte(tag))
	h := sha256.New()
	_, _ = h.Write(t[:])
	_, _ = h.Write(t[:])
	for _, v := range vals {
		_, _ = h.Write(v)
	}
	return h.Sum(nil)
}

// ---- a tiny affine secp256k1 in math/big, so that inputs (keys, valid signatures) can be prepared WITHOUT calling the library:
// a driver's first library call can then be of the kind under test ("cold start": a verifier-only process).  Untrusted, like
// every generator: the specification decides what the library must answer.
var (
	bigGx = bi("79be667ef9dcbbac55a06295ce870b07029bfcdb2dce28d959f2815b16f81798")
	bigGy = bi("483ada7726a3c4655da4fbfc0e1108a8fd17b448a68554199c47d08ffb10d4b8")
)

// bigECAdd adds affine points (nil = the point at infinity).
func bigECAdd(a, b *xy) *xy {
	if a == nil {
		return b
	}
	if b == nil {
		return a
	}
	var lam *big.Int
	if a.x.Cmp(b.x) == 0 {
		if new(big.Int).Mod(new(big.Int).Add(a.y, b.y), bigP).Sign() == 0 {
			return nil
		}
		num := new(big.Int).Mul(big.NewInt(3), new(big.Int).Mul(a.x, a.x))
		den := new(big.Int).ModInverse(new(big.Int).Mod(new(big.Int).Lsh(a.y, 1), bigP), bigP)
		lam = new(big.Int).Mod(new(big.Int).Mul(num, den), bigP)
	} else {
		num := new(big.Int).Sub(b.y, a.y)
		den := new(big.Int).ModInverse(new(big.Int).Mod(new(big.Int).Sub(b.x, a.x), bigP), bigP)
		lam = new(big.Int).Mod(new(big.Int).Mul(num, den), bigP)
	}
	x3 := new(big.Int).Mod(new(big.Int).Sub(new(big.Int).Sub(new(big.Int).Mul(lam, lam), a.x), b.x), bigP)
	y3 := new(big.Int).Mod(new(big.Int).Sub(new(big.Int).Mul(lam, new(big.Int).Sub(a.x, x3)), a.y), bigP)
	return &xy{x3, y3}
}

// bigECMul is k*p by double-and-add.
func bigECMul(k *big.Int, p *xy) *xy {
	var acc *xy
	for i := k.BitLen() - 1; i >= 0; i-- {
		acc = bigECAdd(acc, acc)
		if k.Bit(i) == 1 {
			acc = bigECAdd(acc, p)
		}
	}
	return acc
}

// bigECDSA returns a public key (uncompressed bytes), a digest and a valid low-s signature (r, s) computed with math/big only.
func bigECDSA(r *rand.Rand) (pub []byte, digest []byte, rr, ss *big.Int) {
	for {
		d := add(randBig(r, add(bigN, -1)), 1)
		k := add(randBig(r, add(bigN, -1)), 1)
		digest = randBytes(r, 32)
		e := new(big.Int).Mod(new(big.Int).SetBytes(digest), bigN)
		Q := bigECMul(d, &xy{bigGx, bigGy})
		R := bigECMul(k, &xy{bigGx, bigGy})
		rr = new(big.Int).Mod(R.x, bigN)
		ss = new(big.Int).Mod(new(big.Int).Mul(new(big.Int).ModInverse(k, bigN), new(big.Int).Add(e, new(big.Int).Mul(rr, d))), bigN)
		if rr.Sign() == 0 || ss.Sign() == 0 {
			continue
		}
		if ss.Cmp(new(big.Int).Rsh(bigN, 1)) > 0 {
			ss.Sub(bigN, ss)
		}
		return encUnc(*Q), digest, rr, ss
	}
}

// montPatternValues returns values whose INTERNAL (Montgomery, R = 2^256) form v*R mod m is a structured limb pattern: all low
// halves zero, a single limb set, only the top bit of a limb, and so on.  Predicates that fold or narrow the limbs (IsZero, Equal,
// IsOdd, comparisons) are decided on these limbs, not on the value.
func montPatternValues(r *rand.Rand, m *big.Int) []*big.Int {
	rinv := new(big.Int).ModInverse(new(big.Int).Mod(big2_256, m), m)
	var pats [][4]uint64
	hi := func() uint64 { return (r.Uint64() | 1<<32) &^ 0xffffffff } // low 32 bits zero, not zero
	pats = append(pats, [4]uint64{hi(), hi(), hi(), hi() >> 1}, [4]uint64{hi(), 0, 0, 0}, [4]uint64{0, 0, 0, hi() >> 1}, [4]uint64{0, hi(), hi(), 0})
	for k := 0; k < 4; k++ {
		var one, top, lo32 [4]uint64
		one[k], top[k], lo32[k] = 1, 1<<63, 0xffffffff
		if k == 3 {
			top[k] = 1 << 62
		}
		pats = append(pats, one, top, lo32)
		var allBut [4]uint64
		for j := range allBut {
			if j != k {
				allBut[j] = r.Uint64()
			}
		}
		allBut[3] >>= 1
		pats = append(pats, allBut)
	}
	pats = append(pats, [4]uint64{1 << 63, 1 << 63, 1 << 63, 0}, [4]uint64{0x8000000000000000, 0, 0, 0}, [4]uint64{0xffffffff00000000, 0xffffffff00000000, 0xffffffff00000000, 0x7fffffff00000000})
	var out []*big.Int
	for _, p := range pats {
		l := limbsToBig(p)
		if l.Cmp(m) >= 0 || l.Sign() == 0 {
			continue
		}
		out = append(out, new(big.Int).Mod(new(big.Int).Mul(l, rinv), m))
	}
	return out
}

// bigSchnorr returns an x-only public key, a message and a valid BIP-340 signature computed with math/big and crypto/sha256 only.
func bigSchnorr(r *rand.Rand) (pk, msg, sig []byte) {
	for {
		d := add(randBig(r, add(bigN, -1)), 1)
		P := bigECMul(d, &xy{bigGx, bigGy})
		if P.y.Bit(0) == 1 {
			d = new(big.Int).Sub(bigN, d)
		}
		k := add(randBig(r, add(bigN, -1)), 1)
		R := bigECMul(k, &xy{bigGx, bigGy})
		if R.y.Bit(0) == 1 {
			k = new(big.Int).Sub(bigN, k)
		}
		msg = randBytes(r, 32)
		pk = be32(P.x)[:]
		rx := be32(R.x)[:]
		e := new(big.Int).Mod(new(big.Int).SetBytes(taggedHash("BIP0340/challenge", rx, pk, msg)), bigN)
		s := new(big.Int).Mod(new(big.Int).Add(k, new(big.Int).Mul(e, d)), bigN)
		return pk, msg, append(append([]byte{}, rx...), be32(s)[:]...)
	}
}

// nearCurvePoints returns off-curve points aimed at the comparison the curve check makes: y^2 and x^3 + 7 agree in every 64-bit
// limb of their internal (Montgomery, R = 2^256) form but ONE, in one bit.
func nearCurvePoints(r *rand.Rand, perLimb int) []xy {
	rinv := new(big.Int).ModInverse(new(big.Int).Mod(big2_256, bigP), bigP)
	var out []xy
	for limb := uint(0); limb < 4; limb++ {
		found := 0
		for tries := 0; tries < 400 && found < perLimb; tries++ {
			x := randBig(r, bigP)
			tm := new(big.Int).Mod(new(big.Int).Mul(yyOf(x), big2_256), bigP)
			tm2 := new(big.Int).Xor(tm, pow2(64*limb+uint(r.Intn(64))))
			if tm2.Cmp(bigP) >= 0 {
				continue
			}
			y := sqrtP(new(big.Int).Mod(new(big.Int).Mul(tm2, rinv), bigP))
			if y == nil {
				continue
			}
			found++
			out = append(out, xy{x, y})
		}
	}
	return out
}

var bigBeta, _ = new(big.Int).SetString("7ae96a2b657c07106e64479eac3434e99cf0497512f58995c1396c28719501ee", 16) // beta^3 = 1 mod p

// limbTwinMasks: XOR patterns over the four internal limbs that a sloppy accumulation of per-limb differences cancels — the
// same bit in two limbs (xor-accumulate), bit 63 in two limbs or bit 62 in four (sum wraps to 2^64), d in one limb and 2^64-d
// in another, one-limb differences of every width (a truncated accumulator), differences only in the top or only in the bottom limb.
func limbTwinMasks(r *rand.Rand) [][4]uint64 {
	var out [][4]uint64
	for i := 0; i < 4; i++ {
		for j := i + 1; j < 4; j++ {
			for _, k := range []uint{0, 31, 32, 61, 63} {
				var m [4]uint64
				m[i], m[j] = 1<<k, 1<<k
				out = append(out, m)
			}
			d := r.Uint64()>>2 | 1
			var m [4]uint64
			m[i], m[j] = d, -d
			if j == 3 {
				m[i], m[j] = -d, d
			}
			out = append(out, m)
		}
		var one [4]uint64
		one[i] = 1 << uint(r.Intn(62))
		out = append(out, one)
		one[i] = 0xffffffff00000000 >> uint(2*b2i(i == 3))
		out = append(out, one)
	}
	out = append(out, [4]uint64{1 << 62, 1 << 62, 1 << 62, 1 << 62}, [4]uint64{1 << 63, 1 << 62, 1 << 62, 0}, [4]uint64{1 << 63, 1 << 63, 0, 0}, [4]uint64{0, 1 << 63, 1 << 63, 0})
	return out
}

// limbTwins returns pairs of DISTINCT canonical residues mod m whose Montgomery limbs differ exactly by one of the masks.
func limbTwins(r *rand.Rand, m *big.Int) [][2]*big.Int {
	rinv := new(big.Int).ModInverse(new(big.Int).Mod(big2_256, m), m)
	var out [][2]*big.Int
	for _, mask := range limbTwinMasks(r) {
		for try := 0; try < 20; try++ {
			u := bigToLimbs(randBig(r, m))
			var lo, hi [4]uint64
			for i := range u {
				lo[i], hi[i] = u[i]&^mask[i], u[i]|mask[i]
			}
			a, b := limbsToBig(lo), limbsToBig(hi)
			if b.Cmp(m) >= 0 {
				continue
			}
			out = append(out, [2]*big.Int{new(big.Int).Mod(new(big.Int).Mul(a, rinv), m), new(big.Int).Mod(new(big.Int).Mul(b, rinv), m)})
			break
		}
	}
	return out
}

// betaTwinW returns residues w mod p such that the Montgomery limbs of w and of beta*w differ EXACTLY by one of the masks:
// for any point P = (x, y) the representative (beta*x*z : y*z : z) of lambda*P with z = w/x then cross-multiplies, in
// Point.Equal, to a pair of field elements that such an accumulation takes for equal — while the y comparison is genuinely equal.
func betaTwinW(r *rand.Rand, beta *big.Int) []*big.Int {
	rinv := new(big.Int).ModInverse(new(big.Int).Mod(big2_256, bigP), bigP)
	bm1inv := new(big.Int).ModInverse(new(big.Int).Mod(add(beta, -1), bigP), bigP)
	var out []*big.Int
	for _, mask := range limbTwinMasks(r) {
		var idx []int
		for i, v := range mask {
			if v != 0 {
				idx = append(idx, i)
			}
		}
		for signs := 0; signs < 1<<len(idx); signs++ {
			delta := new(big.Int)
			for n, i := range idx {
				t := new(big.Int).Lsh(new(big.Int).SetUint64(mask[i]), uint(64*i))
				if signs>>n&1 == 1 {
					t.Neg(t)
				}
				delta.Add(delta, t)
			}
			u := new(big.Int).Mod(new(big.Int).Mul(delta, bm1inv), bigP) // Montgomery form of w: beta*u - u = delta
			bu := new(big.Int).Mod(new(big.Int).Mul(u, beta), bigP)
			ul, bl := bigToLimbs(u), bigToLimbs(bu)
			exact := true
			for i := range ul {
				exact = exact && ul[i]^bl[i] == mask[i]
			}
			if exact && u.Sign() != 0 {
				out = append(out, new(big.Int).Mod(new(big.Int).Mul(u, rinv), bigP))
			}
		}
	}
	return out
}

// rfc6979First returns the first candidate of the RFC 6979 (HMAC-SHA-256) generator for key d and reduced digest e — an UNTRUSTED
// convenience used only to steer inputs (digests whose first candidate has a chosen shape); the specification decides.
func rfc6979First(d, e *big.Int) *big.Int {
	x, h1 := be32(d)[:], be32(e)[:]
	mac := func(k []byte, parts ...[]byte) []byte {
		m := hmac.New(sha256.New, k)
		for _, p := range parts {
			m.Write(p)
		}
		return m.Sum(nil)
	}
	v := bytes.Repeat([]byte{1}, 32)
	k := make([]byte, 32)
	k = mac(k, v, []byte{0}, x, h1)
	v = mac(k, v)
	k = mac(k, v, []byte{1}, x, h1)
	v = mac(k, v)
	v = mac(k, v)
	return new(big.Int).SetBytes(v)
}

// xmdSHA256 is expand_message_xmd with SHA-256 (RFC 9380 5.3.1), untrusted, used only to steer messages towards field elements of a
// chosen shape.
func xmdSHA256(msg, dst []byte, n int) []byte {
	if len(dst) > 255 {
		h := sha256.Sum256(append([]byte("H2C-OVERSIZE-DST-"), dst...))
		dst = h[:]
	}
	dstPrime := append(append([]byte{}, dst...), byte(len(dst)))
	ell := (n + 31) / 32
	h := sha256.New()
	h.Write(make([]byte, 64))
	h.Write(msg)
	h.Write([]byte{byte(n >> 8), byte(n), 0})
	h.Write(dstPrime)
	b0 := h.Sum(nil)
	h.Reset()
	h.Write(b0)
	h.Write([]byte{1})
	h.Write(dstPrime)
	bi := h.Sum(nil)
	out := append([]byte{}, bi...)
	for i := 2; i <= ell; i++ {
		t := make([]byte, 32)
		for j := range t {
			t[j] = b0[j] ^ bi[j]
		}
		h.Reset()
		h.Write(t)
		h.Write([]byte{byte(i)})
		h.Write(dstPrime)
		bi = h.Sum(nil)
		out = append(out, bi...)
	}
	return out[:n]
}

// smallMultipleWindows returns residues v mod p whose INTERNAL (Montgomery) form m satisfies k*m = h*2^256 - (1 + r), 0 <= r < k:
// the product of the element with the small constant k is as close below a multiple of 2^256 as it gets, for every carry h
// (a specialised "multiply by a small constant" folds its carry-out h and may lose the carry of that fold).  k = 21 is 3b for
// secp256k1; 2, 3, 4 and 8 are the other constants the formulas multiply by.
func smallMultipleWindows(ks []int64) []*big.Int {
	rinv := new(big.Int).ModInverse(new(big.Int).Mod(big2_256, bigP), bigP)
	var out []*big.Int
	for _, k := range ks {
		for h := int64(1); h <= k; h++ {
			for _, back := range []int64{1, 1 << 33} { // just below the multiple, and just below it by more than the fold constant
				m := new(big.Int).Sub(new(big.Int).Mul(big.NewInt(h), big2_256), big.NewInt(back))
				m.Div(m, big.NewInt(k))
				if m.Cmp(bigP) >= 0 || m.Sign() == 0 {
					continue
				}
				out = append(out, new(big.Int).Mod(new(big.Int).Mul(m, rinv), bigP))
			}
		}
	}
	return out
}

// wideFoldInputs returns wide (33..64-byte) big-endian strings aimed at the carries of a special-form reduction: with c = 2^256 - p a
// value hi*2^256 + lo is congruent to hi*c + lo, and each of the additions in such a fold (and the folds of its own carries, and the
// final conditional subtraction) has a window a few units wide in which it carries.  Untrusted generator: the specification decides.
func wideFoldInputs(r *rand.Rand) [][]byte {
	cc := new(big.Int).Sub(big2_256, bigP)
	var out [][]byte
	emit := func(hi, lo *big.Int) {
		if lo.Sign() < 0 || lo.Cmp(big2_256) >= 0 || hi.Sign() <= 0 || hi.BitLen() > 256 {
			return
		}
		v := new(big.Int).Add(new(big.Int).Lsh(hi, 256), lo)
		l := (v.BitLen() + 7) / 8
		if l < 33 {
			l = 33
		}
		for _, ll := range []int{l, 64} {
			b := make([]byte, ll)
			v.FillBytes(b)
			out = append(out, b)
		}
	}
	q := new(big.Int).Div(big2_256, cc)
	his := []*big.Int{q, add(q, -1), add(q, 1), big.NewInt(1), big.NewInt(2), add(big2_256, -1), add(big2_256, -2), new(big.Int).Lsh(big.NewInt(1), 255)}
	for _, bl := range []uint{8, 31, 32, 33, 64, 128, 192, 200, 222, 223, 224, 225, 255, 256} {
		his = append(his, add(randBig(r, pow2(bl-1)), 0).Add(randBig(r, pow2(bl-1)), pow2(bl-1)))
	}
	for _, k := range []*big.Int{big.NewInt(2), big.NewInt(3), pow2(31), pow2(32), add(cc, -1), randBig(r, cc), randBig(r, cc)} { // hi * c just below k * 2^256
		h := new(big.Int).Div(new(big.Int).Mul(k, big2_256), cc)
		his = append(his, h, add(h, -1))
	}
	deltas := []*big.Int{big.NewInt(-2), big.NewInt(-1), big.NewInt(0), big.NewInt(1), big.NewInt(2), add(cc, -1), cc, add(cc, 1), new(big.Int).Neg(cc),
		new(big.Int).Neg(add(cc, 1)), pow2(32), new(big.Int).Neg(pow2(32)), pow2(64)}
	for _, hi := range his {
		t := new(big.Int).Mul(hi, cc)
		l2 := new(big.Int).Mod(t, big2_256)
		h2 := new(big.Int).Rsh(t, 256)
		h2c := new(big.Int).Mul(h2, cc)
		for _, d := range deltas {
			// the first fold's addition carries: l2 + lo = 2^256 + d
			emit(hi, new(big.Int).Add(new(big.Int).Sub(big2_256, l2), d))
			// ... or the sum with the carry of hi*c folded in as well does: l2 + lo + h2*c = 2^256 + d
			emit(hi, new(big.Int).Add(new(big.Int).Sub(new(big.Int).Sub(big2_256, l2), h2c), d))
			// ... or the folded value lands next to p (final conditional subtraction): l2 + lo + h2*c = p + d
			emit(hi, new(big.Int).Add(new(big.Int).Sub(new(big.Int).Sub(bigP, l2), h2c), d))
			// ... or next to 2p - 2^256 + ... (a second wrap): l2 + lo + h2*c = 2^256 + c + d
			emit(hi, new(big.Int).Add(new(big.Int).Sub(new(big.Int).Sub(new(big.Int).Add(big2_256, cc), l2), h2c), d))
			// ... or next to 2 * 2^256 - k c (both summands huge: the carry of the fold is folded in and carries AGAIN)
			for k := int64(0); k <= 2; k++ {
				tgt := new(big.Int).Sub(new(big.Int).Lsh(big2_256, 1), new(big.Int).Mul(big.NewInt(k), cc))
				emit(hi, new(big.Int).Add(new(big.Int).Sub(new(big.Int).Sub(tgt, l2), h2c), d))
			}
			emit(hi, new(big.Int).Add(new(big.Int).Sub(new(big.Int).Sub(new(big.Int).Sub(big2_256, new(big.Int).Lsh(cc, 1)), l2), h2c), d))
		}
	}
	return out
}

// collinearPartners returns the points Q != P of the curve with a*x(Q) + b*y(Q) = a*x(P) + b*y(P) for (a, b) in {(1, 1), (1, -1)}: the other
// intersections of the curve with the lines x + y = c and x - y = c through P (round 10).  A point comparison that folds the two
// coordinate tests into one test of a linear combination takes them for P.  The curve equation restricted to the line is a cubic in x
// whose roots add up to 1; with x(P) known the other two are the roots of a quadratic.  Untrusted: the specification decides.
func collinearPartners(px, py *big.Int) [][2]*big.Int {
	var out [][2]*big.Int
	if px.Sign() == 0 {
		return out
	}
	for _, sgn := range []int64{1, -1} {
		// line: y = sgn * (c - x) with c = x + sgn*y ... (c - x)^2 = x^3 + 7  =>  x^3 - x^2 + 2c x + 7 - c^2 = 0
		c := new(big.Int).Mod(new(big.Int).Add(px, new(big.Int).Mul(big.NewInt(sgn), py)), bigP)
		sum := new(big.Int).Mod(new(big.Int).Sub(big.NewInt(1), px), bigP)
		prod := new(big.Int).Mod(new(big.Int).Sub(new(big.Int).Mul(c, c), big.NewInt(7)), bigP)
		prod.Mul(prod, new(big.Int).ModInverse(px, bigP)).Mod(prod, bigP)
		disc := new(big.Int).Mod(new(big.Int).Sub(new(big.Int).Mul(sum, sum), new(big.Int).Lsh(prod, 2)), bigP)
		rt := new(big.Int).ModSqrt(disc, bigP)
		if rt == nil {
			continue
		}
		inv2 := new(big.Int).ModInverse(big.NewInt(2), bigP)
		for _, sr := range []*big.Int{rt, new(big.Int).Neg(rt)} {
			x := new(big.Int).Mod(new(big.Int).Mul(new(big.Int).Add(sum, sr), inv2), bigP)
			y := new(big.Int).Mod(new(big.Int).Mul(big.NewInt(sgn), new(big.Int).Sub(c, x)), bigP)
			if x.Cmp(px) == 0 && y.Cmp(py) == 0 {
				continue
			}
			out = append(out, [2]*big.Int{x, y})
		}
	}
	return out
}
