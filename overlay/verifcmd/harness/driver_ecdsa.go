//go:build verif

package main

import (
	"bytes"
	"crypto"
	"crypto/sha256"
	"crypto/sha512"
	"encoding/json"
	"errors"
	"io"
	"math/big"
	"math/rand"
	"os"
	"path/filepath"

	secp256k1 "gitlab.com/yawning/secp256k1-voi"
	"gitlab.com/yawning/secp256k1-voi/secec"
	"gitlab.com/yawning/secp256k1-voi/secec/bitcoin"
)

func init() {
	register("verify", "C07: ECDSA verification on constructed boundary cases, every encoding x option, Wycheproof re-driven", driveVerify)
	register("sign", "C08: ECDSA signing over keys, digests, entropy, every option combination", driveSign)
	register("recover", "C11: public-key recovery for all ids on honest and constructed signatures", driveRecover)
	register("keys", "C10: key constructors, cached encodings and ECDH", driveKeys)
}

func privFrom(d *big.Int) *secec.PrivateKey {
	k, err := secec.NewPrivateKey(be32(d)[:])
	if err != nil {
		panic(err)
	}
	return k
}

// fixedReader yields the given bytes, then fails.
type fixedReader struct{ b []byte }

func (f *fixedReader) Read(p []byte) (int, error) {
	if len(f.b) == 0 {
		return 0, io.ErrUnexpectedEOF
	}
	n := copy(p, f.b)
	f.b = f.b[n:]
	return n, nil
}

func encName(e secec.SignatureEncoding) string {
	switch e {
	case secec.EncodingASN1:
		return "asn1"
	case secec.EncodingCompact:
		return "compact"
	case secec.EncodingCompactRecoverable:
		return "recoverable"
	}
	return "bogus"
}

// constructKey returns Q = r^-1 (s R - e G) through the library's own recovery (untrusted steering).
func constructKey(digest []byte, r, s *big.Int, v byte) *secec.PublicKey {
	q, err := secec.RecoverPublicKey(digest, scFrom(r), scFrom(s), v)
	if err != nil {
		return nil
	}
	return q
}

func driveVerify(c *ctx) {
	rng := rand.New(rand.NewSource(c.seed))
	half := new(big.Int).Rsh(add(bigN, -1), 1)

	hashSweep := 0
	raw := func(q *secec.PublicKey, digest []byte, r, s *big.Int) {
		out := q.VerifyRaw(digest, scFrom(r), scFrom(s))
		c.E("vfy.Raw", "q", hx(q.Bytes()), "digest", hx(digest), "r", h32(r), "s", h32(s), "out", out)
	}
	enc := func(q *secec.PublicKey, digest, sig []byte, opts *secec.ECDSAOptions) {
		if opts == nil {
			out := q.Verify(digest, sig, nil)
			c.E("vfy.Enc", "q", hx(q.Bytes()), "digest", hx(digest), "sig", hx(sig), "hasopts", false, "hash", 0, "enc", "asn1", "rejmal", false, "out", out)
			return
		}
		h := opts.Hash
		if h == 0 {
			h = crypto.SHA256
		}
		out := q.Verify(digest, sig, opts)
		c.E("vfy.Enc", "q", hx(q.Bytes()), "digest", hx(digest), "sig", hx(sig), "hasopts", true, "hash", h.Size(), "hashid", int(h), "enc", encName(opts.Encoding), "rejmal", opts.RejectMalleable, "out", out)
	}
	btc := func(q *secec.PublicKey, digest, sig []byte) {
		out := bitcoin.VerifyASN1(q, digest, sig)
		c.E("vfy.Btc", "q", hx(q.Bytes()), "digest", hx(digest), "sig", hx(sig), "out", out)
	}
	allEnc := func(q *secec.PublicKey, digest []byte, r, s *big.Int, v byte) {
		rs, ss := scFrom(r), scFrom(s)
		sigs := map[secec.SignatureEncoding][]byte{
			secec.EncodingASN1:               secec.BuildASN1Signature(rs, ss),
			secec.EncodingCompact:            secec.BuildCompactSignature(rs, ss),
			secec.EncodingCompactRecoverable: secec.BuildCompactRecoverableSignature(rs, ss, v),
		}
		for _, e := range []secec.SignatureEncoding{secec.EncodingASN1, secec.EncodingCompact, secec.EncodingCompactRecoverable, secec.SignatureEncoding(7),
			secec.SignatureEncoding(-1), secec.SignatureEncoding(3)} {
			sig := sigs[e]
			if sig == nil {
				sig = sigs[secec.EncodingASN1]
			}
			for _, rm := range []bool{false, true} {
				enc(q, digest, sig, &secec.ECDSAOptions{Encoding: e, RejectMalleable: rm})
			}
			if e == secec.EncodingCompactRecoverable {
				for vv := byte(0); vv < 6; vv++ {
					sg := append(append([]byte{}, sig[:64]...), vv)
					enc(q, digest, sg, &secec.ECDSAOptions{Encoding: e})
				}
			}
		}
		enc(q, digest, sigs[secec.EncodingASN1], nil)
		enc(q, digest, sigs[secec.EncodingASN1], &secec.ECDSAOptions{Hash: crypto.SHA512})
		enc(q, digest, sigs[secec.EncodingASN1], &secec.ECDSAOptions{Hash: crypto.SHA1})
		// every hash selector the standard library knows, with a digest of exactly its size whose leftmost bytes are the signed digest
		// (round 8): most of these packages are NOT linked into this binary - a selector only sizes the digest, it is never called
		if hashSweep < 6 {
			hashSweep++
			for h := crypto.MD4; h <= crypto.BLAKE2b_512; h++ {
				dg := bytes.Repeat([]byte{0xa5}, h.Size())
				copy(dg, digest)
				enc(q, dg, sigs[secec.EncodingASN1], &secec.ECDSAOptions{Hash: h})
				enc(q, dg, sigs[secec.EncodingCompact], &secec.ECDSAOptions{Hash: h, Encoding: secec.EncodingCompact, RejectMalleable: true})
			}
		}
		btc(q, digest, append(append([]byte{}, sigs[secec.EncodingASN1]...), 0x01))
		btc(q, digest, sigs[secec.EncodingASN1])
	}

	// cold start: the FIRST library calls of this process are verifications (a verifier-only process: no key generation, import of a
	// private key or signing has happened yet); keys and valid signatures come from math/big
	for i := 0; i < 3; i++ {
		pubBytes, digest, r, sv := bigECDSA(rng)
		q, err := secec.NewPublicKey(pubBytes)
		if err != nil {
			c.E("lib.Unexpected", "what", "a valid public key was rejected: "+err.Error(), "in", hx(pubBytes))
			continue
		}
		switch i {
		case 0:
			raw(q, digest, r, sv)
		case 1:
			enc(q, digest, secec.BuildCompactSignature(scFrom(r), scFrom(sv)), &secec.ECDSAOptions{Encoding: secec.EncodingCompact, RejectMalleable: true})
		default:
			btc(q, digest, append(secec.BuildASN1Signature(scFrom(r), scFrom(sv)), 0x01))
		}
	}
	// honest signatures: accept; both s and n-s; bit flips; digest variants
	for i := 0; i < c.scale(12, 200); i++ {
		d := add(randBig(rng, add(bigN, -1)), 1)
		switch i {
		case 0:
			d = big.NewInt(1)
		case 1:
			d = add(bigN, -1)
		}
		priv := privFrom(d)
		pub := priv.PublicKey()
		var digest []byte
		switch i % 6 {
		case 0:
			digest = make([]byte, 32)
		case 1:
			digest = bytes.Repeat([]byte{0xff}, 32)
		case 2:
			digest = be32(add(bigN, int64(i)))[:]
		case 3:
			digest = randBytes(rng, []int{64, 65, 100, 512, 33, 48}[(i/6)%6]) // only the leftmost 32 bytes count, however long the digest
		case 4:
			// a digest with leading zero bytes: its short form (the zeros cut off) is NOT a digest — verification must not pad it back
			digest = append(make([]byte, 1+(i/6)%31), randBytes(rng, 32)...)[:32]
		default:
			digest = randBytes(rng, 32)
		}
		r, s, v, err := priv.SignRaw(&fixedReader{randBytes(rng, 32)}, digest)
		if err != nil {
			panic(err)
		}
		rb, sb := new(big.Int).SetBytes(r.Bytes()), new(big.Int).SetBytes(s.Bytes())
		raw(pub, digest, rb, sb)
		hs := new(big.Int).Sub(bigN, sb)
		raw(pub, digest, rb, hs)
		if len(digest) == 32 {
			allEnc(pub, digest, rb, sb, v)
			allEnc(pub, digest, rb, hs, v^1)
		} else {
			enc(pub, digest, secec.BuildASN1Signature(r, s), nil)
			enc(pub, digest, secec.BuildASN1Signature(r, s), &secec.ECDSAOptions{Hash: crypto.SHA512})
			enc(pub, digest, secec.BuildASN1Signature(r, s), &secec.ECDSAOptions{})
			enc(pub, digest[:32], secec.BuildASN1Signature(r, s), &secec.ECDSAOptions{Hash: crypto.SHA512})
		}
		// deep: private-key verification path
		if deep {
			c.E("vfy.Alt", "d", h32(d), "digest", hx(digest), "r", h32(rb), "s", h32(sb), "out", deepVerifyAlt(priv, digest, r, s))
			c.E("vfy.Alt", "d", h32(d), "digest", hx(digest), "r", h32(rb), "s", h32(add(sb, 1)), "out", deepVerifyAlt(priv, digest, r, scFrom(new(big.Int).Mod(add(sb, 1), bigN))))
		}
		// one-bit flips
		for k := 0; k < 4; k++ {
			fr := new(big.Int).Xor(rb, pow2(uint(rng.Intn(255))))
			fs := new(big.Int).Xor(sb, pow2(uint(rng.Intn(255))))
			if fr.Cmp(bigN) < 0 {
				raw(pub, digest, fr, sb)
			}
			if fs.Cmp(bigN) < 0 {
				raw(pub, digest, rb, fs)
			}
			fd := append([]byte{}, digest...)
			fd[rng.Intn(32)] ^= 1 << uint(rng.Intn(8))
			raw(pub, fd, rb, sb)
			fd2 := append([]byte{}, digest...)
			if len(fd2) > 32 { // bytes beyond the leftmost 32 are ignored
				fd2[32+rng.Intn(len(fd2)-32)] ^= 0x55
				raw(pub, fd2, rb, sb)
			}
		}
		// zero / boundary scalars through the raw path
		raw(pub, digest, big.NewInt(0), sb)
		raw(pub, digest, rb, big.NewInt(0))
		raw(pub, digest, big.NewInt(0), big.NewInt(0))
		raw(pub, digest, add(bigN, -1), sb)
		raw(pub, digest, rb, add(bigN, -1))
		raw(pub, digest, half, add(half, 1))
		// digest length edges
		for _, l := range []int{0, 1, 31, 33, 48, 64} {
			dg := make([]byte, l)
			copy(dg, digest)
			raw(pub, dg, rb, sb)
		}
		if i%6 == 4 { // the zero-stripped (short) forms of a digest that begins with zero bytes, through every entry point
			short := bytes.TrimLeft(digest, "\x00")
			for _, dg := range [][]byte{short, digest[1:], append([]byte{}, short...)} {
				raw(pub, dg, rb, sb)
				enc(pub, dg, secec.BuildASN1Signature(r, s), nil)
				enc(pub, dg, secec.BuildCompactSignature(r, s), &secec.ECDSAOptions{Encoding: secec.EncodingCompact})
				enc(pub, dg, secec.BuildASN1Signature(r, s), &secec.ECDSAOptions{Hash: crypto.SHA1})
				enc(pub, dg, secec.BuildASN1Signature(r, s), &secec.ECDSAOptions{Hash: crypto.SHA224})
			}
		}
		// r, s >= n and zero through the compact encodings (the parser must reject)
		for _, bad := range []*big.Int{bigN, add(bigN, 1), add(big2_256, -1), big.NewInt(0)} {
			sg := append(append([]byte{}, be32(bad)[:]...), be32(sb)[:]...)
			enc(pub, digest[:32], sg, &secec.ECDSAOptions{Encoding: secec.EncodingCompact})
			sg = append(append([]byte{}, be32(rb)[:]...), be32(bad)[:]...)
			enc(pub, digest[:32], sg, &secec.ECDSAOptions{Encoding: secec.EncodingCompact})
			enc(pub, digest[:32], append(sg, 0), &secec.ECDSAOptions{Encoding: secec.EncodingCompactRecoverable})
		}
	}

	// constructed: x(R) in [n, p)  (r = x - n), any s, Q from recovery; must verify
	for i, R := range pointsWithXAboveN(rng, c.scale(6, 60)) {
		r := new(big.Int).Sub(R.x, bigN)
		s := add(randBig(rng, add(bigN, -1)), 1)
		digest := randBytes(rng, 32)
		if i%3 == 0 {
			digest = make([]byte, 32) // e = 0
		}
		v := byte(2 + R.y.Bit(0))
		q := constructKey(digest, r, s, v)
		if q == nil {
			continue
		}
		raw(q, digest, r, s)
		raw(q, digest, r, new(big.Int).Sub(bigN, s))
		allEnc(q, digest, r, s, v)
		raw(q, digest, add(r, 1), s)
	}
	// constructed: a VALID signature one of whose halves fits twice below 2^256 (r or s < 2^256 - n): the strict compact encodings
	// carry the value itself, never value + n — with exactly ONE half shifted by n the string must be rejected, although it verifies
	// once reduced.  Also the unreduced abscissa (x in [n, p)) in the r slot.
	{
		room := new(big.Int).Sub(big2_256, bigN)
		for i := 0; i < c.scale(6, 40); i++ {
			digest := randBytes(rng, 32)
			var r, sv *big.Int
			v := byte(0)
			if i%2 == 0 { // small r: the abscissa of a point, taken from 1, 2, 3, ... or anywhere below 2^256 - n
				x := big.NewInt(int64(1 + rng.Intn(50)))
				if i%4 == 0 {
					x = randBig(rng, room)
				}
				for sqrtP(yyOf(x)) == nil || x.Sign() == 0 {
					x = add(x, 1)
				}
				r, sv = x, add(randBig(rng, add(bigN, -1)), 1)
				v = byte(sqrtP(yyOf(x)).Bit(0))
			} else { // small s over an honest nonce point
				k := add(randBig(rng, add(bigN, -1)), 1)
				R := mulG(k).UncompressedBytes()
				r = new(big.Int).Mod(new(big.Int).SetBytes(R[1:33]), bigN)
				v = R[64] & 1
				if new(big.Int).SetBytes(R[1:33]).Cmp(bigN) >= 0 {
					v |= 2
				}
				sv = add(randBig(rng, add(room, -1)), 1)
				if i%4 == 1 {
					sv = big.NewInt(int64(1 + rng.Intn(3)))
				}
			}
			q := constructKey(digest, r, sv, v)
			if q == nil || r.Sign() == 0 {
				continue
			}
			raw(q, digest, r, sv)
			shifted := func(a, b *big.Int) []byte { return append(append([]byte{}, be32(a)[:]...), be32(b)[:]...) }
			var sigs [][]byte
			if r.Cmp(room) < 0 {
				sigs = append(sigs, shifted(add2(r, bigN), sv))
			}
			if sv.Cmp(room) < 0 {
				sigs = append(sigs, shifted(r, add2(sv, bigN)))
			}
			if r.Cmp(room) < 0 && sv.Cmp(room) < 0 {
				sigs = append(sigs, shifted(add2(r, bigN), add2(sv, bigN)))
			}
			sigs = append(sigs, shifted(r, sv))
			for _, sg := range sigs {
				for _, rm := range []bool{false, true} {
					enc(q, digest, sg, &secec.ECDSAOptions{Encoding: secec.EncodingCompact, RejectMalleable: rm})
					enc(q, digest, append(append([]byte{}, sg...), v), &secec.ECDSAOptions{Encoding: secec.EncodingCompactRecoverable, RejectMalleable: rm})
				}
			}
		}
		for _, R := range pointsWithXAboveN(rng, 3) {
			r := new(big.Int).Sub(R.x, bigN)
			sv := add(randBig(rng, add(bigN, -1)), 1)
			digest := randBytes(rng, 32)
			v := byte(2 + R.y.Bit(0))
			if q := constructKey(digest, r, sv, v); q != nil {
				sg := append(append([]byte{}, be32(R.x)[:]...), be32(sv)[:]...)
				enc(q, digest, sg, &secec.ECDSAOptions{Encoding: secec.EncodingCompact})
				enc(q, digest, append(sg, v), &secec.ECDSAOptions{Encoding: secec.EncodingCompactRecoverable})
			}
		}
	}
	// constructed: R = infinity:  Q = dG, e = -r d  =>  u1 G + u2 Q = 0
	for i := 0; i < c.scale(6, 60); i++ {
		d := add(randBig(rng, add(bigN, -1)), 1)
		r := add(randBig(rng, add(bigN, -1)), 1)
		s := add(randBig(rng, add(bigN, -1)), 1)
		e := new(big.Int).Mod(new(big.Int).Neg(new(big.Int).Mul(r, d)), bigN)
		raw(privFrom(d).PublicKey(), be32(e)[:], r, s)
		if deep {
			c.E("vfy.Alt", "d", h32(d), "digest", h32(e), "r", h32(r), "s", h32(s), "out", deepVerifyAlt(privFrom(d), be32(e)[:], scFrom(r), scFrom(s)))
		}
	}
	// constructed: chosen R with e = 0 and digest >= n
	for i := 0; i < c.scale(6, 60); i++ {
		x := randBig(rng, bigN)
		for sqrtP(yyOf(x)) == nil || x.Sign() == 0 {
			x = add(x, 1)
		}
		y := sqrtP(yyOf(x))
		s := add(randBig(rng, add(bigN, -1)), 1)
		for _, digest := range [][]byte{make([]byte, 32), be32(add(bigN, int64(i)))[:], bytes.Repeat([]byte{0xff}, 32)} {
			v := byte(y.Bit(0))
			q := constructKey(digest, x, s, v)
			if q == nil {
				continue
			}
			raw(q, digest, x, s)
			allEnc(q, digest, x, s, v)
		}
	}

	// constructed: u2 = r/s steered to the corner cases of the variable-base multiply (extreme GLV halves, rounding-bit flips, limb
	// carries, zero limbs).  Choose u1, u2 and the key d, set R = (u1 + u2 d) G, r = x(R) mod n, s = r / u2, e = u1 s: a VALID signature.
	{
		us := steeredScalars(rng, c.scale(4, 60))
		for i, u2 := range us {
			if u2.Sign() == 0 || (!c.thorough() && i%2 == 1) {
				continue
			}
			d := add(randBig(rng, add(bigN, -1)), 1)
			u1 := randBig(rng, bigN)
			if i%5 == 0 {
				u1 = us[(i*7+3)%len(us)]
			}
			kk := new(big.Int).Mod(new(big.Int).Add(u1, new(big.Int).Mul(u2, d)), bigN)
			if kk.Sign() == 0 {
				continue
			}
			xb, _ := mulG(kk).XBytes()
			r := new(big.Int).Mod(new(big.Int).SetBytes(xb), bigN)
			if r.Sign() == 0 {
				continue
			}
			sv := new(big.Int).Mod(new(big.Int).Mul(r, new(big.Int).ModInverse(u2, bigN)), bigN)
			e := new(big.Int).Mod(new(big.Int).Mul(u1, sv), bigN)
			pub := privFrom(d).PublicKey()
			raw(pub, be32(e)[:], r, sv)
			enc(pub, be32(e)[:], secec.BuildCompactSignature(scFrom(r), scFrom(sv)), &secec.ECDSAOptions{Encoding: secec.EncodingCompact})
		}
	}
	// the Bitcoin entry point: envelopes that ARE valid BIP-66 but whose INTEGERs are not scalars — 33 bytes with a leading
	// 0x01..0x7f (a value >= 2^256 whose low 32 bytes are the genuine r or s), 33 bytes 0x00 || value >= n, and the genuine
	// signature for comparison
	for i := 0; i < c.scale(4, 40); i++ {
		priv := privFrom(add(randBig(rng, add(bigN, -1)), 1))
		digest := randBytes(rng, 32)
		r, sv, _, err := priv.SignRaw(&fixedReader{randBytes(rng, 32)}, digest)
		if err != nil {
			panic(err)
		}
		minInt := func(b []byte) []byte { // minimal positive DER INTEGER body
			for len(b) > 1 && b[0] == 0 {
				b = b[1:]
			}
			if b[0]&0x80 != 0 {
				b = append([]byte{0}, b...)
			}
			return b
		}
		env := func(R, S []byte) []byte {
			body := append(append([]byte{2, byte(len(R))}, R...), append([]byte{2, byte(len(S))}, S...)...)
			return append(append([]byte{0x30, byte(len(body))}, body...), 0x01)
		}
		rb, sb := r.Bytes(), sv.Bytes()
		btc(priv.PublicKey(), digest, env(minInt(rb), minInt(sb)))
		for _, lead := range []byte{0x01, 0x7f, 0x40} {
			btc(priv.PublicKey(), digest, env(append([]byte{lead}, rb...), minInt(sb)))
			btc(priv.PublicKey(), digest, env(minInt(rb), append([]byte{lead}, sb...)))
		}
		if rn := new(big.Int).Add(new(big.Int).SetBytes(rb), bigN); rn.BitLen() <= 256 { // r + n when it fits: same residue, not a scalar
			btc(priv.PublicKey(), digest, env(minInt(be32(rn)[:]), minInt(sb)))
		}
	}
	// constructed: VALID signatures with a chosen s (e = s k - r d): s around (n-1)/2 in every 64-bit limb — equal to (n-1)/2 in all
	// limbs but one, off by one in one limb — for the low-s rule; through every encoding and both malleability settings
	{
		var ss []*big.Int
		for limb := uint(0); limb < 4; limb++ {
			for _, k := range []int64{1, 2, 0x7fffffff} {
				d := new(big.Int).Lsh(big.NewInt(k), 64*limb)
				ss = append(ss, new(big.Int).Add(half, d), new(big.Int).Sub(half, d))
			}
		}
		ss = append(ss, half, add(half, 1), add(bigN, -1), big.NewInt(1))
		for i, sv := range ss {
			if sv.Sign() <= 0 || sv.Cmp(bigN) >= 0 || (!c.thorough() && i%2 == 1 && i < 24) {
				continue
			}
			d := add(randBig(rng, add(bigN, -1)), 1)
			k := add(randBig(rng, add(bigN, -1)), 1)
			R := mulG(k)
			xb, _ := R.XBytes()
			x := new(big.Int).SetBytes(xb)
			r := new(big.Int).Mod(x, bigN)
			if r.Sign() == 0 {
				continue
			}
			e := new(big.Int).Mod(new(big.Int).Sub(new(big.Int).Mul(sv, k), new(big.Int).Mul(r, d)), bigN)
			v := byte(R.IsYOdd())
			if x.Cmp(bigN) >= 0 {
				v |= 2
			}
			pub := privFrom(d).PublicKey()
			raw(pub, be32(e)[:], r, sv)
			allEnc(pub, be32(e)[:], r, sv, v)
		}
	}
	// key objects imported from compressed bytes / from a SubjectPublicKeyInfo carrying a compressed point, used for verification
	// BEFORE any of their accessors was called (the call comes first, the key's views are read for the log afterwards)
	for i := 0; i < c.scale(4, 40); i++ {
		priv := privFrom(add(randBig(rng, add(bigN, -1)), 1))
		digest := randBytes(rng, 32)
		r, sv, v, err := priv.SignRaw(&fixedReader{randBytes(rng, 32)}, digest)
		if err != nil {
			panic(err)
		}
		cm := priv.PublicKey().CompressedBytes()
		alg := []byte{0x30, 0x10, 0x06, 0x07, 0x2a, 0x86, 0x48, 0xce, 0x3d, 0x02, 0x01, 0x06, 0x05, 0x2b, 0x81, 0x04, 0x00, 0x0a}
		body := append(append(append([]byte{}, alg...), 0x03, byte(len(cm)+1), 0), cm...)
		spki := append([]byte{0x30, byte(len(body))}, body...)
		for _, e := range []secec.SignatureEncoding{secec.EncodingCompactRecoverable, secec.EncodingASN1, secec.EncodingCompact} {
			for _, mk := range []func() (*secec.PublicKey, error){
				func() (*secec.PublicKey, error) { return secec.NewPublicKey(cm) },
				func() (*secec.PublicKey, error) { return secec.ParseASN1PublicKey(spki) },
				func() (*secec.PublicKey, error) { return secec.NewPublicKeyFromPoint(priv.PublicKey().Point()) },
			} {
				q, kerr := mk()
				if kerr != nil {
					c.E("lib.Unexpected", "what", "a valid public key was rejected: "+kerr.Error(), "in", hx(cm))
					continue
				}
				var sig []byte
				switch e {
				case secec.EncodingASN1:
					sig = secec.BuildASN1Signature(r, sv)
				case secec.EncodingCompact:
					sig = secec.BuildCompactSignature(r, sv)
				default:
					sig = secec.BuildCompactRecoverableSignature(r, sv, v)
				}
				enc(q, digest, sig, &secec.ECDSAOptions{Encoding: e})
			}
		}
	}
	// constructed near misses: the point R = u1 G + u2 Q is FIXED by (u1, u2) whatever r is (s = r/u2, e = u1 s), so r can be set
	// to any value next to x(R): x(R) shifted by +-1, +-(p-n), +-(2^256-p), +-(2^256-n), reduced or not.  None equals x(R) mod n,
	// so every one must be rejected — a comparison that wraps modulo p, forgets a guard, or compares truncated values accepts one.
	{
		pmn := new(big.Int).Sub(bigP, bigN)
		offs := []*big.Int{big.NewInt(1), pmn, new(big.Int).Sub(big2_256, bigP), new(big.Int).Sub(big2_256, bigN), bigN, new(big.Int).Lsh(big.NewInt(1), 128), new(big.Int).Lsh(big.NewInt(1), 64)}
		var Rs []xy
		Rs = append(Rs, pointsWithXAboveN(rng, 2)...)
		for i := 0; i < c.scale(4, 40); i++ {
			p := mulG(add(randBig(rng, add(bigN, -1)), 1))
			xb, _ := p.XBytes()
			Rs = append(Rs, xy{new(big.Int).SetBytes(xb), big.NewInt(int64(p.IsYOdd()))})
		}
		Rs = append(Rs, curvePointsWithSmallX(rng, 10)...)
		for _, R := range Rs {
			// a key and (u1, u2) with u1 G + u2 Q = R: Q = dG, u2 random, u1 = k - u2 d where R = kG is not known for arbitrary R, so
			// go the other way: recover Q from (R, r0, s0, e0) with the library's recovery, then re-target r with the same u1, u2
			r0 := new(big.Int).Mod(R.x, bigN)
			if r0.Sign() == 0 {
				continue
			}
			s0 := add(randBig(rng, add(bigN, -1)), 1)
			dg0 := randBytes(rng, 32)
			v := byte(R.y.Bit(0))
			if R.x.Cmp(bigN) >= 0 {
				v |= 2
			}
			q := constructKey(dg0, r0, s0, v)
			if q == nil {
				continue
			}
			e0 := new(big.Int).Mod(new(big.Int).SetBytes(dg0), bigN)
			s0i := new(big.Int).ModInverse(s0, bigN)
			u1 := new(big.Int).Mod(new(big.Int).Mul(e0, s0i), bigN)
			u2 := new(big.Int).Mod(new(big.Int).Mul(r0, s0i), bigN)
			if u2.Sign() == 0 {
				continue
			}
			u2i := new(big.Int).ModInverse(u2, bigN)
			emit := func(r *big.Int) {
				if r.Sign() <= 0 || r.Cmp(bigN) >= 0 || r.Cmp(r0) == 0 {
					return
				}
				sv := new(big.Int).Mod(new(big.Int).Mul(r, u2i), bigN)
				e := new(big.Int).Mod(new(big.Int).Mul(u1, sv), bigN)
				if sv.Sign() == 0 {
					return
				}
				out := q.VerifyRaw(be32(e)[:], scFrom(r), scFrom(sv))
				c.E("vfy.Raw", "q", hx(q.Bytes()), "digest", h32(e), "r", h32(r), "s", h32(sv), "out", out, "near_miss", true)
				enc(q, be32(e)[:], secec.BuildCompactSignature(scFrom(r), scFrom(sv)), &secec.ECDSAOptions{Encoding: secec.EncodingCompact})
			}
			for _, o := range offs {
				for _, base := range []*big.Int{R.x, r0} {
					emit(new(big.Int).Add(base, o))
					emit(new(big.Int).Sub(base, o))
					emit(new(big.Int).Mod(new(big.Int).Add(base, o), bigN))
					emit(new(big.Int).Mod(new(big.Int).Sub(base, o), bigN))
				}
			}
		}
	}
	// a public key object keeps verifying after the caller scribbles over everything it handed out
	for i := 0; i < c.scale(3, 30); i++ {
		priv := privFrom(add(randBig(rng, add(bigN, -1)), 1))
		pub := priv.PublicKey()
		digest := randBytes(rng, 32)
		r, s, v, err := priv.SignRaw(&fixedReader{randBytes(rng, 32)}, digest)
		if err != nil {
			panic(err)
		}
		keyHex := hx(pub.Bytes())
		for _, sl := range [][]byte{pub.Bytes(), pub.CompressedBytes(), pub.ASN1Bytes()} {
			for j := range sl {
				sl[j] = byte(0x33 + j)
			}
		}
		pt := pub.Point()
		pt.Double(pt)
		rs, ss := new(big.Int).SetBytes(r.Bytes()), new(big.Int).SetBytes(s.Bytes())
		for _, e := range []secec.SignatureEncoding{secec.EncodingASN1, secec.EncodingCompact, secec.EncodingCompactRecoverable} {
			var sig []byte
			switch e {
			case secec.EncodingASN1:
				sig = secec.BuildASN1Signature(r, s)
			case secec.EncodingCompact:
				sig = secec.BuildCompactSignature(r, s)
			default:
				sig = secec.BuildCompactRecoverableSignature(r, s, v)
			}
			out := pub.Verify(digest, sig, &secec.ECDSAOptions{Encoding: e})
			c.E("vfy.Enc", "q", keyHex, "digest", hx(digest), "sig", hx(sig), "hasopts", true, "hash", 32, "enc", encName(e), "rejmal", false, "out", out, "after_scribble", true)
		}
		c.E("vfy.Raw", "q", keyHex, "digest", hx(digest), "r", h32(rs), "s", h32(ss), "out", pub.VerifyRaw(digest, r, s), "after_scribble", true)
	}

	// DER structure: mutated encodings through Verify and the Bitcoin entry point
	{
		priv := privFrom(big.NewInt(12345))
		pub := priv.PublicKey()
		digest := randBytes(rng, 32)
		r, s, _, _ := priv.SignRaw(&fixedReader{randBytes(rng, 32)}, digest)
		sig := secec.BuildASN1Signature(r, s)
		for pos := 0; pos < len(sig); pos++ {
			for _, delta := range []byte{1, 0x80} {
				m := append([]byte{}, sig...)
				m[pos] ^= delta
				enc(pub, digest, m, nil)
				btc(pub, digest, append(m, 1))
			}
		}
		enc(pub, digest, append(append([]byte{}, sig...), 0), nil)
		enc(pub, digest, sig[:len(sig)-1], nil)
		btc(pub, digest, append(append([]byte{}, sig...), 1, 1))
	}

	// Wycheproof vectors re-driven through the logger (the trace specification is a stronger oracle than the vector's verdict)
	for _, vf := range []struct {
		file string
		h    crypto.Hash
	}{{"ecdsa_secp256k1_sha256_test.json", crypto.SHA256}, {"ecdsa_secp256k1_sha512_test.json", crypto.SHA512}} {
		rawj, err := os.ReadFile(filepath.Join(c.repo, "secec", "testdata", "wycheproof", vf.file))
		if err != nil {
			continue
		}
		var doc struct {
			TestGroups []struct {
				PublicKey struct {
					Uncompressed string `json:"uncompressed"`
				} `json:"publicKey"`
				Tests []struct {
					Msg string `json:"msg"`
					Sig string `json:"sig"`
				} `json:"tests"`
			} `json:"testGroups"`
		}
		if json.Unmarshal(rawj, &doc) != nil {
			continue
		}
		n := 0
		for _, g := range doc.TestGroups {
			pub, err := secec.NewPublicKey(unhex(g.PublicKey.Uncompressed))
			if err != nil {
				continue
			}
			for _, t := range g.Tests {
				n++
				if !c.thorough() && n%3 != int(c.seed%3) {
					continue
				}
				var dg []byte
				if vf.h == crypto.SHA256 {
					x := sha256.Sum256(unhex(t.Msg))
					dg = x[:]
				} else {
					x := sha512.Sum512(unhex(t.Msg))
					dg = x[:]
				}
				enc(pub, dg, unhex(t.Sig), &secec.ECDSAOptions{Hash: vf.h})
			}
		}
	}
}

func driveSign(c *ctx) {
	rng := rand.New(rand.NewSource(c.seed))
	var keys []*big.Int
	keys = append(keys, big.NewInt(1), add(bigN, -1), big.NewInt(2), new(big.Int).Rsh(bigN, 1))
	for i := 0; i < c.scale(8, 100); i++ {
		keys = append(keys, add(randBig(rng, add(bigN, -1)), 1))
	}
	digests := [][]byte{make([]byte, 32), bytes.Repeat([]byte{0xff}, 32), be32(bigN)[:], be32(add(bigN, 5))[:], be32(add(bigN, -1))[:]}
	for i := 0; i < c.scale(4, 40); i++ {
		digests = append(digests, randBytes(rng, 32))
	}
	for ki, d := range keys {
		priv := privFrom(d)
		for di, digest := range digests {
			if !c.thorough() && (ki+di)%2 == 1 && ki > 3 && di > 4 {
				continue
			}
			ent := randBytes(rng, 32)
			r, s, v, err := priv.SignRaw(&fixedReader{append([]byte{}, ent...)}, digest)
			c.E("sig.Raw", "d", h32(d), "digest", hx(digest), "rng", "entropy:"+hx(ent), "ok", err == nil, "r", scHexOr(r), "s", scHexOr(s), "v", int(v))
			r, s, v, err = priv.SignRaw(secec.RFC6979SHA256(), digest)
			c.E("sig.Raw", "d", h32(d), "digest", hx(digest), "rng", "rfc6979", "ok", err == nil, "r", scHexOr(r), "s", scHexOr(s), "v", int(v))
		}
		// the signer's key object keeps verifying its own signatures after OTHER objects were derived from it
		// (a BIP-340 key pair, copies of its point and scalar that the caller then modifies)
		{
			dg := digests[ki%len(digests)]
			r, s, _, err := priv.SignRaw(secec.RFC6979SHA256(), dg)
			if err == nil {
				_ = bitcoin.NewSchnorrPrivateKeyFromECDSA(priv)
				_ = bitcoin.NewSchnorrPublicKeyFromECDSA(priv.PublicKey())
				pt := priv.PublicKey().Point()
				pt.Negate(pt)
				sc := priv.Scalar()
				sc.Negate(sc)
				rb, sb := new(big.Int).SetBytes(r.Bytes()), new(big.Int).SetBytes(s.Bytes())
				c.E("vfy.Raw", "q", hx(priv.PublicKey().Bytes()), "digest", hx(dg), "r", h32(rb), "s", h32(sb), "out", priv.PublicKey().VerifyRaw(dg, r, s), "after_derive", true)
				r2, s2, _, err2 := priv.SignRaw(secec.RFC6979SHA256(), dg)
				c.E("sig.Raw", "d", h32(d), "digest", hx(dg), "rng", "rfc6979", "ok", err2 == nil, "r", scHexOr(r2), "s", scHexOr(s2), "v", 0+int(func() byte { _, _, v, _ := priv.SignRaw(secec.RFC6979SHA256(), dg); return v }()))
			}
		}
		// digest lengths 0..64 through SignRaw (nil options semantics: >= 32 bytes admissible)
		for _, l := range []int{0, 1, 31, 32, 33, 47, 48, 63, 64, 65, 100, 512} {
			dg := randBytes(rng, l)
			r, s, v, err := priv.SignRaw(secec.RFC6979SHA256(), dg)
			c.E("sig.Raw", "d", h32(d), "digest", hx(dg), "rng", "rfc6979", "ok", err == nil, "r", scHexOr(r), "s", scHexOr(s), "v", int(v))
		}
	}
	// the ASN.1 builder used by Sign, on (r, s) shapes that signing reaches only with negligible probability
	// (short values: several leading zero bytes; top bit set: a padding byte is needed)
	shapes := []*big.Int{big.NewInt(1), big.NewInt(0x7f), big.NewInt(0x80), big.NewInt(0xff), big.NewInt(0x100), pow2(127), add(pow2(128), -1),
		pow2(231), pow2(232), pow2(238), pow2(239), add(pow2(240), -1), pow2(247), pow2(248), add(pow2(255), -1), pow2(255), add(bigN, -1)}
	for i := 0; i < c.scale(10, 200); i++ {
		shapes = append(shapes, randBig(rng, pow2(uint(1+rng.Intn(255)))))
	}
	for i, rv := range shapes {
		for j, sv := range shapes {
			if rv.Sign() == 0 || sv.Sign() == 0 || rv.Cmp(bigN) >= 0 || sv.Cmp(bigN) >= 0 || (!c.thorough() && (i+j)%3 != 0) {
				continue
			}
			out := secec.BuildASN1Signature(scFrom(rv), scFrom(sv))
			r2, s2, err := secec.ParseASN1Signature(out)
			c.E("der.Build", "r", h32(rv), "s", h32(sv), "out", hx(out), "reparsed", err == nil && scHex(r2) == h32(rv) && scHex(s2) == h32(sv))
			cp := secec.BuildCompactRecoverableSignature(scFrom(rv), scFrom(sv), byte(i%4))
			r3, s3, v3, err3 := secec.ParseCompactRecoverableSignature(cp)
			c.E("cmp.Build", "r", h32(rv), "s", h32(sv), "v", i%4, "out", hx(cp), "reparsed", err3 == nil && scHex(r3) == h32(rv) && scHex(s3) == h32(sv) && int(v3) == i%4)
		}
	}

	// Sign: every option combination; SelfVerify on/off must give identical bytes for identical entropy
	type optcase struct {
		kind string
		hash crypto.Hash
		enc  secec.SignatureEncoding
	}
	var cases []optcase
	cases = append(cases, optcase{"nil", 0, 0})
	for _, h := range []crypto.Hash{0, crypto.SHA256, crypto.SHA512, crypto.SHA384, crypto.SHA1, crypto.SHA3_256, crypto.BLAKE2s_256, crypto.BLAKE2b_256, crypto.SHA512_256, crypto.BLAKE2b_384} {
		for _, e := range []secec.SignatureEncoding{secec.EncodingASN1, secec.EncodingCompact, secec.EncodingCompactRecoverable, secec.SignatureEncoding(9),
			secec.SignatureEncoding(-1), secec.SignatureEncoding(3), secec.SignatureEncoding(-1 << 31), secec.SignatureEncoding(1 << 30)} {
			cases = append(cases, optcase{"ecdsa", h, e})
		}
	}
	cases = append(cases, optcase{"hash", crypto.SHA256, 0}, optcase{"hash", crypto.SHA512, 0}, optcase{"hash", crypto.SHA1, 0})
	var kept []keptSig
	for ki, d := range keys {
		if !c.thorough() && ki >= 6 {
			break
		}
		priv := privFrom(d)
		for _, oc := range cases {
			for _, l := range []int{20, 31, 32, 48, 64} {
				dg := randBytes(rng, l)
				if l == 32 && ki%2 == 0 {
					dg = digests[ki%len(digests)]
				}
				ent := randBytes(rng, 32)
				hsize := 0
				sign := func(sv bool) ([]byte, error) {
					rd := &fixedReader{append([]byte{}, ent...)}
					switch oc.kind {
					case "nil":
						return priv.Sign(rd, dg, nil)
					case "hash":
						hsize = oc.hash.Size()
						return priv.Sign(rd, dg, oc.hash)
					default:
						h := oc.hash
						if h == 0 {
							h = crypto.SHA256
						}
						hsize = h.Size()
						return priv.Sign(rd, dg, &secec.ECDSAOptions{Hash: oc.hash, Encoding: oc.enc, SelfVerify: sv})
					}
				}
				sig, err := sign(false)
				sigHex := hx(sig)
				sigSV, errSV := sign(true)
				c.E("sig.Enc", "d", h32(d), "digest", hx(dg), "optkind", oc.kind, "hash", hsize, "enc", encName(oc.enc),
					"ok", err == nil, "sig", sigHex, "ok_sv", errSV == nil, "sig_sv", hx(sigSV))
				// what was just signed verifies under the signer's key as a verifier would hold it: imported from compressed bytes, no
				// accessor of the imported object called before Verify
				if err == nil && oc.kind == "ecdsa" && oc.enc >= secec.EncodingASN1 && oc.enc <= secec.EncodingCompactRecoverable && hsize == len(dg) {
					if q, kerr := secec.NewPublicKey(priv.PublicKey().CompressedBytes()); kerr == nil {
						out := q.Verify(dg, sig, &secec.ECDSAOptions{Hash: oc.hash, Encoding: oc.enc, RejectMalleable: true})
						c.E("vfy.Enc", "q", hx(q.Bytes()), "digest", hx(dg), "sig", hx(sig), "hasopts", true, "hash", hsize, "enc", encName(oc.enc), "rejmal", true, "out", out)
					}
					// ... and imported from uncompressed bytes through a scratch buffer the verifier then reuses
					scratch := priv.PublicKey().Bytes()
					want := hx(scratch)
					if q, kerr := secec.NewPublicKey(scratch); kerr == nil {
						for i := range scratch {
							scratch[i] = 0x11
						}
						out := q.Verify(dg, sig, &secec.ECDSAOptions{Hash: oc.hash, Encoding: oc.enc, RejectMalleable: true})
						c.E("vfy.Enc", "q", want, "digest", hx(dg), "sig", hx(sig), "hasopts", true, "hash", hsize, "enc", encName(oc.enc), "rejmal", true, "out", out)
					}
				}
				// signatures handed out earlier (other keys, digests, encodings) are the caller's: later signing never changes them
				for _, k := range kept {
					c.E("sig.Stable", "then", k.then, "now", hx(k.sig), "later_enc", encName(oc.enc))
				}
				if err == nil {
					kept = append(kept, keptSig{sig, sigHex})
					if len(kept) > 3 {
						kept = kept[1:]
					}
				}
			}
		}
	}
}

type keptSig struct {
	sig  []byte // the slice exactly as the library returned it
	then string // its content at that time
}

func scHexOr(s *secp256k1.Scalar) string {
	if s == nil {
		return ""
	}
	return scHex(s)
}

func driveRecover(c *ctx) {
	rng := rand.New(rand.NewSource(c.seed))
	// keys recovered EARLIER are kept and used again after later recoveries (the "try every id and keep the candidates" idiom):
	// a key object is its own, whatever the library recovers afterwards
	type keptKey struct {
		q      *secec.PublicKey
		bytes  string
		digest []byte
		r, s   *big.Int
	}
	var kept []keptKey
	nrec := 0
	rec := func(digest []byte, r, s *big.Int, v int, honest bool, signer string) {
		q, err := secec.RecoverPublicKey(digest, scFrom(r), scFrom(s), byte(v))
		o := ""
		if err == nil {
			o = hx(q.Bytes())
			// every success is followed by VerifyRaw of the recovered key: logged as a verification event
			c.E("vfy.Raw", "q", o, "digest", hx(digest), "r", h32(r), "s", h32(s), "out", q.VerifyRaw(digest, scFrom(r), scFrom(s)))
		}
		c.E("rec.Recover", "digest", hx(digest), "r", h32(r), "s", h32(s), "v", v, "ok", err == nil, "q", o, "honest", honest, "signer", signer)
		nrec++
		for i, k := range kept {
			if (nrec+i)%3 != 0 && len(kept) > 1 {
				continue
			}
			c.E("vfy.Raw", "q", k.bytes, "digest", hx(k.digest), "r", h32(k.r), "s", h32(k.s), "out", k.q.VerifyRaw(k.digest, scFrom(k.r), scFrom(k.s)), "kept_key", 1)
			c.E("sig.Stable", "then", k.bytes, "now", hx(k.q.Point().UncompressedBytes()), "later_enc", "recovered_key")
			c.E("sig.Stable", "then", k.bytes, "now", hx(k.q.Bytes()), "later_enc", "recovered_key_bytes")
		}
		if err == nil {
			kept = append(kept, keptKey{q, o, digest, r, s})
			if len(kept) > 3 {
				kept = kept[1:]
			}
		}
	}
	// cold start: the first library calls of this process are recoveries of math/big signatures (all four ids)
	for i := 0; i < 2; i++ {
		pubBytes, digest, r, sv := bigECDSA(rng)
		for v := 0; v < 4; v++ {
			rec(digest, r, sv, v, false, hx(pubBytes))
		}
	}
	allV := func(digest []byte, r, s *big.Int, honest bool, signer string, dense bool) {
		for v := 0; v < 256; v++ {
			if v >= 6 && !dense && v%41 != 0 && v != 27 && v != 28 && v != 255 {
				continue
			}
			rec(digest, r, s, v, honest, signer)
		}
	}
	// honest signatures: all ids
	for i := 0; i < c.scale(10, 150); i++ {
		d := add(randBig(rng, add(bigN, -1)), 1)
		priv := privFrom(d)
		digest := randBytes(rng, 32)
		switch i % 5 {
		case 0:
			digest = randBytes(rng, []int{64, 65, 100, 512, 33}[(i/5)%5]) // any length from 32 up
		case 1: // digests whose leading 32 bytes are >= n (reduced mod n by every operation alike), zero, all ones
			digest = [][]byte{bytes.Repeat([]byte{0xff}, 32), be32(bigN)[:], be32(add(bigN, 7))[:], bytes.Repeat([]byte{0xff}, 64), make([]byte, 32)}[(i/5)%5]
		}
		r, s, _, err := priv.SignRaw(&fixedReader{randBytes(rng, 32)}, digest)
		if err != nil {
			panic(err)
		}
		rb, sb := new(big.Int).SetBytes(r.Bytes()), new(big.Int).SetBytes(s.Bytes())
		allV(digest, rb, sb, true, hx(priv.PublicKey().Bytes()), i == 0)
		allV(digest, rb, new(big.Int).Sub(bigN, sb), true, hx(priv.PublicKey().Bytes()), false)
		rec(digest[:31], rb, sb, 0, false, "")
	}
	// r < p - n with bit 1 set: take x in [n, p) on the curve, r = x - n
	span := new(big.Int).Sub(bigP, bigN)
	for _, R := range pointsWithXAboveN(rng, c.scale(6, 60)) {
		r := new(big.Int).Sub(R.x, bigN)
		s := add(randBig(rng, add(bigN, -1)), 1)
		allV(randBytes(rng, 32), r, s, false, "", false)
	}
	for i := 0; i < c.scale(10, 100); i++ {
		s := add(randBig(rng, add(bigN, -1)), 1)
		allV(randBytes(rng, 32), randBig(rng, span), s, false, "", false)                         // small r: bit 1 admissible iff on curve
		allV(randBytes(rng, 32), new(big.Int).Add(span, randBig(rng, span)), s, false, "", false) // r >= p - n: bit 1 must fail
		allV(randBytes(rng, 32), randBig(rng, bigN), s, false, "", false)
	}
	for _, r := range []*big.Int{add(span, -1), span, add(span, 1)} {
		allV(randBytes(rng, 32), r, big.NewInt(7), false, "", false)
	}
	// r or s zero
	allV(randBytes(rng, 32), big.NewInt(0), big.NewInt(5), false, "", false)
	allV(randBytes(rng, 32), big.NewInt(5), big.NewInt(0), false, "", false)
	// u2 = s/r steered to the corners of the variable-base multiply (extreme split halves, rounding-bit flips, limb carries): honest
	// (r, v) from R = kG, s = u2 r, a random digest; the recovered key is decided by the specification
	for i, u2 := range steeredScalars(rng, 0) {
		if u2.Sign() == 0 || (!c.thorough() && i%3 != int(c.seed%3)) {
			continue
		}
		k := add(randBig(rng, add(bigN, -1)), 1)
		R := mulG(k)
		xb, _ := R.XBytes()
		x := new(big.Int).SetBytes(xb)
		r := new(big.Int).Mod(x, bigN)
		if r.Sign() == 0 {
			continue
		}
		sv := new(big.Int).Mod(new(big.Int).Mul(u2, r), bigN)
		if sv.Sign() == 0 {
			continue
		}
		v := int(R.IsYOdd())
		if x.Cmp(bigN) >= 0 {
			v |= 2
		}
		rec(randBytes(rng, 32), r, sv, v, false, "")
	}
	// the recovery id as it travels on the wire (r || s || v): the byte is taken verbatim — ids that agree with the genuine one
	// modulo 4 (v|4, v|0x80, v+252 ...) or in other bit fields are NOT the genuine id.  Through the parser followed by recovery,
	// and through Verify with the recoverable encoding.
	for i := 0; i < c.scale(4, 40); i++ {
		priv := privFrom(add(randBig(rng, add(bigN, -1)), 1))
		digest := randBytes(rng, 32)
		r, s, v, err := priv.SignRaw(&fixedReader{randBytes(rng, 32)}, digest)
		if err != nil {
			panic(err)
		}
		for _, vb := range []int{int(v), int(v) ^ 1, int(v) ^ 2, int(v) ^ 3, int(v) | 4, int(v) | 8, int(v) | 0x10, int(v) | 0x80, int(v) | 0xfc, int(v) + 27, int(v) + 31} {
			wire := secec.BuildCompactRecoverableSignature(r, s, byte(vb))
			out := priv.PublicKey().Verify(digest, wire, &secec.ECDSAOptions{Encoding: secec.EncodingCompactRecoverable})
			c.E("vfy.Enc", "q", hx(priv.PublicKey().Bytes()), "digest", hx(digest), "sig", hx(wire), "hasopts", true, "hash", 32, "enc", "recoverable", "rejmal", false, "out", out)
			if pr, ps, pv, perr := secec.ParseCompactRecoverableSignature(wire); perr == nil {
				rec(digest, new(big.Int).SetBytes(pr.Bytes()), new(big.Int).SetBytes(ps.Bytes()), int(pv), int(pv) == int(v), hx(priv.PublicKey().Bytes()))
				if int(pv) != vb&0xff {
					c.E("lib.Unexpected", "what", "ParseCompactRecoverableSignature altered the recovery id byte", "wire", vb&0xff, "parsed", int(pv))
				}
			}
		}
		// the high-s twin (r, n - s) of the same signature is a valid signature whose genuine id is v ^ 1 (round 9): through Verify with
		// the recoverable encoding the id that recovers the signer is accepted, the signer's original id is not
		ns := secp256k1.NewScalar().Negate(s)
		for _, vb := range []int{int(v) ^ 1, int(v), int(v) ^ 2, int(v) ^ 3} {
			wire := secec.BuildCompactRecoverableSignature(r, ns, byte(vb))
			for _, rm := range []bool{false, true} {
				out := priv.PublicKey().Verify(digest, wire, &secec.ECDSAOptions{Encoding: secec.EncodingCompactRecoverable, RejectMalleable: rm})
				c.E("vfy.Enc", "q", hx(priv.PublicKey().Bytes()), "digest", hx(digest), "sig", hx(wire), "hasopts", true, "hash", 32, "enc", "recoverable", "rejmal", rm, "out", out)
			}
			rec(digest, new(big.Int).SetBytes(r.Bytes()), new(big.Int).SetBytes(ns.Bytes()), vb, vb == int(v)^1, hx(priv.PublicKey().Bytes()))
		}
	}
	// Q at infinity: s R = e G.  Take R = kG, r = x(R) mod n, any s, e = s k.
	for i := 0; i < c.scale(6, 60); i++ {
		k := add(randBig(rng, add(bigN, -1)), 1)
		R := mulG(k)
		xb, _ := R.XBytes()
		x := new(big.Int).SetBytes(xb)
		if x.Cmp(bigN) >= 0 {
			continue
		}
		s := add(randBig(rng, add(bigN, -1)), 1)
		e := new(big.Int).Mod(new(big.Int).Mul(s, k), bigN)
		v := int(R.IsYOdd())
		rec(be32(e)[:], x, s, v, false, "")
		rec(be32(e)[:], x, s, v^1, false, "")
	}
}

func peerOf(rng *rand.Rand) *secec.PublicKey {
	return privFrom(add(randBig(rng, add(bigN, -1)), 1)).PublicKey()
}

type errReader struct{}

func (errReader) Read([]byte) (int, error) { return 0, errors.New("boom") }

func driveKeys(c *ctx) {
	rng := rand.New(rand.NewSource(c.seed))
	// private keys
	var cands [][]byte
	for _, v := range []*big.Int{big.NewInt(0), big.NewInt(1), add(bigN, -1), bigN, add(bigN, 1), add(big2_256, -1), bigP} {
		cands = append(cands, be32(v)[:])
	}
	for i := 0; i < c.scale(10, 200); i++ {
		cands = append(cands, be32(randBig(rng, bigN))[:])
		cands = append(cands, be32(new(big.Int).Add(bigN, randBig(rng, new(big.Int).Sub(big2_256, bigN))))[:])
	}
	for _, l := range []int{0, 1, 31, 33, 64} {
		cands = append(cands, randBytes(rng, l))
	}
	// a VALID scalar inside a string of another length: a sign octet in front (as DER INTEGER / BigInteger serialisers emit), any other
	// octet in front, an octet behind, the first octet missing, the scalar twice — a private key is 32 bytes and nothing else
	for i := 0; i < 3; i++ {
		k := be32(add(randBig(rng, add(bigN, -1)), 1))[:]
		cands = append(cands, append([]byte{0}, k...), append([]byte{1}, k...), append([]byte{0xff}, k...), append(append([]byte{}, k...), 0),
			k[1:], append(append([]byte{}, k...), k...))
	}
	for _, b := range cands {
		k, err := secec.NewPrivateKey(append([]byte{}, b...))
		if err != nil {
			c.E("key.Private", "in", hx(b), "ok", false, "bytes", "", "scalar", "", "pub", "", "pubcmp", "", "pubpoint", "")
			if k2, err2 := secec.NewPrivateKey(append([]byte{}, b...)); err2 == nil { // offered again at once
				c.E("key.Private", "in", hx(b), "ok", true, "bytes", hx(k2.Bytes()), "scalar", scHex(k2.Scalar()),
					"pub", hx(k2.PublicKey().Bytes()), "pubcmp", hx(k2.PublicKey().CompressedBytes()), "pubpoint", hx(k2.PublicKey().Point().UncompressedBytes()))
			}
			continue
		}
		c.E("key.Private", "in", hx(b), "ok", true, "bytes", hx(k.Bytes()), "scalar", scHex(k.Scalar()),
			"pub", hx(k.PublicKey().Bytes()), "pubcmp", hx(k.PublicKey().CompressedBytes()), "pubpoint", hx(k.PublicKey().Point().UncompressedBytes()))
		k2, err2 := secec.NewPrivateKeyFromScalar(k.Scalar())
		o, p := "", ""
		if err2 == nil {
			o, p = hx(k2.Bytes()), hx(k2.PublicKey().Bytes())
		}
		c.E("key.PrivateFromScalar", "s", hx(b), "ok", err2 == nil, "bytes", o, "pub", p)
	}
	{
		_, err := secec.NewPrivateKeyFromScalar(secp256k1.NewScalar())
		c.E("key.PrivateFromScalar", "s", h32(big.NewInt(0)), "ok", err == nil, "bytes", "", "pub", "")
	}
	// public keys: every class of C06's byte strings plus twist / other-curve points
	pub := func(b []byte, twist bool) {
		k, err := secec.NewPublicKey(append([]byte{}, b...))
		if err != nil {
			c.E("key.Public", "in", hx(b), "ok", false, "unc", "", "cmp", "", "asn1", "", "point", "", "twist", twist)
			// a rejected input is offered again at once: what an error path leaves behind must not change the answer
			if k2, err2 := secec.NewPublicKey(append([]byte{}, b...)); err2 == nil {
				c.E("key.Public", "in", hx(b), "ok", true, "unc", hx(k2.Bytes()), "cmp", hx(k2.CompressedBytes()), "asn1", hx(k2.ASN1Bytes()),
					"point", hx(k2.Point().UncompressedBytes()), "twist", twist, "second_try", true)
			}
			return
		}
		c.E("key.Public", "in", hx(b), "ok", true, "unc", hx(k.Bytes()), "cmp", hx(k.CompressedBytes()), "asn1", hx(k.ASN1Bytes()),
			"point", hx(k.Point().UncompressedBytes()), "twist", twist)
	}
	pub([]byte{0}, false)
	for i := 0; i < c.scale(20, 300); i++ {
		x := randBig(rng, bigP)
		for sqrtP(yyOf(x)) == nil {
			x = add(x, 1)
		}
		y := sqrtP(yyOf(x))
		if i%2 == 1 {
			y = new(big.Int).Sub(bigP, y)
		}
		p := xy{x, y}
		pub(encUnc(p), false)
		pub(encCmp(p), false)
		hy := encUnc(p)
		hy[0] = byte(6 + y.Bit(0))
		pub(hy, false)
		pub(encUnc(p)[:64], false)
		// other curves y^2 = x^3 + b': keep x, take y with y^2 = x^3 + b'
		for _, bp := range []int64{0, 1, 2, 3, 6, 8} {
			v := new(big.Int).Exp(x, big.NewInt(3), bigP)
			v.Add(v, big.NewInt(bp))
			v.Mod(v, bigP)
			if yy := sqrtP(v); yy != nil {
				pub(encUnc(xy{x, yy}), true)
			}
		}
		// quadratic twist: x with x^3 + 7 a non-residue (compressed form has no y to lie about)
		xt := randBig(rng, bigP)
		for sqrtP(yyOf(xt)) != nil {
			xt = add(xt, 1)
		}
		pub(append([]byte{2}, be32(xt)[:]...), true)
		pub(append(append([]byte{4}, be32(xt)[:]...), be32(randBig(rng, bigP))[:]...), true)
	}
	// near-curve points aimed at the comparison the curve check makes: y^2 and x^3 + 7 agree in every 64-bit limb of their internal
	// (Montgomery, R = 2^256) form but ONE, in one bit.  Off the curve; must be refused by every constructor.
	{
		rinv := new(big.Int).ModInverse(new(big.Int).Mod(big2_256, bigP), bigP)
		for limb := uint(0); limb < 4; limb++ {
			found := 0
			for tries := 0; tries < 400 && found < c.scale(2, 8); tries++ {
				x := randBig(rng, bigP)
				tm := new(big.Int).Mod(new(big.Int).Mul(yyOf(x), big2_256), bigP) // Montgomery form of x^3 + 7
				tm2 := new(big.Int).Xor(tm, pow2(64*limb+uint(rng.Intn(64))))
				if tm2.Cmp(bigP) >= 0 {
					continue
				}
				y := sqrtP(new(big.Int).Mod(new(big.Int).Mul(tm2, rinv), bigP))
				if y == nil {
					continue
				}
				found++
				pub(encUnc(xy{x, y}), true)
				// ... and through a Point: coordinates, then NewPublicKeyFromPoint if a Point came out
				if pt, err := secp256k1.NewPointFromCoords(be32(x), be32(y)); err == nil {
					k, kerr := secec.NewPublicKeyFromPoint(pt)
					u := ""
					if kerr == nil {
						u = hx(k.Bytes())
					}
					c.E("lib.Unexpected", "what", "NewPointFromCoords accepted a point off the curve", "x", h32(x), "y", h32(y), "key", u)
				}
			}
		}
	}
	// a rejected decode into a Point that already holds a valid point leaves it alone; a key built from that Point afterwards is
	// the key of the ORIGINAL point
	for i := 0; i < c.scale(4, 30); i++ {
		d := add(randBig(rng, add(bigN, -1)), 1)
		pt := mulG(d)
		if i%2 == 0 {
			pt = secp256k1.NewGeneratorPoint()
			d = big.NewInt(1)
		}
		good := mulG(add(randBig(rng, add(bigN, -1)), 1)).UncompressedBytes()
		bad := append([]byte{}, good...)
		switch i % 3 {
		case 0:
			bad[64] ^= 1 // off the curve
		case 1:
			for j := 33; j < 65; j++ { // y = 2^256 - 1: not below p
				bad[j] = 0xff
			}
		default:
			bad[0] = 6 + good[64]&1 // hybrid
		}
		_, derr := pt.SetBytes(bad)
		_, derr2 := pt.SetUncompressedBytes(bad)
		k, kerr := secec.NewPublicKeyFromPoint(pt)
		u, cm := "", ""
		if kerr == nil {
			u, cm = hx(k.Bytes()), hx(k.CompressedBytes())
		}
		c.E("key.AfterRejectedDecode", "d", h32(d), "rejected", derr != nil && derr2 != nil, "ok", kerr == nil, "unc", u, "cmp", cm)
	}
	for _, p := range curvePointsWithSmallY(rng, 4) { // y + p still fits 32 bytes: a non-canonical alias of a real point
		pub(encUnc(p), false)
		pub(append(append([]byte{4}, be32(p.x)[:]...), be32(new(big.Int).Add(p.y, bigP))[:]...), false)
		if k, err := secec.ParseASN1PublicKey(func() []byte { q, _ := secec.NewPublicKey(encUnc(p)); return q.ASN1Bytes() }()); err == nil {
			_ = k
		}
	}
	for _, p := range curvePointsWithSmallX(rng, 10) {
		pub(encUnc(p), false)
		pub(append(append([]byte{4}, be32(new(big.Int).Add(p.x, bigP))[:]...), be32(p.y)[:]...), false)
		pub(append([]byte{byte(2 + p.y.Bit(0))}, be32(new(big.Int).Add(p.x, bigP))[:]...), false)
	}
	// a VALID point inside a string of another length or framing: x || y without the prefix, x alone, an octet behind / in front
	for i := 0; i < 3; i++ {
		P := mulG(add(randBig(rng, add(bigN, -1)), 1))
		u, cmn := P.UncompressedBytes(), P.CompressedBytes()
		for _, b := range [][]byte{u[1:], cmn[1:], append(append([]byte{}, u...), 0), append(append([]byte{}, cmn...), 0), append([]byte{0}, u...), append([]byte{0}, cmn...),
			append([]byte{4}, cmn...), append([]byte{cmn[0]}, u[1:]...)} {
			pub(b, false)
		}
	}
	// from points (any representative, identity refused)
	for _, p := range []*secp256k1.Point{secp256k1.NewIdentityPoint(), idRep(big.NewInt(3)), secp256k1.NewGeneratorPoint(), rep(mulG(randBig(rng, bigN)), big.NewInt(5))} {
		k, err := secec.NewPublicKeyFromPoint(p)
		u, cm := "", ""
		if err == nil {
			u, cm = hx(k.Bytes()), hx(k.CompressedBytes())
		}
		c.E("key.PublicFromPoint", "p", ptRaw(p), "ok", err == nil, "unc", u, "cmp", cm)
	}
	// ... and from Point OBJECTS with a history: decoded / generator / from-coordinates objects recycled as the receiver of a
	// multiplication or of group operations before the key is built from them (whatever a Point remembers about how it was made
	// must not reach the key's cached encodings)
	for i := 0; i < c.scale(12, 60); i++ {
		base := mulG(add(randBig(rng, add(bigN, -1)), 1))
		var p *secp256k1.Point
		switch i % 4 {
		case 0:
			p, _ = secp256k1.NewPointFromBytes(base.CompressedBytes())
		case 1:
			p, _ = secp256k1.NewPointFromBytes(base.UncompressedBytes())
		case 2:
			p = secp256k1.NewGeneratorPoint()
		default:
			u := base.UncompressedBytes()
			p, _ = secp256k1.NewPointFromCoords((*[32]byte)(u[1:33]), (*[32]byte)(u[33:65]))
		}
		sc := scFrom(add(randBig(rng, add(bigN, -1)), 1))
		switch (i / 4) % 6 {
		case 0:
			p.ScalarMult(sc, p)
		case 1:
			p.ScalarBaseMult(sc)
		case 2:
			p.MultiScalarMult([]*secp256k1.Scalar{sc, sc}, []*secp256k1.Point{p, base})
		case 3:
			p.DoubleScalarMultBasepointVartime(sc, sc, p)
		case 4:
			p.Identity()
			p.Add(p, base)
			p.Double(p)
		default:
			p.MultiScalarMultVartime([]*secp256k1.Scalar{sc}, []*secp256k1.Point{base})
		}
		k, err := secec.NewPublicKeyFromPoint(p)
		u, cm := "", ""
		if err == nil {
			u, cm = hx(k.Bytes()), hx(k.CompressedBytes())
			c.E("sig.Stable", "then", u, "now", hx(k.Point().UncompressedBytes()), "later_enc", "key_point_view")
			if k2, err2 := secec.NewPublicKey(k.Bytes()); err2 != nil || !k2.Equal(k) {
				c.E("lib.Unexpected", "what", "a key's own encoding does not import back to an equal key")
			}
		}
		c.E("key.PublicFromPoint", "p", ptRaw(p), "ok", err == nil, "unc", u, "cmp", cm, "recycled", 1)
	}
	// key objects are immutable: scribble over everything handed out or passed in, then use the keys again
	for i := 0; i < c.scale(6, 60); i++ {
		d := add(randBig(rng, add(bigN, -1)), 1)
		in := append([]byte{}, be32(d)[:]...)
		k, err := secec.NewPrivateKey(in)
		if err != nil {
			panic(err)
		}
		dg := sha256Sum([]byte{byte(i)})
		sig1, _ := k.Sign(secec.RFC6979SHA256(), dg, nil)
		kb1, pb1, pc1, pa1, pp1 := hx(k.Bytes()), hx(k.PublicKey().Bytes()), hx(k.PublicKey().CompressedBytes()), hx(k.PublicKey().ASN1Bytes()), hx(k.PublicKey().Point().UncompressedBytes())
		sh1, _ := k.ECDH(peerOf(rng))
		_ = sh1
		for j := range in {
			in[j] = byte(0x17 + j)
		}
		for _, sl := range [][]byte{k.Bytes(), k.PublicKey().Bytes(), k.PublicKey().CompressedBytes(), k.PublicKey().ASN1Bytes()} {
			for j := range sl {
				sl[j] = byte(0x42 + j)
			}
		}
		sc := k.Scalar()
		sc.Add(sc, sc)
		pt := k.PublicKey().Point()
		pt.Double(pt)
		// constructors taking objects: the key must not keep the caller's scalar / point / slice
		s2 := scFrom(d)
		k2, _ := secec.NewPrivateKeyFromScalar(s2)
		s2.Add(s2, s2)
		src := k.PublicKey().Point()
		q2, _ := secec.NewPublicKeyFromPoint(src)
		src.Add(src, src)
		inp := k.PublicKey().Bytes()
		q3, _ := secec.NewPublicKey(inp)
		for j := range inp {
			inp[j] = 0
		}
		sig2, _ := k.Sign(secec.RFC6979SHA256(), dg, nil)
		copies := k2 != nil && hx(k2.Bytes()) == kb1 && q2 != nil && hx(q2.Bytes()) == pb1 && q3 != nil && hx(q3.Bytes()) == pb1 &&
			hx(q2.Point().UncompressedBytes()) == pb1 && q3.Verify(dg, sig1, nil) && q2.Verify(dg, sig1, nil)
		c.E("key.Immutable", "d", h32(d), "kb1", kb1, "kb2", hx(k.Bytes()), "pb1", pb1, "pb2", hx(k.PublicKey().Bytes()), "pc1", pc1, "pc2", hx(k.PublicKey().CompressedBytes()),
			"pa1", pa1, "pa2", hx(k.PublicKey().ASN1Bytes()), "pp1", pp1, "pp2", hx(k.PublicKey().Point().UncompressedBytes()),
			"sig1", hx(sig1), "sig2", hx(sig2), "copies_ok", copies, "verify_after", k.PublicKey().Verify(dg, sig1, nil))
	}

	// all 256 prefixes in front of a valid x (compressed length) and a valid x || y (uncompressed length)
	{
		k := privFrom(big.NewInt(0x1234567))
		u, cm := k.PublicKey().Bytes(), k.PublicKey().CompressedBytes()
		for pf := 0; pf < 256; pf++ {
			uu, cc := append([]byte{}, u...), append([]byte{}, cm...)
			uu[0], cc[0] = byte(pf), byte(pf)
			pub(uu, false)
			pub(cc, false)
		}
	}
	// ECDH twice on the SAME key objects: the peer key is an operand, not scratch space
	for i := 0; i < c.scale(6, 60); i++ {
		a, b := add(randBig(rng, add(bigN, -1)), 1), add(randBig(rng, add(bigN, -1)), 1)
		ka, kb := privFrom(a), privFrom(b)
		peer, err := secec.NewPublicKey(kb.PublicKey().CompressedBytes())
		if err != nil {
			panic(err)
		}
		ab1, e1 := ka.ECDH(peer)
		ab2, e2 := ka.ECDH(peer)
		ba, e3 := kb.ECDH(ka.PublicKey())
		ba2, e4 := kb.ECDH(ka.PublicKey())
		c.E("ecdh.Repeat", "a", h32(a), "b", h32(b), "ab1", hx(ab1), "ab2", hx(ab2), "ba1", hx(ba), "ba2", hx(ba2), "ok", e1 == nil && e2 == nil && e3 == nil && e4 == nil,
			"peer_bytes", hx(peer.Bytes()), "peer_point", hx(peer.Point().UncompressedBytes()), "apub_bytes", hx(ka.PublicKey().Bytes()), "apub_point", hx(ka.PublicKey().Point().UncompressedBytes()))
	}

	// recovery is a constructor of public-key objects too: inputs crafted so that Q = r^-1 (s R - e G) is the point at infinity
	// (R = kG, r = x(R), e = s k) must yield an error, never a key object; and through Verify with the recoverable encoding
	for i := 0; i < c.scale(6, 40); i++ {
		k := add(randBig(rng, add(bigN, -1)), 1)
		R := mulG(k)
		xb, _ := R.XBytes()
		x := new(big.Int).SetBytes(xb)
		if x.Cmp(bigN) >= 0 {
			continue
		}
		sv := add(randBig(rng, add(bigN, -1)), 1)
		e := new(big.Int).Mod(new(big.Int).Mul(sv, k), bigN)
		for _, v := range []int{int(R.IsYOdd()), int(R.IsYOdd()) ^ 1} {
			var (
				q   *secec.PublicKey
				err error
			)
			o := ""
			if pn := catch(func() { q, err = secec.RecoverPublicKey(be32(e)[:], scFrom(x), scFrom(sv), byte(v)) }); pn {
				c.E("lib.Unexpected", "what", "RecoverPublicKey panicked", "digest", h32(e), "r", h32(x), "s", h32(sv), "v", v)
				continue
			}
			if err == nil {
				o = hx(q.Bytes())
			}
			c.E("rec.Recover", "digest", h32(e), "r", h32(x), "s", h32(sv), "v", v, "ok", err == nil, "q", o, "honest", false, "signer", "")
		}
	}

	// the crypto.Signer view first: Public() on a key object whose PublicKey() was never called, then ECDH with it
	for i := 0; i < c.scale(3, 20); i++ {
		a, b := add(randBig(rng, add(bigN, -1)), 1), add(randBig(rng, add(bigN, -1)), 1)
		ka, err1 := secec.NewPrivateKey(be32(a)[:])
		kb, err2 := secec.NewPrivateKeyFromScalar(scFrom(b))
		if err1 != nil || err2 != nil {
			c.E("lib.Unexpected", "what", "a valid private key was rejected")
			continue
		}
		var ab, ba []byte
		var e1, e2 error
		bpubHex, apubHex := "", ""
		pn := catch(func() {
			bpub, _ := kb.Public().(*secec.PublicKey)
			ab, e1 = ka.ECDH(bpub)
			apub, _ := ka.Public().(*secec.PublicKey)
			ba, e2 = kb.ECDH(apub)
			bpubHex, apubHex = hx(bpub.Bytes()), hx(apub.Bytes())
		})
		if pn {
			c.E("lib.Unexpected", "what", "ECDH with Public() of a fresh key object panicked", "a", h32(a), "b", h32(b))
			continue
		}
		c.E("ecdh", "a", h32(a), "b", h32(b), "apub", apubHex, "bpub", bpubHex, "ab", hx(ab), "ba", hx(ba), "okab", e1 == nil, "okba", e2 == nil)
	}

	// ECDH
	ks := []*big.Int{big.NewInt(1), add(bigN, -1), big.NewInt(2)}
	for i := 0; i < c.scale(10, 150); i++ {
		ks = append(ks, add(randBig(rng, add(bigN, -1)), 1))
	}
	// private scalars steered to the corners of the variable-base multiply (extreme split halves, rounding-bit flips, limb carries in
	// the rounded quotients): each against a couple of ordinary peers
	nOrd := len(ks)
	for _, v := range steeredScalars(rng, 0) {
		if v.Sign() != 0 {
			ks = append(ks, v)
		}
	}
	for i, a := range ks {
		for j, b := range ks {
			if !c.thorough() && i > 2 && j > 2 && (i+j)%4 != 0 {
				continue
			}
			if (i >= nOrd && (j < 3 || j > 4)) || j >= nOrd {
				continue
			}
			ka, kb := privFrom(a), privFrom(b)
			// the peer key travels in one of the three encodings
			var bpub *secec.PublicKey
			var err error
			switch (i + j) % 3 {
			case 0:
				bpub, err = secec.NewPublicKey(kb.PublicKey().Bytes())
			case 1:
				bpub, err = secec.NewPublicKey(kb.PublicKey().CompressedBytes())
			default:
				bpub, err = secec.ParseASN1PublicKey(kb.PublicKey().ASN1Bytes())
			}
			if err != nil {
				panic(err)
			}
			ab, e1 := ka.ECDH(bpub)
			ba, e2 := kb.ECDH(ka.PublicKey())
			c.E("ecdh", "a", h32(a), "b", h32(b), "apub", hx(ka.PublicKey().Bytes()), "bpub", hx(bpub.Bytes()), "ab", hx(ab), "ba", hx(ba), "okab", e1 == nil, "okba", e2 == nil)
		}
	}
}

func add2(a, b *big.Int) *big.Int { return new(big.Int).Add(a, b) }
