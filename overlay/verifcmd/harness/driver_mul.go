//go:build verif && !verifpub

package main

import (
	"math/big"
	"math/rand"

	secp256k1 "gitlab.com/yawning/secp256k1-voi"
)

func init() {
	register("mul", "C04: GLV split, rounding, tables and variable-base multiplication on steered scalars", driveMul)
}

func driveMul(c *ctx) {
	r := rand.New(rand.NewSource(c.seed))
	negLambda, negB1, negB2, g1, g2, beta := secp256k1.VerifGLVConsts()
	c.E("mul.Const", "name", "neglambda", "out", scHex(negLambda))
	c.E("mul.Const", "name", "negb1", "out", scHex(negB1))
	c.E("mul.Const", "name", "negb2", "out", scHex(negB2))
	c.E("mul.Const", "name", "g1", "out", scHex(g1))
	c.E("mul.Const", "name", "g2", "out", scHex(g2))
	c.E("mul.Const", "name", "beta", "out", hx(beta.Bytes()))
	c.E("mul.Const", "name", "bound", "out", "")

	scalars := steeredScalars(r, c.scale(60, 1500))
	for _, s := range scalars {
		sc := scFrom(s)
		k1, k2 := sc.VerifSplitGLV()
		c.E("mul.Split", "s", h32(s), "k1", scHex(k1), "k2", scHex(k2))
		for _, g := range []*secp256k1.Scalar{g1, g2} {
			o := secp256k1.NewScalar().VerifMulGFlooredDiv(sc, g)
			c.E("mul.MulShift", "k", h32(s), "g", scHex(g), "out", scHex(o))
		}
	}
	// mulGFlooredDiv on arbitrary (k, g): limb patterns and products whose floored quotient ends in 2^64-1 with the rounding bit set
	for i := 0; i < c.scale(300, 5000); i++ {
		k, g := randBig(r, bigN), randBig(r, bigN)
		if i%3 == 0 {
			g = edgeGrid(bigN)[r.Intn(40)]
		}
		if i%5 == 0 {
			tgt := new(big.Int).Sub(pow2(448), add(randBig(r, pow2(383)), 1))
			if ss := smallMultNear(r, g, 448, tgt, 126); len(ss) > 0 {
				k = ss[r.Intn(len(ss))]
			}
		}
		o := secp256k1.NewScalar().VerifMulGFlooredDiv(scFrom(k), scFrom(g))
		c.E("mul.MulShift", "k", h32(k), "g", h32(g), "out", scHex(o))
	}

	// points: identity (two representatives), G, random, random in another representative
	R1 := mulG(add(randBig(r, add(bigN, -3)), 2))
	pts := []*secp256k1.Point{
		secp256k1.NewIdentityPoint(), idRep(big.NewInt(5)), secp256k1.NewGeneratorPoint(), R1,
		rep(R1, add(randBig(r, add(bigP, -1)), 1)), rep(secp256k1.NewGeneratorPoint(), add(bigP, -1)),
		// points that share a coordinate with G: -G (same x), in two representatives; lambda*G and lambda^2*G (same y), and -lambda*G
		secp256k1.NewIdentityPoint().Negate(secp256k1.NewGeneratorPoint()),
		rep(secp256k1.NewIdentityPoint().Negate(secp256k1.NewGeneratorPoint()), big.NewInt(7)),
		mulG(bigLambda), mulG(new(big.Int).Mod(new(big.Int).Mul(bigLambda, bigLambda), bigN)),
		secp256k1.NewIdentityPoint().Negate(mulG(bigLambda)),
	}
	type mk struct {
		kind string
		f    func(v *secp256k1.Point, s *secp256k1.Scalar, p *secp256k1.Point) *secp256k1.Point
	}
	kinds := []mk{
		{"ct", func(v *secp256k1.Point, s *secp256k1.Scalar, p *secp256k1.Point) *secp256k1.Point {
			return v.ScalarMult(s, p)
		}},
		{"vartime", func(v *secp256k1.Point, s *secp256k1.Scalar, p *secp256k1.Point) *secp256k1.Point {
			return v.VerifScalarMultVartimeGLV(s, p)
		}},
		{"dsm0", func(v *secp256k1.Point, s *secp256k1.Scalar, p *secp256k1.Point) *secp256k1.Point {
			return v.DoubleScalarMultBasepointVartime(secp256k1.NewScalar(), s, p)
		}},
		{"msm1", func(v *secp256k1.Point, s *secp256k1.Scalar, p *secp256k1.Point) *secp256k1.Point {
			return v.MultiScalarMult([]*secp256k1.Scalar{s}, []*secp256k1.Point{p})
		}},
		{"msmv1", func(v *secp256k1.Point, s *secp256k1.Scalar, p *secp256k1.Point) *secp256k1.Point {
			return v.MultiScalarMultVartime([]*secp256k1.Scalar{s}, []*secp256k1.Point{p})
		}},
	}
	for si, s := range scalars {
		for pi, p0 := range pts {
			if !c.thorough() && si >= 40 && (si+pi)%3 != 0 {
				continue // quick tier: every steered scalar on a third of the points, the first 40 on all
			}
			for ki, k := range kinds {
				if ki >= 2 && (si+pi+ki)%4 != 0 && !c.thorough() {
					continue
				}
				p := clonePt(p0)
				ph := ptRaw(p)
				v := rep(R1, big.NewInt(int64(3+si)))
				sObj := scFrom(s)
				k.f(v, sObj, p)
				c.E("mul.ScalarMult", "kind", k.kind, "alias", "none", "s", h32(s), "p", ph, "out", ptRaw(v), "p_post", ptRaw(p), "s_post", hx(sObj.Bytes()),
					"enc", hx(v.UncompressedBytes()))
				if (ki < 2 && (si+pi)%2 == 0) || ki >= 2 { // the receiver aliases the point argument (every entry point)
					p = clonePt(p0)
					k.f(p, scFrom(s), p)
					c.E("mul.ScalarMult", "kind", k.kind, "alias", "v=p", "s", h32(s), "p", ph, "out", ptRaw(p))
				}
			}
		}
	}
	// the double multiply u1*G + u2*P with each term vanishing in turn: u1 = 0, u2 = 0, P the identity (every representative),
	// both at once; and with the terms cancelling (u2*P = -u1*G)
	{
		some := []*big.Int{big.NewInt(0), big.NewInt(1), big.NewInt(2), add(bigN, -1), bigLambda, randBig(r, bigN), randBig(r, bigN)}
		for i, u1 := range some {
			for j, u2 := range some {
				for pi, p0 := range pts {
					if !c.thorough() && i > 1 && j > 1 && (i+j+pi)%3 != 0 {
						continue
					}
					p := clonePt(p0)
					v := rep(R1, big.NewInt(int64(5+i+j)))
					a, b := scFrom(u1), scFrom(u2)
					v.DoubleScalarMultBasepointVartime(a, b, p)
					c.E("dsm", "alias", "none", "u1", h32(u1), "u2", h32(u2), "p", ptRaw(p0), "out", ptRaw(v), "p_post", ptRaw(p), "vanish", 1)
					if (i+j+pi)%2 == 0 {
						p = clonePt(p0)
						p.DoubleScalarMultBasepointVartime(scFrom(u1), scFrom(u2), p)
						c.E("dsm", "alias", "v=p", "u1", h32(u1), "u2", h32(u2), "p", ptRaw(p0), "out", ptRaw(p), "vanish", 1)
					}
				}
			}
		}
		for i := 0; i < 4; i++ { // u2 * (k*G) = -u1 * G
			k, u2 := add(randBig(r, add(bigN, -1)), 1), add(randBig(r, add(bigN, -1)), 1)
			u1 := new(big.Int).Mod(new(big.Int).Neg(new(big.Int).Mul(k, u2)), bigN)
			p := mulG(k)
			v := secp256k1.NewGeneratorPoint().DoubleScalarMultBasepointVartime(scFrom(u1), scFrom(u2), p)
			c.E("dsm", "alias", "none", "u1", h32(u1), "u2", h32(u2), "p", ptRaw(p), "out", ptRaw(v), "p_post", ptRaw(p), "vanish", 1)
		}
	}
	// one object through SEVERAL multiplies: an in-place multiply (the receiver is the point), then the result — the same object, a
	// Set copy, a NewPointFrom copy — is the point of the next multiply, through every entry point.  Whatever a multiply keeps
	// from one call to the next (tables, a "last point") has to be keyed by the point's value at the time it was read.
	for round := 0; round < c.scale(4, 30); round++ {
		p := clonePt(pts[3+round%2])
		for step := 0; step < 6; step++ {
			k1 := kinds[r.Intn(len(kinds))]
			s1 := scalars[r.Intn(len(scalars))]
			if s1.Sign() == 0 {
				s1 = big.NewInt(3)
			}
			ph := ptRaw(p)
			k1.f(p, scFrom(s1), p)
			c.E("mul.ScalarMult", "kind", k1.kind, "alias", "v=p", "s", h32(s1), "p", ph, "out", ptRaw(p), "seq", 1)
			for _, k2 := range kinds {
				s2 := add(randBig(r, add(bigN, -1)), 1)
				var q *secp256k1.Point
				switch r.Intn(3) {
				case 0:
					q = p
				case 1:
					q = secp256k1.NewIdentityPoint().Set(p)
				default:
					q = secp256k1.NewPointFrom(p)
				}
				qh := ptRaw(q)
				v := rep(R1, big.NewInt(int64(9+step)))
				sObj := scFrom(s2)
				k2.f(v, sObj, q)
				c.E("mul.ScalarMult", "kind", k2.kind, "alias", "none", "s", h32(s2), "p", qh, "out", ptRaw(v), "p_post", ptRaw(q), "s_post", hx(sObj.Bytes()),
					"enc", hx(v.UncompressedBytes()), "seq", 1)
			}
		}
	}
	// multiples tables and the endomorphism
	for _, p0 := range pts {
		tbl := secp256k1.VerifNewProjTable(p0)
		for i := 0; i < 15; i++ {
			c.E("mul.TableEntry", "p", ptRaw(p0), "i", i+1, "out", ptRaw(tbl.VerifEntry(i)))
		}
		v := secp256k1.NewIdentityPoint().VerifMulBeta(p0)
		c.E("mul.MulBeta", "p", ptRaw(p0), "out", ptRaw(v))
	}
}
