//go:build verif

package main

import (
	"crypto/sha256"
	"encoding/hex"
	"math/big"
	"math/rand"
)

// Untrusted helpers for building steered inputs.  Nothing here is used as an oracle.

var (
	bigP, _      = new(big.Int).SetString("fffffffffffffffffffffffffffffffffffffffffffffffffffffffefffffc2f", 16)
	bigN, _      = new(big.Int).SetString("fffffffffffffffffffffffffffffffebaaedce6af48a03bbfd25e8cd0364141", 16)
	big2_256     = new(big.Int).Lsh(big.NewInt(1), 256)
	bigOne       = big.NewInt(1)
	bigLambda, _ = new(big.Int).SetString("5363ad4cc05c30e0a5261c028812645a122e22ea20816678df02967c1b23bd72", 16)
)

func hx(b []byte) string { return hex.EncodeToString(b) }

func unhex(s string) []byte {
	b, err := hex.DecodeString(s)
	if err != nil {
		panic(err)
	}
	return b
}

// be32 returns the 32-byte big-endian encoding of v (v < 2^256).
func be32(v *big.Int) *[32]byte {
	var out [32]byte
	if v.Sign() < 0 || v.BitLen() > 256 {
		panic("be32: out of range")
	}
	v.FillBytes(out[:])
	return &out
}

func bi(s string) *big.Int {
	v, ok := new(big.Int).SetString(s, 16)
	if !ok {
		panic("bi: " + s)
	}
	return v
}

func add(a *big.Int, d int64) *big.Int { return new(big.Int).Add(a, big.NewInt(d)) }
func pow2(k uint) *big.Int             { return new(big.Int).Lsh(bigOne, k) }

func randBig(r *rand.Rand, max *big.Int) *big.Int {
	// uniform-ish in [0, max): 320 random bits reduced
	b := make([]byte, 40)
	r.Read(b)
	return new(big.Int).Mod(new(big.Int).SetBytes(b), max)
}

func randBytes(r *rand.Rand, n int) []byte {
	b := make([]byte, n)
	r.Read(b)
	return b
}

// edgeGrid returns values in [0, m) that sit near 0, near m, near 2^256 - m, around (m-1)/2,
// at powers of two and limb boundaries, and with extreme limb patterns.
func edgeGrid(m *big.Int) []*big.Int {
	seen := map[string]bool{}
	var out []*big.Int
	put := func(v *big.Int) {
		if v.Sign() < 0 || v.Cmp(m) >= 0 {
			return
		}
		k := v.Text(16)
		if !seen[k] {
			seen[k] = true
			out = append(out, new(big.Int).Set(v))
		}
	}
	c := new(big.Int).Sub(big2_256, m) // 2^256 - m  (= 2^32+977 for p)
	half := new(big.Int).Rsh(new(big.Int).Sub(m, bigOne), 1)
	for d := int64(0); d <= 3; d++ {
		put(big.NewInt(d))
		put(add(m, -1-d))
		put(add(c, d))
		put(add(c, -d))
		put(add(half, d))
		put(add(half, -d))
		put(new(big.Int).Sub(m, add(c, d)))
		put(new(big.Int).Sub(m, add(c, -d)))
	}
	for _, k := range []uint{31, 32, 33, 63, 64, 65, 127, 128, 129, 191, 192, 193, 254, 255} {
		put(pow2(k))
		put(add(pow2(k), -1))
		put(add(pow2(k), 1))
		put(new(big.Int).Sub(m, pow2(k)))
	}
	// limb-steered neighbours of the constants comparisons are made against ((m-1)/2, m-1, 2^256-m): equal to the constant in every
	// 64-bit limb but one
	for _, K := range []*big.Int{half, add(m, -1), c} {
		kl := bigToLimbs(K)
		for limb := 0; limb < 4; limb++ {
			for _, d := range []int64{1, 2} {
				dd := new(big.Int).Lsh(big.NewInt(d), uint(64*limb))
				put(new(big.Int).Add(K, dd))
				put(new(big.Int).Sub(K, dd))
			}
			for _, repl := range []uint64{0, 0xffffffffffffffff, kl[limb] ^ (1 << 63), kl[limb] ^ 1} {
				l2 := kl
				l2[limb] = repl
				put(limbsToBig(l2))
			}
		}
	}
	// limb patterns
	pats := []uint64{0, 1, 0xffffffffffffffff, 0x8000000000000000, 0x7fffffffffffffff, 0xaaaaaaaaaaaaaaaa, 0x00000000ffffffff, 0xffffffff00000000}
	for _, a := range pats {
		for _, b := range pats[:4] {
			for pos := 0; pos < 4; pos++ {
				var l [4]uint64
				for i := range l {
					l[i] = b
				}
				l[pos] = a
				put(limbsToBig(l))
			}
		}
	}
	return out
}

func limbsToBig(l [4]uint64) *big.Int {
	v := new(big.Int)
	for i := 3; i >= 0; i-- {
		v.Lsh(v, 64)
		v.Or(v, new(big.Int).SetUint64(l[i]))
	}
	return v
}

func bigToLimbs(v *big.Int) [4]uint64 {
	var l [4]uint64
	t := new(big.Int).Set(v)
	mask := new(big.Int).SetUint64(0xffffffffffffffff)
	for i := 0; i < 4; i++ {
		l[i] = new(big.Int).And(t, mask).Uint64()
		t.Rsh(t, 64)
	}
	return l
}

// montWindowPair constructs (x, y), both < m, whose word-by-word Montgomery product before the
// final conditional subtraction, T = (x*y + mm*m) / 2^256, equals a chosen target in [m, 2^256).
// Returns ok=false if the construction failed for this draw.
func montWindowPair(r *rand.Rand, m *big.Int) (x, y *big.Int, ok bool) {
	R := big2_256
	c := new(big.Int).Sub(R, m)
	T := new(big.Int).Add(m, randBig(r, c)) // target in [m, 2^256)
	x = new(big.Int).Sub(m, add(randBig(r, pow2(40)), 1))
	if new(big.Int).GCD(nil, nil, x, m).Cmp(bigOne) != 0 {
		return nil, nil, false
	}
	// need x*y + mm*m = T*R with 0 <= mm < R, 0 <= y < m:  mm = T*R * m^-1 (mod x)
	minv := new(big.Int).ModInverse(new(big.Int).Mod(m, x), x)
	if minv == nil {
		return nil, nil, false
	}
	TR := new(big.Int).Mul(T, R)
	mm := new(big.Int).Mul(new(big.Int).Mod(TR, x), minv)
	mm.Mod(mm, x)
	// mm can be shifted by multiples of x; pick the representative that makes y land in [0, m)
	num := new(big.Int).Sub(TR, new(big.Int).Mul(mm, m))
	if num.Sign() < 0 {
		return nil, nil, false
	}
	y = new(big.Int).Div(num, x)
	if new(big.Int).Mul(y, x).Cmp(num) != 0 || y.Cmp(m) >= 0 || mm.Cmp(R) >= 0 {
		return nil, nil, false
	}
	return x, y, true
}

func sha256Sum(b []byte) []byte {
	h := sha256.Sum256(b)
	return h[:]
}

func hexDecode(s string) ([]byte, error) { return hex.DecodeString(s) }
