//go:build verif

package main

import (
	"math/big"
	"math/rand"

	secp256k1 "gitlab.com/yawning/secp256k1-voi"
	"gitlab.com/yawning/secp256k1-voi/internal/field"
)

// Object lifetimes (C01 / C02): ONE long-lived object is mutated again and again through every mutator of its type, with
// operands of every class, and EVERY observer is read after every mutation — on the object itself, on a fresh copy and on a
// second long-lived object that receives it through Set.  The trace specification carries the abstract value.  Anything an
// object remembers besides its value (a cached encoding, a "known canonical" flag, a stale limb) shows up as an observer that
// disagrees with the value.

func init() {
	register("sclife", "C02: one long-lived Scalar through every mutator, every observer read after each (exported API only)", func(c *ctx) {
		r := rand.New(rand.NewSource(c.seed))
		scalarLife(c, r, lifeVals(r, bigN))
	})
	register("ptlife", "C03: one long-lived Point as the receiver of every operation, every observer read after each (exported API only)", func(c *ctx) {
		pointLife(c, rand.New(rand.NewSource(c.seed)))
	})
	register("felife", "C01: one long-lived field element through every mutator, every observer read after each (exported API only)", func(c *ctx) {
		r := rand.New(rand.NewSource(c.seed))
		fieldLife(c, r, lifeVals(r, bigP))
	})
}

func lifeVals(r *rand.Rand, m *big.Int) []*big.Int {
	vals := append([]*big.Int{}, edgeGrid(m)...)
	for i := 0; i < 40; i++ {
		vals = append(vals, randBig(r, m))
	}
	return vals
}

var lifeCtrls = []uint64{0, 1, 2, 1 << 32, 1 << 63, 0xffffffffffffffff, 0xfffffffffffffffe}

func scalarLife(c *ctx, r *rand.Rand, vals []*big.Int) {
	c.nextTrace()
	obj := secp256k1.NewScalar()
	other := secp256k1.NewScalarFromUint64(77)
	var argObj, ret *secp256k1.Scalar // the operand object of the step (it has to come out as it went in) and what the mutator returned (the receiver)
	observe := func(op, arg string, ctrl int) {
		cp := secp256k1.NewScalarFrom(obj)
		other.Set(obj)
		argAfter, retSelf := "", -1
		if argObj != nil {
			argAfter = hx(argObj.Bytes())
		}
		if ret != nil {
			retSelf = b2i(ret == obj)
		}
		argObj, ret = nil, nil
		c.E("sc.Life", "op", op, "arg", arg, "ctrl", ctrl, "arg_after", argAfter, "retself", retSelf,
			"bytes", hx(obj.Bytes()), "ghalf", int(obj.IsGreaterThanHalfN()), "iszero", int(obj.IsZero()), "eqself", int(obj.Equal(obj)),
			"copy", hx(cp.Bytes()), "copy_ghalf", int(cp.IsGreaterThanHalfN()), "copy_iszero", int(cp.IsZero()), "eqcopy", int(obj.Equal(cp)),
			"other", hx(other.Bytes()), "other_ghalf", int(other.IsGreaterThanHalfN()), "bytes_again", hx(obj.Bytes()))
	}
	ops := []string{"zero", "one", "add", "sub", "rsub", "neg", "mul", "sq", "set", "setbytes", "setcanon", "cneg", "csel", "inv", "double", "sum", "prod", "setu64",
		"inv_from", "neg_from", "sq_from", "cneg_from", "add2", "sub2", "mul2", "inv_from"}
	doStep := func(step int, fOp string, fA *big.Int, fObj *secp256k1.Scalar) {
		op := ops[r.Intn(len(ops))]
		if step%7 == 3 {
			op = "zero" // the mutators that write limbs directly come up often
		}
		a := vals[r.Intn(len(vals))]
		am := new(big.Int).Mod(a, bigN)
		cw := lifeCtrls[r.Intn(len(lifeCtrls))]
		ctrl := b2i(cw != 0)
		arg := h32(am)
		if (op == "inv_from" || op == "mul2") && r.Intn(3) == 0 {
			am = big.NewInt(int64(r.Intn(2))) // the special values, into a receiver that holds something else
			arg = h32(am)
		}
		ao := scFrom(am)
		if fOp != "" {
			op = fOp
			if fA != nil {
				am, ao, arg = fA, fObj, h32(fA)
			}
		}
		switch op {
		case "zero":
			ret = obj.Zero()
		case "one":
			ret = obj.One()
		case "add":
			argObj, ret = ao, obj.Add(obj, ao)
		case "sub":
			argObj, ret = ao, obj.Subtract(obj, ao)
		case "rsub":
			argObj, ret = ao, obj.Subtract(ao, obj)
		case "neg":
			ret = obj.Negate(obj)
		case "mul":
			argObj, ret = ao, obj.Multiply(obj, ao)
		case "sq":
			ret = obj.Square(obj)
		case "set":
			argObj, ret = ao, obj.Set(ao)
		case "inv_from": // the receiver holds something else and is NOT the operand
			argObj, ret = ao, obj.Invert(ao)
		case "neg_from":
			argObj, ret = ao, obj.Negate(ao)
		case "sq_from":
			argObj, ret = ao, obj.Square(ao)
		case "cneg_from":
			argObj, ret = ao, obj.ConditionalNegate(ao, cw)
		case "add2":
			argObj, ret = ao, obj.Add(ao, ao)
		case "sub2":
			argObj, ret = ao, obj.Subtract(secp256k1.NewScalar(), ao)
		case "mul2":
			argObj, ret = ao, obj.Multiply(ao, ao)
		case "setbytes":
			raw := new(big.Int).Set(a)
			if r.Intn(3) == 0 {
				raw = new(big.Int).Add(bigN, randBig(r, new(big.Int).Sub(big2_256, bigN)))
			}
			arg = h32(raw)
			b := be32(raw)
			obj.SetBytes(b)
		case "setcanon":
			raw := new(big.Int).Set(a)
			if r.Intn(2) == 0 {
				raw = new(big.Int).Add(bigN, randBig(r, new(big.Int).Sub(big2_256, bigN)))
			}
			arg = h32(raw)
			b := be32(raw)
			_, _ = obj.SetCanonicalBytes(b)
		case "cneg":
			ret = obj.ConditionalNegate(obj, cw)
		case "csel":
			argObj, ret = ao, obj.ConditionalSelect(obj, ao, cw)
		case "inv":
			ret = obj.Invert(obj)
		case "double":
			ret = obj.Add(obj, obj)
		case "sum":
			argObj, ret = ao, obj.Sum(obj, ao, obj)
		case "prod":
			argObj, ret = ao, obj.Product(obj, ao, obj)
		case "setu64": // the long-lived object is now whatever the constructor handed out (0 and 1 come up often): it is OURS to mutate
			u := r.Uint64() >> uint(r.Intn(40))
			if r.Intn(2) == 0 {
				u = uint64(r.Intn(3))
			}
			arg = h32(new(big.Int).SetUint64(u))
			obj = secp256k1.NewScalarFromUint64(u)
		}
		observe(op, arg, ctrl)
	}
	// systematic part: every kind of receiver (how the object came to be) x every kind of operand x every mutator
	{
		rv := func() *big.Int { return vals[r.Intn(len(vals))] }
		srcs := []func() (*secp256k1.Scalar, *big.Int){
			func() (*secp256k1.Scalar, *big.Int) { return secp256k1.NewScalar(), big.NewInt(0) },
			func() (*secp256k1.Scalar, *big.Int) { return new(secp256k1.Scalar), big.NewInt(0) }, // the zero value is a valid zero
			func() (*secp256k1.Scalar, *big.Int) { return secp256k1.NewScalarFromUint64(1), big.NewInt(1) },
			func() (*secp256k1.Scalar, *big.Int) { return secp256k1.NewScalarFromUint64(0), big.NewInt(0) },
			func() (*secp256k1.Scalar, *big.Int) { return secp256k1.NewScalar().One(), big.NewInt(1) },
			func() (*secp256k1.Scalar, *big.Int) { // decoded, canonical
				v := new(big.Int).Mod(rv(), bigN)
				x, err := secp256k1.NewScalarFromCanonicalBytes(be32(v))
				if err != nil {
					panic(err)
				}
				return x, v
			},
			func() (*secp256k1.Scalar, *big.Int) { // decoded with reduction
				v := new(big.Int).Add(bigN, randBig(r, new(big.Int).Sub(big2_256, bigN)))
				x, _ := secp256k1.NewScalarFromBytes(be32(v))
				return x, new(big.Int).Mod(v, bigN)
			},
			func() (*secp256k1.Scalar, *big.Int) { // an arithmetic result
				a, b := new(big.Int).Mod(rv(), bigN), new(big.Int).Mod(rv(), bigN)
				return secp256k1.NewScalar().Multiply(scFrom(a), scFrom(b)), new(big.Int).Mod(new(big.Int).Mul(a, b), bigN)
			},
			func() (*secp256k1.Scalar, *big.Int) { // a - a: zero as a result
				a := scFrom(new(big.Int).Mod(rv(), bigN))
				return secp256k1.NewScalar().Subtract(a, a), big.NewInt(0)
			},
			func() (*secp256k1.Scalar, *big.Int) { // a copy
				v := new(big.Int).Mod(rv(), bigN)
				return secp256k1.NewScalarFrom(scFrom(v)), v
			},
		}
		matrixOps := []string{"add", "sub", "rsub", "mul", "set", "csel", "sum", "prod", "inv_from", "neg_from", "sq_from", "cneg_from", "add2", "sub2", "mul2",
			"zero", "one", "neg", "sq", "inv", "double", "cneg", "setbytes", "setcanon"}
		for ri := range srcs {
			for si := range srcs {
				for oi, op := range matrixOps {
					if oi >= 15 && si != ri { // the operand plays no part in these: once per receiver kind
						continue
					}
					var v *big.Int
					obj, v = srcs[ri]()
					observe("reset", h32(v), 0)
					o2, v2 := srcs[si]()
					doStep(oi, op, v2, o2)
				}
			}
		}
	}
	for round := 0; round < c.scale(6, 60); round++ {
		start := vals[r.Intn(len(vals))]
		obj = scFrom(new(big.Int).Mod(start, bigN)) // a new object now and then; mostly the same one lives on
		observe("reset", h32(new(big.Int).Mod(start, bigN)), 0)
		for step := 0; step < 40; step++ {
			doStep(step, "", nil, nil)
		}
	}
	c.sticky = false
}

func fieldLife(c *ctx, r *rand.Rand, vals []*big.Int) {
	c.nextTrace()
	obj := field.NewElement()
	other := field.NewElementFromUint64(77)
	var argObj, ret *field.Element
	observe := func(op, arg string, ctrl int, flag int) {
		cp := field.NewElementFrom(obj)
		other.Set(obj)
		argAfter, retSelf := "", -1
		if argObj != nil {
			argAfter = hx(argObj.Bytes())
		}
		if ret != nil {
			retSelf = b2i(ret == obj)
		}
		argObj, ret = nil, nil
		c.E("fe.Life", "op", op, "arg", arg, "ctrl", ctrl, "flag", flag, "arg_after", argAfter, "retself", retSelf,
			"bytes", hx(obj.Bytes()), "isodd", int(obj.IsOdd()), "iszero", int(obj.IsZero()), "eqself", int(obj.Equal(obj)),
			"copy", hx(cp.Bytes()), "copy_isodd", int(cp.IsOdd()), "copy_iszero", int(cp.IsZero()), "eqcopy", int(obj.Equal(cp)),
			"other", hx(other.Bytes()), "other_isodd", int(other.IsOdd()), "bytes_again", hx(obj.Bytes()))
	}
	ops := []string{"zero", "one", "add", "sub", "rsub", "neg", "mul", "sq", "set", "setbytes", "setcanon", "cneg", "csel", "inv", "double", "sqrt", "pow2k", "wide", "setu64", "setu64",
		"inv_from", "neg_from", "sq_from", "cneg_from", "add2", "sub2", "mul2", "inv_from", "pow2k_from"}
	doStep := func(step int, fOp string, fA *big.Int, fObj *field.Element) {
		op := ops[r.Intn(len(ops))]
		if step%7 == 3 {
			op = "zero"
		}
		a := vals[r.Intn(len(vals))]
		am := new(big.Int).Mod(a, bigP)
		cw := lifeCtrls[r.Intn(len(lifeCtrls))]
		ctrl := b2i(cw != 0)
		arg := h32(am)
		flag := -1
		if (op == "inv_from" || op == "mul2" || op == "pow2k_from") && r.Intn(3) == 0 {
			am = big.NewInt(int64(r.Intn(2)))
			arg = h32(am)
		}
		ao := feFrom(am)
		if fOp != "" {
			op = fOp
			if fA != nil {
				am, ao, arg = fA, fObj, h32(fA)
			}
		}
		switch op {
		case "zero":
			ret = obj.Zero()
		case "one":
			ret = obj.One()
		case "add":
			argObj, ret = ao, obj.Add(obj, ao)
		case "sub":
			argObj, ret = ao, obj.Subtract(obj, ao)
		case "rsub":
			argObj, ret = ao, obj.Subtract(ao, obj)
		case "neg":
			ret = obj.Negate(obj)
		case "mul":
			argObj, ret = ao, obj.Multiply(obj, ao)
		case "sq":
			ret = obj.Square(obj)
		case "set":
			argObj, ret = ao, obj.Set(ao)
		case "inv_from":
			argObj, ret = ao, obj.Invert(ao)
		case "neg_from":
			argObj, ret = ao, obj.Negate(ao)
		case "sq_from":
			argObj, ret = ao, obj.Square(ao)
		case "cneg_from":
			argObj, ret = ao, obj.ConditionalNegate(ao, cw)
		case "add2":
			argObj, ret = ao, obj.Add(ao, ao)
		case "sub2":
			argObj, ret = ao, obj.Subtract(field.NewElement(), ao)
		case "mul2":
			argObj, ret = ao, obj.Multiply(ao, ao)
		case "pow2k_from":
			k := 1 + r.Intn(5)
			ctrl = k
			argObj, ret = ao, obj.Pow2k(ao, uint(k))
		case "setbytes":
			raw := new(big.Int).Set(am)
			if r.Intn(3) == 0 {
				raw = new(big.Int).Add(bigP, randBig(r, new(big.Int).Sub(big2_256, bigP)))
			}
			arg = h32(raw)
			b := be32(raw)
			obj.SetBytes(b)
		case "setcanon":
			raw := new(big.Int).Set(am)
			if r.Intn(2) == 0 {
				raw = new(big.Int).Add(bigP, randBig(r, new(big.Int).Sub(big2_256, bigP)))
			}
			arg = h32(raw)
			b := be32(raw)
			_, _ = obj.SetCanonicalBytes(b)
		case "cneg":
			ret = obj.ConditionalNegate(obj, cw)
		case "csel":
			argObj, ret = ao, obj.ConditionalSelect(obj, ao, cw)
		case "inv":
			ret = obj.Invert(obj)
		case "double":
			ret = obj.Add(obj, obj)
		case "sqrt": // the receiver is the long-lived object, the argument another element: root or zero
			var f uint64
			argObj = ao
			ret, f = obj.Sqrt(ao)
			flag = int(f)
		case "pow2k":
			k := 1 + r.Intn(5)
			ctrl = k
			ret = obj.Pow2k(obj, uint(k))
		case "setu64": // the object handed out by the constructor (0 and 1 often) is the caller's to mutate from here on
			u := r.Uint64() >> uint(r.Intn(40))
			if r.Intn(2) == 0 {
				u = uint64(r.Intn(3))
			}
			arg = h32(new(big.Int).SetUint64(u))
			obj = field.NewElementFromUint64(u)
		case "wide":
			l := 33 + r.Intn(32)
			w := randBytes(r, l)
			arg = hx(w)
			obj.SetWideBytes(w)
		}
		observe(op, arg, ctrl, flag)
	}
	// wide strings aimed at the carries of a special-form fold (round 8), into the live object
	for _, w := range wideFoldInputs(r) {
		obj.SetWideBytes(w)
		observe("wide", hx(w), 0, -1)
	}
	// systematic part: every kind of receiver (how the object came to be) x every kind of operand x every mutator
	{
		rv := func() *big.Int { return vals[r.Intn(len(vals))] }
		srcs := []func() (*field.Element, *big.Int){
			func() (*field.Element, *big.Int) { return field.NewElement(), big.NewInt(0) },
			func() (*field.Element, *big.Int) { return new(field.Element), big.NewInt(0) }, // the zero value is a valid zero
			func() (*field.Element, *big.Int) { return field.NewElementFromUint64(1), big.NewInt(1) },
			func() (*field.Element, *big.Int) { return field.NewElementFromUint64(0), big.NewInt(0) },
			func() (*field.Element, *big.Int) { return field.NewElement().One(), big.NewInt(1) },
			func() (*field.Element, *big.Int) { // decoded, canonical
				v := new(big.Int).Mod(rv(), bigP)
				x, err := field.NewElementFromCanonicalBytes(be32(v))
				if err != nil {
					panic(err)
				}
				return x, v
			},
			func() (*field.Element, *big.Int) { // decoded with reduction
				v := new(big.Int).Add(bigP, randBig(r, new(big.Int).Sub(big2_256, bigP)))
				x, _ := fieldFromBytes(be32(v))
				return x, new(big.Int).Mod(v, bigP)
			},
			func() (*field.Element, *big.Int) { // an arithmetic result
				a, b := new(big.Int).Mod(rv(), bigP), new(big.Int).Mod(rv(), bigP)
				return field.NewElement().Multiply(feFrom(a), feFrom(b)), new(big.Int).Mod(new(big.Int).Mul(a, b), bigP)
			},
			func() (*field.Element, *big.Int) { // a - a: zero as a result
				a := feFrom(new(big.Int).Mod(rv(), bigP))
				return field.NewElement().Subtract(a, a), big.NewInt(0)
			},
			func() (*field.Element, *big.Int) { // a copy
				v := new(big.Int).Mod(rv(), bigP)
				return field.NewElementFrom(feFrom(v)), v
			},
		}
		matrixOps := []string{"add", "sub", "rsub", "mul", "set", "csel", "inv_from", "neg_from", "sq_from", "cneg_from", "add2", "sub2", "mul2",
			"zero", "one", "neg", "sq", "inv", "double", "cneg", "setbytes", "setcanon", "sqrt", "pow2k", "pow2k_from", "wide"}
		for ri := range srcs {
			for si := range srcs {
				for oi, op := range matrixOps {
					if oi >= 13 && oi != 24 && si != ri { // the operand plays no part in these: once per receiver kind
						continue
					}
					var v *big.Int
					obj, v = srcs[ri]()
					observe("reset", h32(v), 0, -1)
					o2, v2 := srcs[si]()
					doStep(oi, op, v2, o2)
				}
			}
		}
	}
	for round := 0; round < c.scale(6, 60); round++ {
		start := new(big.Int).Mod(vals[r.Intn(len(vals))], bigP)
		obj = feFrom(start)
		observe("reset", h32(start), 0, -1)
		for step := 0; step < 40; step++ {
			doStep(step, "", nil, nil)
		}
	}
	c.sticky = false
}

// pointLife (C03 / C05 / C06): ONE long-lived Point is the receiver of every kind of operation, with operands from every
// constructor (decoded, generator, from coordinates, computed with Z != 1, identities of both origins), and after each one every
// observer is read — both encodings, XBytes, IsYOdd, IsIdentity, Equal — on the object, on a fresh copy and on a second
// long-lived object set from it.  Whatever a Point remembers besides its coordinates (a "Z is one" hint, a cached parity or
// encoding) has to survive being a recycled receiver.
func pointLife(c *ctx, r *rand.Rand) {
	c.nextTrace()
	rk := func() *big.Int { return add(randBig(r, add(bigN, -1)), 1) }
	// (kinds: what the constructor is DOCUMENTED to hand out, for the ones where that is a fixed point)
	srcKinds := []string{"generator", "", "", "", "", "", "", "identity", "identity", "generator", "identity", "neg_generator"}
	sources := []func() *secp256k1.Point{
		func() *secp256k1.Point { return secp256k1.NewGeneratorPoint() },
		func() *secp256k1.Point { // decoded, compressed
			p, err := secp256k1.NewPointFromBytes(mulG(rk()).CompressedBytes())
			if err != nil {
				panic(err)
			}
			return p
		},
		func() *secp256k1.Point { // decoded, uncompressed, through SetBytes on a recycled object
			p := secp256k1.NewGeneratorPoint()
			if _, err := p.SetBytes(mulG(rk()).UncompressedBytes()); err != nil {
				panic(err)
			}
			return p
		},
		func() *secp256k1.Point { // from coordinates
			b := mulG(rk()).UncompressedBytes()
			p, err := secp256k1.NewPointFromCoords((*[32]byte)(b[1:33]), (*[32]byte)(b[33:65]))
			if err != nil {
				panic(err)
			}
			return p
		},
		func() *secp256k1.Point { return secp256k1.NewIdentityPoint().Add(mulG(rk()), mulG(rk())) },          // computed: Z != 1
		func() *secp256k1.Point { return secp256k1.NewIdentityPoint().Double(mulG(rk())) },                   // computed: Z != 1
		func() *secp256k1.Point { return secp256k1.NewIdentityPoint().ScalarMult(scFrom(rk()), mulG(rk())) }, // a multiply result
		func() *secp256k1.Point { return secp256k1.NewIdentityPoint() },
		func() *secp256k1.Point { p := mulG(rk()); return secp256k1.NewIdentityPoint().Subtract(p, p) }, // a computed identity
		func() *secp256k1.Point { return secp256k1.NewPointFrom(secp256k1.NewGeneratorPoint()) },
		func() *secp256k1.Point { // the identity, decoded: a fresh object each time, the caller's to mutate
			p, err := secp256k1.NewPointFromBytes([]byte{0})
			if err != nil {
				panic(err)
			}
			return p
		},
		func() *secp256k1.Point { return secp256k1.NewIdentityPoint().Negate(secp256k1.NewGeneratorPoint()) }, // -G
	}
	enc := func(p *secp256k1.Point) string { return hx(p.UncompressedBytes()) }
	// Equal on affine pairs (x, y), (beta*x, y) whose x coordinates differ, in their internal limbs, by a pattern that a careless
	// accumulation of limb differences cancels (the y comparison is genuinely equal)
	for _, beta := range []*big.Int{bigBeta, new(big.Int).Mod(new(big.Int).Mul(bigBeta, bigBeta), bigP)} {
		for _, w := range betaTwinW(r, beta) {
			yy := new(big.Int).Exp(w, big.NewInt(3), bigP)
			y := new(big.Int).ModSqrt(yy.Add(yy, big.NewInt(7)).Mod(yy, bigP), bigP)
			if y == nil {
				continue
			}
			bw := new(big.Int).Mod(new(big.Int).Mul(w, beta), bigP)
			P, err1 := secp256k1.NewPointFromCoords(be32(w), be32(y))
			Q, err2 := secp256k1.NewPointFromCoords(be32(bw), be32(y))
			if err1 != nil || err2 != nil {
				c.E("lib.Unexpected", "what", "NewPointFromCoords rejects a point of the curve")
				continue
			}
			c.E("pt.EqualEnc", "p", enc(P), "q", enc(Q), "out", int(P.Equal(Q)), "out_rev", int(Q.Equal(P)), "self", int(P.Equal(P)))
		}
	}
	obj := secp256k1.NewGeneratorPoint()
	other := secp256k1.NewIdentityPoint()
	srcKind := ""
	observe := func(op, src, s, t, raw string, ctrl int) {
		cp := secp256k1.NewPointFrom(obj)
		other.Set(obj)
		yoddAny := int(obj.IsYOdd()) // asked of EVERY value, the identity included (its answer is unconstrained; the object must stay as it is)
		xb, yodd := "err", -1
		if b, err := obj.XBytes(); err == nil {
			xb = hx(b)
			yodd = yoddAny
		}
		cyodd := -1
		if cp.IsIdentity() == 0 {
			cyodd = int(cp.IsYOdd())
		}
		c.E("pt.Life", "op", op, "src", src, "src_kind", srcKind, "s", s, "t", t, "bytes", raw, "ctrl", ctrl, "rawpt", ptRaw(obj),
			"unc", enc(obj), "cmp", hx(obj.CompressedBytes()), "xb", xb, "yodd", yodd, "isid", int(obj.IsIdentity()), "eqself", int(obj.Equal(obj)),
			"copy_unc", enc(cp), "copy_cmp", hx(cp.CompressedBytes()), "copy_yodd", cyodd, "eqcopy", int(obj.Equal(cp)),
			"other_unc", enc(other), "other_cmp", hx(other.CompressedBytes()), "unc_again", enc(obj))
	}
	ops := []string{"replace", "replace", "identity", "generator", "set", "add", "radd", "sub", "dbl", "dbl_from", "neg", "neg_from", "cneg", "cneg_from", "csel", "csel2",
		"smul", "smul_from", "bmul", "dsm", "dsm_from", "setbytes", "setbytes_bad", "setbytes_bad", "setbytes_id", "msm1", "msmv"}
	useOps := []string{"add", "radd", "sub", "dbl", "smul", "neg"}
	afterDecode := false
	// systematic part: EVERY kind of receiver (what the object held before) x EVERY kind of operand x every operation that writes
	// the receiver from the operand — whatever a Point carries besides its coordinates must be written by each of them
	{
		matrixOps := []string{"set", "neg_from", "cneg_from", "cneg_from", "dbl_from", "csel", "csel2", "add", "radd", "sub", "setbytes", "smul_from", "dsm_from", "msmv"}
		n := 0
		for ri := range sources {
			for si := range sources {
				for oi, op := range matrixOps {
					n++
					if oi >= 11 && (ri+si+oi)%3 != 0 && !c.thorough() {
						continue
					}
					obj = sources[ri]()
					srcKind = srcKinds[ri]
					observe("reset", enc(obj), "", "", "", 0)
					src := sources[si]()
					srcKind = srcKinds[si]
					se := enc(src)
					sv, tv := randBig(r, bigN), randBig(r, bigN)
					cw := lifeCtrls[(n+oi)%len(lifeCtrls)]
					if op == "cneg_from" {
						cw = lifeCtrls[(oi%2)*(1+n%(len(lifeCtrls)-1))] // both branches
					}
					raw := ""
					switch op {
					case "set":
						obj.Set(src)
					case "neg_from":
						obj.Negate(src)
					case "cneg_from":
						obj.ConditionalNegate(src, cw)
					case "dbl_from":
						obj.Double(src)
					case "csel":
						obj.ConditionalSelect(obj, src, cw)
					case "csel2":
						obj.ConditionalSelect(src, obj, cw)
					case "add":
						obj.Add(obj, src)
					case "radd":
						obj.Add(src, obj)
					case "sub":
						obj.Subtract(obj, src)
					case "setbytes":
						b := src.CompressedBytes()
						if n%2 == 0 {
							b = src.UncompressedBytes()
						}
						raw = hx(b)
						_, _ = obj.SetBytes(b)
					case "smul_from":
						obj.ScalarMult(scFrom(sv), src)
					case "dsm_from":
						obj.DoubleScalarMultBasepointVartime(scFrom(sv), scFrom(tv), src)
					case "msmv":
						obj.MultiScalarMultVartime([]*secp256k1.Scalar{scFrom(sv), scFrom(tv)}, []*secp256k1.Point{obj, src})
					}
					observe(op, se, h32(sv), h32(tv), raw, b2i(cw != 0))
				}
			}
		}
	}
	// ... and a ZERO-VALUE Point (never initialised) as the receiver of every operation that writes its receiver without reading it:
	// afterwards it is an ordinary, usable object
	{
		zops := []string{"set", "neg_from", "cneg_from", "cneg_from", "dbl_from", "setbytes", "smul_from", "dsm_from", "bmul", "identity", "generator", "setbytes_id", "add_from", "sub_from", "csel_from", "msm_from"}
		for si := range sources {
			for oi, op := range zops {
				obj = new(secp256k1.Point)
				src := sources[si]()
				srcKind = srcKinds[si]
				se := enc(src)
				sv, tv := randBig(r, bigN), randBig(r, bigN)
				cw := lifeCtrls[(si+oi)%len(lifeCtrls)]
				if op == "cneg_from" {
					cw = lifeCtrls[(oi%2)*(1+si%(len(lifeCtrls)-1))]
				}
				raw := ""
				pn := catch(func() {
					switch op {
					case "set":
						obj.Set(src)
					case "neg_from":
						obj.Negate(src)
					case "cneg_from":
						obj.ConditionalNegate(src, cw)
					case "dbl_from":
						obj.Double(src)
					case "setbytes":
						b := src.CompressedBytes()
						if (si+oi)%2 == 0 {
							b = src.UncompressedBytes()
						}
						raw = hx(b)
						_, _ = obj.SetBytes(b)
					case "smul_from":
						obj.ScalarMult(scFrom(sv), src)
					case "dsm_from":
						obj.DoubleScalarMultBasepointVartime(scFrom(sv), scFrom(tv), src)
					case "bmul":
						obj.ScalarBaseMult(scFrom(sv))
					case "identity":
						obj.Identity()
					case "generator":
						obj.Generator()
					case "setbytes_id":
						raw = "00"
						_, _ = obj.SetBytes([]byte{0})
					case "add_from":
						obj.Add(src, src)
					case "sub_from":
						obj.Subtract(src, secp256k1.NewGeneratorPoint())
					case "csel_from":
						obj.ConditionalSelect(src, secp256k1.NewGeneratorPoint(), cw)
					case "msm_from":
						obj.MultiScalarMult([]*secp256k1.Scalar{scFrom(sv), scFrom(tv)}, []*secp256k1.Point{src, src})
					}
					observe(op, se, h32(sv), h32(tv), raw, b2i(cw != 0))
				})
				if pn {
					c.E("lib.Unexpected", "what", "a zero-value Point used as a RECEIVER ("+op+") is not a usable object afterwards")
				}
			}
		}
	}
	for round := 0; round < c.scale(10, 60); round++ {
		si0 := r.Intn(len(sources))
		obj = sources[si0]()
		srcKind = srcKinds[si0]
		observe("reset", enc(obj), "", "", "", 0)
		for step := 0; step < 40; step++ {
			op := ops[r.Intn(len(ops))]
			if afterDecode { // what a decode left in a recycled receiver is USED, not only encoded again
				op = useOps[r.Intn(len(useOps))]
			}
			afterDecode = op == "setbytes" || op == "setbytes_bad" || op == "setbytes_id"
			si1 := r.Intn(len(sources))
			src := sources[si1]()
			srcKind = srcKinds[si1]
			se := enc(src)
			sv, tv := randBig(r, bigN), randBig(r, bigN)
			if r.Intn(6) == 0 {
				sv = big.NewInt(int64(r.Intn(2)))
			}
			cw := lifeCtrls[r.Intn(len(lifeCtrls))]
			ctrl := b2i(cw != 0)
			raw := ""
			switch op {
			case "replace": // the long-lived object is now whatever a constructor handed out
				obj = src
			case "identity":
				obj.Identity()
			case "generator":
				obj.Generator()
			case "set":
				obj.Set(src)
			case "add":
				obj.Add(obj, src)
			case "radd":
				obj.Add(src, obj)
			case "sub":
				obj.Subtract(obj, src)
			case "dbl":
				obj.Double(obj)
			case "dbl_from":
				obj.Double(src)
			case "neg":
				obj.Negate(obj)
			case "neg_from":
				obj.Negate(src)
			case "cneg":
				obj.ConditionalNegate(obj, cw)
			case "cneg_from":
				obj.ConditionalNegate(src, cw)
			case "csel":
				obj.ConditionalSelect(obj, src, cw)
			case "csel2":
				obj.ConditionalSelect(src, obj, cw)
			case "smul":
				obj.ScalarMult(scFrom(sv), obj)
			case "smul_from":
				obj.ScalarMult(scFrom(sv), src)
			case "bmul":
				obj.ScalarBaseMult(scFrom(sv))
			case "dsm":
				obj.DoubleScalarMultBasepointVartime(scFrom(sv), scFrom(tv), obj)
			case "dsm_from":
				obj.DoubleScalarMultBasepointVartime(scFrom(sv), scFrom(tv), src)
			case "setbytes":
				b := src.CompressedBytes()
				if r.Intn(2) == 0 {
					b = src.UncompressedBytes()
				}
				raw = hx(b)
				_, _ = obj.SetBytes(b)
			case "setbytes_id": // the one-byte encoding of the identity, into a receiver that holds something else
				raw = "00"
				_, _ = obj.SetBytes([]byte{0})
			case "setbytes_bad": // a rejected encoding, of every kind: the object stays as it was
				b := src.UncompressedBytes()
				if len(b) != 65 {
					b = secp256k1.NewGeneratorPoint().UncompressedBytes()
				}
				kind := r.Intn(13)
				if kind > 8 {
					kind = 2 // the rejection that comes LAST in the decoder (everything parsed, no such point) is the common one
				}
				switch kind {
				case 0:
					b[64] ^= 1 // y off the curve
				case 1:
					b[32] ^= 1 // x changed, y kept
				case 2: // compressed, x in range but not the abscissa of a point
					b = src.CompressedBytes()
					if len(b) != 33 {
						b = secp256k1.NewGeneratorPoint().CompressedBytes()
					}
					for {
						b[1+r.Intn(32)] ^= byte(1 + r.Intn(255))
						x := new(big.Int).SetBytes(b[1:])
						yy := new(big.Int).Exp(x, big.NewInt(3), bigP)
						if x.Cmp(bigP) < 0 && new(big.Int).ModSqrt(yy.Add(yy, big.NewInt(7)).Mod(yy, bigP), bigP) == nil {
							break
						}
					}
				case 3: // compressed, x >= p
					b = append([]byte{2 + byte(r.Intn(2))}, be32(add(bigP, int64(r.Intn(3))))[:]...)
				case 4: // a valid body under a wrong prefix
					b[0] = []byte{0, 1, 2, 3, 5, 6, 7, 0xff}[r.Intn(8)]
				case 5: // compressed body, wrong prefix
					b = src.CompressedBytes()
					if len(b) != 33 {
						b = secp256k1.NewGeneratorPoint().CompressedBytes()
					}
					b[0] = []byte{0, 1, 4, 5, 6, 7, 0xff}[r.Intn(7)]
				case 6: // wrong length
					b = b[:[]int{0, 2, 32, 34, 64}[r.Intn(5)]]
				case 7: // uncompressed, y >= p
					copy(b[33:], be32(add(bigP, int64(r.Intn(3))))[:])
				case 8:
					b = []byte{byte(1 + r.Intn(255))} // one byte, not the identity's
				}
				raw = hx(b)
				switch r.Intn(3) {
				case 0:
					_, _ = obj.SetBytes(b)
				case 1:
					if len(b) == 33 {
						_, _ = obj.SetCompressedBytes(b)
					} else {
						_, _ = obj.SetBytes(b)
					}
				case 2:
					if len(b) == 65 {
						_, _ = obj.SetUncompressedBytes(b)
					} else {
						_, _ = obj.SetBytes(b)
					}
				}
			case "msm1":
				obj.MultiScalarMult([]*secp256k1.Scalar{scFrom(sv)}, []*secp256k1.Point{obj})
			case "msmv":
				obj.MultiScalarMultVartime([]*secp256k1.Scalar{scFrom(sv), scFrom(tv)}, []*secp256k1.Point{obj, src})
			}
			observe(op, se, h32(sv), h32(tv), raw, ctrl)
		}
	}
	c.sticky = false
}

func fieldFromBytes(b *[32]byte) (*field.Element, uint64) {
	x := field.NewElement()
	x.SetBytes(b)
	return x, 0
}
