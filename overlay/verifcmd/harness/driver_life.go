//go:build verif

package main

import (
	"math/big"
	"math/rand"

	secp256k1 "gitlab.com/yawning/secp256k1-voi"
	"gitlab.com/yawning/secp256k1-voi/internal/field"
)

// Object lifetimes (C01 / C02): ONE long-lived object is mutated again and again through every mutator of its type, with
// operands of every class, and EVERY observer is read after every mutation — on the object itself, on a fresh copy and on a
// second long-lived object that receives it through Set.  The trace specification carries the abstract value.  Anything an
// object remembers besides its value (a cached encoding, a "known canonical" flag, a stale limb) shows up as an observer that
// disagrees with the value.

func init() {
	register("sclife", "C02: one long-lived Scalar through every mutator, every observer read after each (exported API only)", func(c *ctx) {
		r := rand.New(rand.NewSource(c.seed))
		scalarLife(c, r, lifeVals(r, bigN))
	})
	register("ptlife", "C03: one long-lived Point as the receiver of every operation, every observer read after each (exported API only)", func(c *ctx) {
		pointLife(c, rand.New(rand.NewSource(c.seed)))
	})
	register("felife", "C01: one long-lived field element through every mutator, every observer read after each (exported API only)", func(c *ctx) {
		r := rand.New(rand.NewSource(c.seed))
		fieldLife(c, r, lifeVals(r, bigP))
	})
}

func lifeVals(r *rand.Rand, m *big.Int) []*big.Int {
	vals := append([]*big.Int{}, edgeGrid(m)...)
	for i := 0; i < 40; i++ {
		vals = append(vals, randBig(r, m))
	}
	return vals
}

var lifeCtrls = []uint64{0, 1, 2, 1 << 32, 1 << 63, 0xffffffffffffffff, 0xfffffffffffffffe}

func scalarLife(c *ctx, r *rand.Rand, vals []*big.Int) {
	c.nextTrace()
	obj := secp256k1.NewScalar()
	other := secp256k1.NewScalarFromUint64(77)
	observe := func(op, arg string, ctrl int) {
		cp := secp256k1.NewScalarFrom(obj)
		other.Set(obj)
		c.E("sc.Life", "op", op, "arg", arg, "ctrl", ctrl,
			"bytes", hx(obj.Bytes()), "ghalf", int(obj.IsGreaterThanHalfN()), "iszero", int(obj.IsZero()), "eqself", int(obj.Equal(obj)),
			"copy", hx(cp.Bytes()), "copy_ghalf", int(cp.IsGreaterThanHalfN()), "copy_iszero", int(cp.IsZero()), "eqcopy", int(obj.Equal(cp)),
			"other", hx(other.Bytes()), "other_ghalf", int(other.IsGreaterThanHalfN()), "bytes_again", hx(obj.Bytes()))
	}
	ops := []string{"zero", "one", "add", "sub", "rsub", "neg", "mul", "sq", "set", "setbytes", "setcanon", "cneg", "csel", "inv", "double", "sum", "prod", "setu64"}
	for round := 0; round < c.scale(6, 60); round++ {
		start := vals[r.Intn(len(vals))]
		obj = scFrom(new(big.Int).Mod(start, bigN)) // a new object now and then; mostly the same one lives on
		observe("reset", h32(new(big.Int).Mod(start, bigN)), 0)
		for step := 0; step < 40; step++ {
			op := ops[r.Intn(len(ops))]
			if step%7 == 3 {
				op = "zero" // the mutators that write limbs directly come up often
			}
			a := vals[r.Intn(len(vals))]
			am := new(big.Int).Mod(a, bigN)
			cw := lifeCtrls[r.Intn(len(lifeCtrls))]
			ctrl := b2i(cw != 0)
			arg := h32(am)
			switch op {
			case "zero":
				obj.Zero()
			case "one":
				obj.One()
			case "add":
				obj.Add(obj, scFrom(am))
			case "sub":
				obj.Subtract(obj, scFrom(am))
			case "rsub":
				obj.Subtract(scFrom(am), obj)
			case "neg":
				obj.Negate(obj)
			case "mul":
				obj.Multiply(obj, scFrom(am))
			case "sq":
				obj.Square(obj)
			case "set":
				obj.Set(scFrom(am))
			case "setbytes":
				raw := new(big.Int).Set(a)
				if r.Intn(3) == 0 {
					raw = new(big.Int).Add(bigN, randBig(r, new(big.Int).Sub(big2_256, bigN)))
				}
				arg = h32(raw)
				b := be32(raw)
				obj.SetBytes(b)
			case "setcanon":
				raw := new(big.Int).Set(a)
				if r.Intn(2) == 0 {
					raw = new(big.Int).Add(bigN, randBig(r, new(big.Int).Sub(big2_256, bigN)))
				}
				arg = h32(raw)
				b := be32(raw)
				_, _ = obj.SetCanonicalBytes(b)
			case "cneg":
				obj.ConditionalNegate(obj, cw)
			case "csel":
				obj.ConditionalSelect(obj, scFrom(am), cw)
			case "inv":
				obj.Invert(obj)
			case "double":
				obj.Add(obj, obj)
			case "sum":
				obj.Sum(obj, scFrom(am), obj)
			case "prod":
				obj.Product(obj, scFrom(am), obj)
			case "setu64": // the long-lived object is now whatever the constructor handed out (0 and 1 come up often): it is OURS to mutate
				u := r.Uint64() >> uint(r.Intn(40))
				if r.Intn(2) == 0 {
					u = uint64(r.Intn(3))
				}
				arg = h32(new(big.Int).SetUint64(u))
				obj = secp256k1.NewScalarFromUint64(u)
			}
			observe(op, arg, ctrl)
		}
	}
	c.sticky = false
}

func fieldLife(c *ctx, r *rand.Rand, vals []*big.Int) {
	c.nextTrace()
	obj := field.NewElement()
	other := field.NewElementFromUint64(77)
	observe := func(op, arg string, ctrl int, flag int) {
		cp := field.NewElementFrom(obj)
		other.Set(obj)
		c.E("fe.Life", "op", op, "arg", arg, "ctrl", ctrl, "flag", flag,
			"bytes", hx(obj.Bytes()), "isodd", int(obj.IsOdd()), "iszero", int(obj.IsZero()), "eqself", int(obj.Equal(obj)),
			"copy", hx(cp.Bytes()), "copy_isodd", int(cp.IsOdd()), "copy_iszero", int(cp.IsZero()), "eqcopy", int(obj.Equal(cp)),
			"other", hx(other.Bytes()), "other_isodd", int(other.IsOdd()), "bytes_again", hx(obj.Bytes()))
	}
	ops := []string{"zero", "one", "add", "sub", "rsub", "neg", "mul", "sq", "set", "setbytes", "setcanon", "cneg", "csel", "inv", "double", "sqrt", "pow2k", "wide", "setu64", "setu64"}
	for round := 0; round < c.scale(6, 60); round++ {
		start := new(big.Int).Mod(vals[r.Intn(len(vals))], bigP)
		obj = feFrom(start)
		observe("reset", h32(start), 0, -1)
		for step := 0; step < 40; step++ {
			op := ops[r.Intn(len(ops))]
			if step%7 == 3 {
				op = "zero"
			}
			a := vals[r.Intn(len(vals))]
			am := new(big.Int).Mod(a, bigP)
			cw := lifeCtrls[r.Intn(len(lifeCtrls))]
			ctrl := b2i(cw != 0)
			arg := h32(am)
			flag := -1
			switch op {
			case "zero":
				obj.Zero()
			case "one":
				obj.One()
			case "add":
				obj.Add(obj, feFrom(am))
			case "sub":
				obj.Subtract(obj, feFrom(am))
			case "rsub":
				obj.Subtract(feFrom(am), obj)
			case "neg":
				obj.Negate(obj)
			case "mul":
				obj.Multiply(obj, feFrom(am))
			case "sq":
				obj.Square(obj)
			case "set":
				obj.Set(feFrom(am))
			case "setbytes":
				raw := new(big.Int).Set(am)
				if r.Intn(3) == 0 {
					raw = new(big.Int).Add(bigP, randBig(r, new(big.Int).Sub(big2_256, bigP)))
				}
				arg = h32(raw)
				b := be32(raw)
				obj.SetBytes(b)
			case "setcanon":
				raw := new(big.Int).Set(am)
				if r.Intn(2) == 0 {
					raw = new(big.Int).Add(bigP, randBig(r, new(big.Int).Sub(big2_256, bigP)))
				}
				arg = h32(raw)
				b := be32(raw)
				_, _ = obj.SetCanonicalBytes(b)
			case "cneg":
				obj.ConditionalNegate(obj, cw)
			case "csel":
				obj.ConditionalSelect(obj, feFrom(am), cw)
			case "inv":
				obj.Invert(obj)
			case "double":
				obj.Add(obj, obj)
			case "sqrt": // the receiver is the long-lived object, the argument another element: root or zero
				_, f := obj.Sqrt(feFrom(am))
				flag = int(f)
			case "pow2k":
				k := 1 + r.Intn(5)
				ctrl = k
				obj.Pow2k(obj, uint(k))
			case "setu64": // the object handed out by the constructor (0 and 1 often) is the caller's to mutate from here on
				u := r.Uint64() >> uint(r.Intn(40))
				if r.Intn(2) == 0 {
					u = uint64(r.Intn(3))
				}
				arg = h32(new(big.Int).SetUint64(u))
				obj = field.NewElementFromUint64(u)
			case "wide":
				l := 33 + r.Intn(32)
				w := randBytes(r, l)
				arg = hx(w)
				obj.SetWideBytes(w)
			}
			observe(op, arg, ctrl, flag)
		}
	}
	c.sticky = false
}

// pointLife (C03 / C05 / C06): ONE long-lived Point is the receiver of every kind of operation, with operands from every
// constructor (decoded, generator, from coordinates, computed with Z != 1, identities of both origins), and after each one every
// observer is read — both encodings, XBytes, IsYOdd, IsIdentity, Equal — on the object, on a fresh copy and on a second
// long-lived object set from it.  Whatever a Point remembers besides its coordinates (a "Z is one" hint, a cached parity or
// encoding) has to survive being a recycled receiver.
func pointLife(c *ctx, r *rand.Rand) {
	c.nextTrace()
	rk := func() *big.Int { return add(randBig(r, add(bigN, -1)), 1) }
	// (kinds: what the constructor is DOCUMENTED to hand out, for the ones where that is a fixed point)
	srcKinds := []string{"generator", "", "", "", "", "", "", "identity", "identity", "generator", "identity", "neg_generator"}
	sources := []func() *secp256k1.Point{
		func() *secp256k1.Point { return secp256k1.NewGeneratorPoint() },
		func() *secp256k1.Point { // decoded, compressed
			p, err := secp256k1.NewPointFromBytes(mulG(rk()).CompressedBytes())
			if err != nil {
				panic(err)
			}
			return p
		},
		func() *secp256k1.Point { // decoded, uncompressed, through SetBytes on a recycled object
			p := secp256k1.NewGeneratorPoint()
			if _, err := p.SetBytes(mulG(rk()).UncompressedBytes()); err != nil {
				panic(err)
			}
			return p
		},
		func() *secp256k1.Point { // from coordinates
			b := mulG(rk()).UncompressedBytes()
			p, err := secp256k1.NewPointFromCoords((*[32]byte)(b[1:33]), (*[32]byte)(b[33:65]))
			if err != nil {
				panic(err)
			}
			return p
		},
		func() *secp256k1.Point { return secp256k1.NewIdentityPoint().Add(mulG(rk()), mulG(rk())) },          // computed: Z != 1
		func() *secp256k1.Point { return secp256k1.NewIdentityPoint().Double(mulG(rk())) },                   // computed: Z != 1
		func() *secp256k1.Point { return secp256k1.NewIdentityPoint().ScalarMult(scFrom(rk()), mulG(rk())) }, // a multiply result
		func() *secp256k1.Point { return secp256k1.NewIdentityPoint() },
		func() *secp256k1.Point { p := mulG(rk()); return secp256k1.NewIdentityPoint().Subtract(p, p) }, // a computed identity
		func() *secp256k1.Point { return secp256k1.NewPointFrom(secp256k1.NewGeneratorPoint()) },
		func() *secp256k1.Point { // the identity, decoded: a fresh object each time, the caller's to mutate
			p, err := secp256k1.NewPointFromBytes([]byte{0})
			if err != nil {
				panic(err)
			}
			return p
		},
		func() *secp256k1.Point { return secp256k1.NewIdentityPoint().Negate(secp256k1.NewGeneratorPoint()) }, // -G
	}
	enc := func(p *secp256k1.Point) string { return hx(p.UncompressedBytes()) }
	obj := secp256k1.NewGeneratorPoint()
	other := secp256k1.NewIdentityPoint()
	srcKind := ""
	observe := func(op, src, s, t, raw string, ctrl int) {
		cp := secp256k1.NewPointFrom(obj)
		other.Set(obj)
		yoddAny := int(obj.IsYOdd()) // asked of EVERY value, the identity included (its answer is unconstrained; the object must stay as it is)
		xb, yodd := "err", -1
		if b, err := obj.XBytes(); err == nil {
			xb = hx(b)
			yodd = yoddAny
		}
		cyodd := -1
		if cp.IsIdentity() == 0 {
			cyodd = int(cp.IsYOdd())
		}
		c.E("pt.Life", "op", op, "src", src, "src_kind", srcKind, "s", s, "t", t, "bytes", raw, "ctrl", ctrl,
			"unc", enc(obj), "cmp", hx(obj.CompressedBytes()), "xb", xb, "yodd", yodd, "isid", int(obj.IsIdentity()), "eqself", int(obj.Equal(obj)),
			"copy_unc", enc(cp), "copy_cmp", hx(cp.CompressedBytes()), "copy_yodd", cyodd, "eqcopy", int(obj.Equal(cp)),
			"other_unc", enc(other), "other_cmp", hx(other.CompressedBytes()), "unc_again", enc(obj))
	}
	ops := []string{"replace", "replace", "identity", "generator", "set", "add", "radd", "sub", "dbl", "dbl_from", "neg", "neg_from", "cneg", "cneg_from", "csel", "csel2",
		"smul", "smul_from", "bmul", "dsm", "dsm_from", "setbytes", "setbytes_bad", "msm1", "msmv"}
	for round := 0; round < c.scale(6, 60); round++ {
		si0 := r.Intn(len(sources))
		obj = sources[si0]()
		srcKind = srcKinds[si0]
		observe("reset", enc(obj), "", "", "", 0)
		for step := 0; step < 40; step++ {
			op := ops[r.Intn(len(ops))]
			si1 := r.Intn(len(sources))
			src := sources[si1]()
			srcKind = srcKinds[si1]
			se := enc(src)
			sv, tv := randBig(r, bigN), randBig(r, bigN)
			if r.Intn(6) == 0 {
				sv = big.NewInt(int64(r.Intn(2)))
			}
			cw := lifeCtrls[r.Intn(len(lifeCtrls))]
			ctrl := b2i(cw != 0)
			raw := ""
			switch op {
			case "replace": // the long-lived object is now whatever a constructor handed out
				obj = src
			case "identity":
				obj.Identity()
			case "generator":
				obj.Generator()
			case "set":
				obj.Set(src)
			case "add":
				obj.Add(obj, src)
			case "radd":
				obj.Add(src, obj)
			case "sub":
				obj.Subtract(obj, src)
			case "dbl":
				obj.Double(obj)
			case "dbl_from":
				obj.Double(src)
			case "neg":
				obj.Negate(obj)
			case "neg_from":
				obj.Negate(src)
			case "cneg":
				obj.ConditionalNegate(obj, cw)
			case "cneg_from":
				obj.ConditionalNegate(src, cw)
			case "csel":
				obj.ConditionalSelect(obj, src, cw)
			case "csel2":
				obj.ConditionalSelect(src, obj, cw)
			case "smul":
				obj.ScalarMult(scFrom(sv), obj)
			case "smul_from":
				obj.ScalarMult(scFrom(sv), src)
			case "bmul":
				obj.ScalarBaseMult(scFrom(sv))
			case "dsm":
				obj.DoubleScalarMultBasepointVartime(scFrom(sv), scFrom(tv), obj)
			case "dsm_from":
				obj.DoubleScalarMultBasepointVartime(scFrom(sv), scFrom(tv), src)
			case "setbytes":
				b := src.CompressedBytes()
				if r.Intn(2) == 0 {
					b = src.UncompressedBytes()
				}
				raw = hx(b)
				_, _ = obj.SetBytes(b)
			case "setbytes_bad": // a rejected encoding: the object stays as it was
				b := src.UncompressedBytes()
				if len(b) == 65 {
					b[64] ^= 1
				} else {
					b = []byte{0, 0}
				}
				raw = hx(b)
				_, _ = obj.SetBytes(b)
			case "msm1":
				obj.MultiScalarMult([]*secp256k1.Scalar{scFrom(sv)}, []*secp256k1.Point{obj})
			case "msmv":
				obj.MultiScalarMultVartime([]*secp256k1.Scalar{scFrom(sv), scFrom(tv)}, []*secp256k1.Point{obj, src})
			}
			observe(op, se, h32(sv), h32(tv), raw, ctrl)
		}
	}
	c.sticky = false
}
