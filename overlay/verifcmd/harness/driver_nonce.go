//go:build verif

package main

import (
	"bufio"
	"bytes"
	csrand "crypto/rand"
	"errors"
	"io"
	"math/big"
	"math/rand"
	"os"
	"path/filepath"
	"strings"

	secp256k1 "gitlab.com/yawning/secp256k1-voi"
	"gitlab.com/yawning/secp256k1-voi/secec"
)

func init() {
	register("nonce", "C09: entropy-reader protocol, nonce determinism/uniqueness, rejection sampler, RFC 6979 generator", driveNonce)
}

// scriptedReader plays a script of (chunk size, error-with-chunk) steps over a fixed entropy string and
// records every Read call as (asked, returned, err != nil).
type scriptStep struct {
	n   int  // bytes to deliver in this call (capped by the request)
	err bool // return an error together with (or instead of) the bytes
	eof int  // which error: 0 a custom error, 1 io.EOF, 2 io.ErrUnexpectedEOF
}

type scriptedReader struct {
	data  []byte
	steps []scriptStep
	pos   int
	log   [][3]int
}

var errScripted = errors.New("scripted reader failure")

func (s *scriptedReader) Read(p []byte) (int, error) {
	st := scriptStep{n: len(p)}
	if s.pos < len(s.steps) {
		st = s.steps[s.pos]
	}
	s.pos++
	n := st.n
	if n > len(p) {
		n = len(p)
	}
	if n > len(s.data) {
		n = len(s.data)
	}
	copy(p, s.data[:n])
	s.data = s.data[n:]
	e := 0
	var err error
	if st.err {
		e, err = 1, errScripted
		switch st.eof {
		case 1:
			err = io.EOF
		case 2:
			err = io.ErrUnexpectedEOF
		}
	}
	s.log = append(s.log, [3]int{len(p), n, e})
	return n, err
}

// scribbleReader overwrites `target` with `with` around a Read of the wrapped reader.
type scribbleReader struct {
	inner  io.Reader
	target []byte
	with   []byte
	before bool
}

func (s *scribbleReader) Read(p []byte) (int, error) {
	if s.before {
		copy(s.target, s.with)
	}
	n, err := s.inner.Read(p)
	copy(s.target, s.with)
	return n, err
}

func readsToJSON(l [][3]int) string {
	var sb strings.Builder
	sb.WriteByte('[')
	for i, r := range l {
		if i > 0 {
			sb.WriteByte(',')
		}
		sb.WriteString("[")
		sb.WriteString(itoa(r[0]))
		sb.WriteString(",")
		sb.WriteString(itoa(r[1]))
		if r[2] != 0 {
			sb.WriteString(",true]")
		} else {
			sb.WriteString(",false]")
		}
	}
	sb.WriteByte(']')
	return sb.String()
}

func itoa(i int) string { return big.NewInt(int64(i)).String() }

// rawJSON is emitted verbatim by ctx.E.
type rawJSON string

func driveNonce(c *ctx) {
	rng := rand.New(rand.NewSource(c.seed))
	// one logical trace: the uniqueness / determinism obligations are global
	c.nextTrace()

	signWith := func(d *big.Int, digest, entropy []byte, steps []scriptStep) {
		rd := &scriptedReader{data: append(append([]byte{}, entropy...), bytes.Repeat([]byte{0xEE}, 64)...), steps: steps}
		priv := privFrom(d)
		r, s, v, err := priv.SignRaw(rd, digest)
		delivered := 0
		for _, x := range rd.log {
			delivered += x[1]
		}
		ent := ""
		if delivered >= 32 {
			ent = hx(entropy[:32])
		}
		c.E("sig.Raw", "d", h32(d), "digest", hx(digest), "rng", "reader", "reads", rawJSON(readsToJSON(rd.log)), "entropy", ent,
			"ok", err == nil, "r", scHexOr(r), "s", scHexOr(s), "v", int(v))
	}
	whole := []scriptStep{{n: 32, err: false}}
	byteAtATime := make([]scriptStep, 32)
	for i := range byteAtATime {
		byteAtATime[i] = scriptStep{n: 1, err: false}
	}
	chunkings := [][]scriptStep{
		whole, byteAtATime,
		{{n: 7, err: false}, {n: 8, err: false}, {n: 15, err: false}, {n: 2, err: false}},
		{{n: 16, err: false}, {n: 16, err: false}},
		{{n: 31, err: false}, {n: 1, err: false}},
		{{n: 0, err: false}, {n: 0, err: false}, {n: 32, err: false}},
		{{n: 31, err: false}, {n: 1, err: true}},    // error delivered together with the last chunk: still a full read
		{{n: 32, err: true}},                        // all bytes plus an error
		{{n: 10, err: false}, {n: 100, err: false}}, // reader offering more than asked
	}
	keys := []*big.Int{big.NewInt(1), add(bigN, -1)}
	for i := 0; i < c.scale(4, 30); i++ {
		keys = append(keys, add(randBig(rng, add(bigN, -1)), 1))
	}
	digests := [][]byte{make([]byte, 32), bytes.Repeat([]byte{0xff}, 32), randBytes(rng, 32), randBytes(rng, 32)}
	entropies := [][]byte{make([]byte, 32), bytes.Repeat([]byte{0xff}, 32)}
	ctr := make([]byte, 32)
	for i := range ctr {
		ctr[i] = byte(i)
	}
	entropies = append(entropies, ctr, randBytes(rng, 32))

	// constant / counter / random entropy x keys x digests: r never repeats across different (d, e, entropy)
	for _, d := range keys {
		for _, dg := range digests {
			for ei, ent := range entropies {
				signWith(d, dg, ent, chunkings[(ei+len(dg))%2])
			}
		}
	}
	// same triple under every chunking: identical signature
	for ci, ch := range chunkings {
		signWith(keys[2], digests[2], entropies[3], ch)
		signWith(keys[ci%len(keys)], digests[ci%len(digests)], entropies[ci%len(entropies)], ch)
	}
	// changing any single byte of the 32 bytes of entropy changes the nonce
	base := entropies[3]
	for i := 0; i < 32; i++ {
		e2 := append([]byte{}, base...)
		e2[i] ^= 1 << uint(rng.Intn(8))
		signWith(keys[2], digests[2], e2, whole)
	}
	// RELATED (key, entropy) pairs (round 10): the three inputs enter the nonce as a tuple, not through one another - pairs with the same
	// d xor entropy, the same d + entropy, d - entropy (mod 2^256), entropy = d, entropy = digest, and key / entropy swapped must not share
	// r on one digest (a derivation that masks the key with the entropy makes the first family collide)
	{
		d1 := keys[2]
		e1 := new(big.Int).SetBytes(entropies[3])
		mask := pow2(256)
		for t := 0; t < 4; t++ {
			d2 := add(randBig(rng, add(bigN, -1)), 1)
			if t == 0 {
				d2 = add(d1, 1)
			}
			xorE := new(big.Int).Xor(new(big.Int).Xor(d1, e1), d2)                            // d1 ^ e1 == d2 ^ xorE
			addE := new(big.Int).Mod(new(big.Int).Sub(new(big.Int).Add(d1, e1), d2), mask)   // d1 + e1 == d2 + addE
			subE := new(big.Int).Mod(new(big.Int).Sub(d2, new(big.Int).Sub(d1, e1)), mask)   // d1 - e1 == d2 - subE
			for _, dg := range digests[2:4] {
				signWith(d1, dg, be32(e1)[:], whole)
				for _, e2 := range []*big.Int{xorE, addE, subE} {
					signWith(d2, dg, be32(e2)[:], whole)
				}
				signWith(d2, dg, be32(d2)[:], whole) // entropy equal to the key
				signWith(d2, dg, dg[:32], whole)     // entropy equal to the digest
				if e1.Sign() > 0 && e1.Cmp(bigN) < 0 {
					signWith(e1, dg, be32(d1)[:], whole) // key and entropy swapped
				}
			}
		}
	}
	// bytes after the first 32 never matter; digest bytes after the first 32 never matter
	signWith(keys[2], append(append([]byte{}, digests[2]...), 1, 2, 3), entropies[3], whole)
	// failing readers: error after j bytes for every j in 0..31 (no signature), in one or several chunks
	for j := 0; j <= 31; j++ {
		signWith(keys[j%len(keys)], digests[j%len(digests)], entropies[3], []scriptStep{{j, true, 0}})
		// end-of-stream style failures: bytes then io.EOF in the same call, bytes then a separate (0, io.EOF), io.ErrUnexpectedEOF
		signWith(keys[j%len(keys)], digests[j%len(digests)], entropies[3], []scriptStep{{j, true, 1}})
		signWith(keys[j%len(keys)], digests[j%len(digests)], entropies[3], []scriptStep{{j, false, 0}, {0, true, 1}})
		signWith(keys[j%len(keys)], digests[j%len(digests)], entropies[3], []scriptStep{{j, true, 2}})
		if j > 1 {
			signWith(keys[j%len(keys)], digests[j%len(digests)], entropies[3], []scriptStep{{n: j / 2}, {n: j - j/2}, {n: 0, err: true}})
		}
	}
	signWith(keys[0], digests[0][:31], entropies[3], whole) // inadmissible digest: entropy must not even be read

	// the key was imported from a buffer the caller has since wiped / reused: the nonce must still be the function of the KEY
	for i, d := range keys {
		buf := append([]byte{}, be32(d)[:]...)
		priv, err := secec.NewPrivateKey(buf)
		if err != nil {
			panic(err)
		}
		for j := range buf {
			buf[j] = byte(i) // scrubbed (all keys imported through "the same scratch buffer" end up with the same bytes in it)
		}
		for _, dg := range digests[:2] {
			rd := &scriptedReader{data: append(append([]byte{}, entropies[2]...), bytes.Repeat([]byte{0xEE}, 64)...), steps: whole}
			r, s, v, err := priv.SignRaw(rd, dg)
			c.E("sig.Raw", "d", h32(d), "digest", hx(dg), "rng", "reader", "reads", rawJSON(readsToJSON(rd.log)), "entropy", hx(entropies[2]),
				"ok", err == nil, "r", scHexOr(r), "s", scHexOr(s), "v", int(v), "wiped_import", true)
			r, s, v, err = priv.SignRaw(secec.RFC6979SHA256(), dg)
			c.E("sig.Raw", "d", h32(d), "digest", hx(dg), "rng", "rfc6979", "ok", err == nil, "r", scHexOr(r), "s", scHexOr(s), "v", int(v))
		}
	}
	// rand == nil: the library falls back to the process-wide crypto/rand.Reader.  Swap it for a scripted constant stream: the
	// nonce must STILL be hedged with the key and the digest (a broken system RNG never makes two messages or keys share r)
	{
		saved := csrand.Reader
		for _, d := range keys[:4] {
			for _, dg := range digests {
				rd := &scriptedReader{data: append(append([]byte{}, entropies[1]...), bytes.Repeat([]byte{0xEE}, 512)...), steps: whole}
				csrand.Reader = rd
				r, s, v, err := privFrom(d).SignRaw(nil, dg)
				csrand.Reader = saved
				delivered := 0
				for _, x := range rd.log {
					delivered += x[1]
				}
				// the default reader may be asked in any chunking: only the first 32 bytes may matter
				c.E("sig.Raw", "d", h32(d), "digest", hx(dg), "rng", "reader", "reads", rawJSON(readsToJSON(rd.log)), "entropy", hx(entropies[1]),
					"ok", err == nil, "r", scHexOr(r), "s", scHexOr(s), "v", int(v), "nil_rand", true)
			}
		}
		csrand.Reader = saved
	}
	// an ADVERSARIAL reader: its Read overwrites the caller's digest buffer (the reader is caller-supplied code and may hold a
	// reference to it) before / after delivering the entropy.  Whichever of the two digests the library signs, the nonce belongs to
	// THAT (key, digest, entropy) triple: ordinary signatures over either digest with the same entropy must not share r with another
	// triple, and must repeat the same triple's signature exactly.
	for i, d := range keys[:5] {
		for variant := 0; variant < 3; variant++ {
			A, B := randBytes(rng, 32), randBytes(rng, 32)
			ent := entropies[(i+variant)%len(entropies)]
			buf := append([]byte{}, A...)
			inner := &scriptedReader{data: append(append([]byte{}, ent...), bytes.Repeat([]byte{0xEE}, 64)...), steps: chunkings[variant]}
			rd := &scribbleReader{inner: inner, target: buf, with: B, before: variant == 1}
			r, s, v, err := privFrom(d).SignRaw(rd, buf)
			c.E("sig.Raw", "d", h32(d), "digest", hx(A), "digest_alt", hx(B), "rng", "reader", "reads", rawJSON(readsToJSON(inner.log)), "entropy", hx(ent),
				"ok", err == nil, "r", scHexOr(r), "s", scHexOr(s), "v", int(v))
			signWith(d, A, ent, whole)
			signWith(d, B, ent, whole)
		}
	}
	// the nonce has a SECRET input: key objects that share one public-key object but hold different private scalars (built through
	// the verif accessor; not reachable through the public API) must not share r under constant entropy.  A derivation that takes
	// its key material from the public half only makes them collide.  If the library refuses such an object, nothing is logged.
	{
		pub := privFrom(keys[0]).PublicKey()
		for _, d := range keys[2:6] {
			for ei, ent := range entropies[:2] {
				var (
					r, s *secp256k1.Scalar
					v    byte
					err  error
				)
				rd := &scriptedReader{data: append(append([]byte{}, ent...), bytes.Repeat([]byte{0xEE}, 64)...), steps: whole}
				if !deep {
					continue
				}
				if pn := catch(func() { r, s, v, err = deepSplitKey(scFrom(d), pub).SignRaw(rd, digests[ei]) }); pn || err != nil {
					continue
				}
				c.E("sig.Raw", "d", h32(d), "digest", hx(digests[ei]), "rng", "reader", "reads", rawJSON(readsToJSON(rd.log)), "entropy", hx(ent),
					"ok", true, "r", scHexOr(r), "s", scHexOr(s), "v", int(v), "split_key", true)
			}
		}
	}
	c.sticky = false

	// ---- rejection sampler on scripted candidate streams (deep)
	zero := make([]byte, 32)
	ge := [][]byte{be32(bigN)[:], be32(add(bigN, 1))[:], be32(add(big2_256, -1))[:],
		be32(new(big.Int).Sub(big2_256, pow2(64)))[:], be32(new(big.Int).Sub(big2_256, pow2(128)))[:], be32(new(big.Int).Add(bigN, pow2(100)))[:]}
	for i := 0; i < 6; i++ { // anywhere in [n, 2^256): most of these have lower limbs BELOW n's
		ge = append(ge, be32(new(big.Int).Add(bigN, randBig(rng, new(big.Int).Sub(big2_256, bigN))))[:])
	}
	valid := [][]byte{be32(big.NewInt(1))[:], be32(add(bigN, -1))[:], be32(randBig(rng, bigN))[:], be32(randBig(rng, bigN))[:]}
	pick := func(cls int) []byte {
		switch cls {
		case 0:
			return zero
		case 1:
			return ge[rng.Intn(len(ge))]
		default:
			return valid[rng.Intn(len(valid))]
		}
	}
	sample := func(stream [][]byte, tailBytes int) {
		if !deep {
			return
		}
		var buf []byte
		hs := make([]string, 0, len(stream))
		for _, s := range stream {
			buf = append(buf, s...)
			hs = append(hs, hx(s))
		}
		buf = append(buf, randBytes(rng, tailBytes)...) // a partial trailing candidate (must be an entropy failure if reached)
		rd := bytes.NewReader(buf)
		s, err := deepSampleRandomScalar(rd)
		kind := ""
		if err != nil {
			if strings.Contains(err.Error(), "rejection") {
				kind = "rejection"
			} else {
				kind = "entropy"
			}
		}
		c.E("nonce.Sample", "stream", hs, "ok", err == nil, "out", scHexOr(s), "consumed", len(buf)-rd.Len()-0, "errkind", kind, "tail", tailBytes)
	}
	// all class sequences of length <= 3, then sampled longer ones up to the limit
	for n := 0; n <= 3; n++ {
		tot := 1
		for i := 0; i < n; i++ {
			tot *= 3
		}
		for code := 0; code < tot; code++ {
			var st [][]byte
			x := code
			for i := 0; i < n; i++ {
				st = append(st, pick(x%3))
				x /= 3
			}
			sample(st, 0)
		}
	}
	for i := 0; i < c.scale(60, 1500); i++ {
		n := 4 + rng.Intn(7) // up to 10 candidates available: the sampler must stop at 8
		var st [][]byte
		for k := 0; k < n; k++ {
			cls := rng.Intn(2)
			if k >= 3+rng.Intn(6) {
				cls = 2
			}
			st = append(st, pick(cls))
		}
		sample(st, (i%3)*7)
	}
	for n := 7; n <= 9; n++ { // exactly around the retry limit
		var st [][]byte
		for k := 0; k < n; k++ {
			st = append(st, pick(k%2))
		}
		sample(append(st, valid[0]), 0)
		sample(st, 0)
	}

	// ---- RFC 6979 generator (deep): successive reads equal the RFC's candidate sequence
	drbg := func(x, e *big.Int, reads int, vector bool) {
		if !deep {
			return
		}
		// three ways a caller may treat its buffers between reads: one buffer reused untouched; one buffer wiped after every read;
		// a fresh buffer per read, all of them kept and looked at only at the end.  A generator is not allowed to care.
		for variant := 0; variant < 3; variant++ {
			rd := deepNewDrbgRFC6979(scFrom(x), scFrom(e))
			outs := make([]string, reads)
			var one [32]byte
			kept := make([][]byte, reads)
			for i := range outs {
				b := one[:]
				if variant == 2 {
					b = make([]byte, 32)
				}
				if _, err := io.ReadFull(rd, b); err != nil {
					panic(err)
				}
				outs[i] = hx(b)
				kept[i] = b
				if variant == 1 {
					for j := range b {
						b[j] = 0
					}
				}
			}
			if variant == 2 {
				for i := range kept {
					outs[i] = hx(kept[i])
				}
			}
			c.E("drbg.Read", "x", h32(x), "e", h32(e), "outs", outs, "vector", vector)
		}
	}
	for i := 0; i < c.scale(30, 600); i++ {
		x := add(randBig(rng, add(bigN, -1)), 1)
		e := randBig(rng, bigN)
		switch i % 5 {
		case 0:
			e = big.NewInt(0)
		case 1:
			x = big.NewInt(1)
		case 2:
			x = add(bigN, -1)
			e = add(bigN, -1)
		}
		drbg(x, e, 1+i%6, false)
	}
	// one LONG run of one generator instance (round 10): a read counter narrower than int wraps after 2^8 reads
	drbg(add(randBig(rng, add(bigN, -1)), 1), randBig(rng, bigN), c.scale(520, 1100), false)
	// the repository's RFC 6979 vector file re-driven: (key 1, message) pairs
	if f, err := os.Open(filepath.Join(c.repo, "secec", "testdata", "secp256k1_rfc6979_sha256.csv")); err == nil {
		sc := bufio.NewScanner(f)
		for sc.Scan() {
			line := sc.Text()
			if strings.HasPrefix(line, "#") {
				continue
			}
			parts := strings.SplitN(line, ",", 3)
			if len(parts) != 3 {
				continue
			}
			x, ok := new(big.Int).SetString(parts[0], 16)
			if !ok || x.Sign() == 0 || x.Cmp(bigN) >= 0 {
				x = big.NewInt(1)
			}
			h := sha256Sum([]byte(parts[1]))
			if deep {
				e, _ := deepHashToScalar(h)
				drbg(x, new(big.Int).SetBytes(e.Bytes()), 3, true)
			}
			priv := privFrom(x)
			r, s, v, err := priv.SignRaw(secec.RFC6979SHA256(), h)
			c.E("sig.Raw", "d", h32(x), "digest", hx(h), "rng", "rfc6979", "ok", err == nil, "r", scHexOr(r), "s", scHexOr(s), "v", int(v))
		}
		_ = f.Close()
	}
	// RFC 6979 nonces of a chosen SHAPE: digests are searched (with an untrusted re-implementation of the generator) until the first
	// candidate has a zero top byte, two zero top bytes, an all-ones top byte, a zero low byte — a nonce is the first candidate in
	// [1, n) whatever it looks like (no "suitability" screening, no reduction)
	{
		shapes := []struct {
			name string
			ok   func(k []byte) bool
		}{
			{"top_zero", func(k []byte) bool { return k[0] == 0 }},
			{"top_ff", func(k []byte) bool { return k[0] == 0xff }},
			{"low_zero", func(k []byte) bool { return k[31] == 0 }},
			{"top_bit_clear_next_ff", func(k []byte) bool { return k[0] == 0x7f }},
			{"top_two_zero", func(k []byte) bool { return k[0] == 0 && k[1] == 0 }},
		}
		for ki := 0; ki < c.scale(2, 6); ki++ {
			d := add(randBig(rng, add(bigN, -1)), 1)
			priv := privFrom(d)
			for si, sh := range shapes {
				if si == 4 && ki > 0 && !c.thorough() {
					continue
				}
				for ctr := 0; ctr < 400000; ctr++ {
					dg := sha256Sum(append(be32(d)[:], byte(ctr), byte(ctr>>8), byte(ctr>>16), byte(si)))
					e := new(big.Int).Mod(new(big.Int).SetBytes(dg), bigN)
					if k := rfc6979First(d, e); sh.ok(be32(k)[:]) {
						r, s, v, err := priv.SignRaw(secec.RFC6979SHA256(), dg)
						c.E("sig.Raw", "d", h32(d), "digest", hx(dg), "rng", "rfc6979", "ok", err == nil, "r", scHexOr(r), "s", scHexOr(s), "v", int(v), "shape", sh.name)
						break
					}
				}
			}
		}
	}
	// public RFC 6979 signatures: byte-for-byte the deterministic signature
	for i := 0; i < c.scale(60, 2000); i++ {
		d := add(randBig(rng, add(bigN, -1)), 1)
		dg := randBytes(rng, 32)
		if i%7 == 0 {
			dg = be32(add(bigN, int64(i)))[:]
		}
		r, s, v, err := privFrom(d).SignRaw(secec.RFC6979SHA256(), dg)
		c.E("sig.Raw", "d", h32(d), "digest", hx(dg), "rng", "rfc6979", "ok", err == nil, "r", scHexOr(r), "s", scHexOr(s), "v", int(v))
	}
}
