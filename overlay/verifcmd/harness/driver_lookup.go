//go:build verif && !verifpub

package main

import (
	"encoding/binary"
	"fmt"
	"math/rand"
	"runtime"
	"runtime/debug"
	"syscall"
	"unsafe"

	secp256k1 "gitlab.com/yawning/secp256k1-voi"
)

func init() {
	register("lookup", "C19/C17: table lookups vs the portable reference on limb patterns; which table entries a lookup touches (page-fault oracle)", driveLookup)
}

func init() {
	register("layout", "prints the memory layout of the table entry types (used to parameterise the assembly model)", func(c *ctx) {
		fmt.Printf("LAYOUT point=%d affine=%d\n", secp256k1.VerifPointSize(), secp256k1.VerifAffineSize())
	})
}

func buildName() string {
	if isPurego {
		return "purego"
	}
	return "asm"
}

func driveLookup(c *ctx) {
	rng := rand.New(rand.NewSource(c.seed))
	debug.SetPanicOnFault(true) // a trap inside a lookup (unreadable page, misaligned vector load) becomes a logged fault
	trap := func(f func()) (faulted bool) {
		defer func() {
			if r := recover(); r != nil {
				faulted = true
			}
		}()
		f()
		return false
	}
	ps, as := int(secp256k1.VerifPointSize()), int(secp256k1.VerifAffineSize())
	c.E("lk.Layout", "build", buildName(), "point", ps, "affine", as, "refcopy", secp256k1.VerifHaveRefCopy)

	// ---- differential: every index x table contents (random limbs, all-ones / single-bit limb in every slot and limb position)
	fillRandom := func(img []byte) {
		rng.Read(img)
	}
	type pattern struct {
		name       string
		slot, limb int
	}
	var pats []pattern
	pats = append(pats, pattern{"random", -1, -1}, pattern{"random", -1, -1}, pattern{"zeros", -1, -1}, pattern{"ones", -1, -1})
	for slot := 0; slot < 15; slot++ {
		for limb := 0; limb < 12; limb++ {
			pats = append(pats, pattern{"limb_ones", slot, limb}, pattern{"limb_bit", slot, limb})
		}
	}
	doProj := func(p pattern) {
		tbl := new(secp256k1.VerifProjTable)
		img := secp256k1.VerifProjTableImage(tbl)
		switch p.name {
		case "random":
			fillRandom(img)
		case "ones":
			for i := range img {
				img[i] = 0xff
			}
		case "limb_ones":
			for b := 0; b < 8; b++ {
				img[p.slot*ps+p.limb*8+b] = 0xff
			}
		case "limb_bit":
			binary.LittleEndian.PutUint64(img[p.slot*ps+p.limb*8:], 1<<uint(rng.Intn(64)))
		}
		entries := make([]string, 15)
		for i := 0; i < 15; i++ {
			entries[i] = hx(img[i*ps : i*ps+96])
		}
		for idx := uint64(0); idx < 16; idx++ {
			out, ref := new(secp256k1.Point), new(secp256k1.Point)
			pre := make([]byte, ps)
			rng.Read(pre)
			pre[96] = byte(idx & 1) // the validity flag byte: a legal bool
			secp256k1.VerifSetPointImage(out, pre)
			secp256k1.VerifSetPointImage(ref, pre)
			f := trap(func() { secp256k1.VerifLookupProjective(tbl, out, idx) })
			secp256k1.VerifRefLookupProjective(tbl, ref, idx)
			oi, ri := secp256k1.VerifPointImage(out), secp256k1.VerifPointImage(ref)
			c.E("lk.Proj", "build", buildName(), "pat", p.name, "idx", int(idx), "tbl", entries, "pre_tail", hx(pre[96:]),
				"out", hx(oi[:96]), "out_tail", hx(oi[96:]), "ref", hx(ri[:96]), "faulted", f)
		}
	}
	doAff := func(p pattern) {
		if p.limb >= 8 {
			return
		}
		tbl := new(secp256k1.VerifAffineTable)
		img := secp256k1.VerifAffineTableImage(tbl)
		switch p.name {
		case "random":
			fillRandom(img)
		case "ones":
			for i := range img {
				img[i] = 0xff
			}
		case "limb_ones":
			for b := 0; b < 8; b++ {
				img[p.slot*as+p.limb*8+b] = 0xff
			}
		case "limb_bit":
			binary.LittleEndian.PutUint64(img[p.slot*as+p.limb*8:], 1<<uint(rng.Intn(64)))
		}
		entries := make([]string, 15)
		for i := 0; i < 15; i++ {
			entries[i] = hx(img[i*as : (i+1)*as])
		}
		for idx := uint64(0); idx < 16; idx++ {
			// the destination is a fresh zero value, as in SelectAndAdd (for idx = 0 the two implementations leave it zero)
			out, ref := new(secp256k1.VerifAffinePoint), new(secp256k1.VerifAffinePoint)
			if idx != 0 && p.name != "zeros" {
				// for idx >= 1 the result must be the entry whatever the destination held before (a stale / reused destination)
				pre := make([]byte, as)
				rng.Read(pre)
				secp256k1.VerifSetAffineImage(out, pre)
				secp256k1.VerifSetAffineImage(ref, pre)
			}
			f := trap(func() { secp256k1.VerifLookupAffine(tbl, out, idx) })
			secp256k1.VerifRefLookupAffine(tbl, ref, idx)
			c.E("lk.Aff", "build", buildName(), "pat", p.name, "idx", int(idx), "tbl", entries,
				"out", hx(secp256k1.VerifAffineImage(out)), "ref", hx(secp256k1.VerifAffineImage(ref)), "faulted", f)
		}
	}
	for _, p := range pats {
		if !c.thorough() && p.slot >= 0 && (p.slot+p.limb)%3 != int(c.seed%3) {
			continue
		}
		doProj(p)
		doAff(p)
	}

	// ---- alignment: the table types are only 8-byte aligned as far as Go is concerned (a table inside a larger struct, on the stack,
	// or carved out of a []uint64), so every routine must work for a table at 0 and at 8 (mod 16).  A misaligned-access trap is turned
	// into a logged fault, not a dead driver.
	{
		oldPF := debug.SetPanicOnFault(true)
		arena := make([]uint64, (15*ps+15*as)/8+8)
		a0 := unsafe.Pointer(&arena[0])
		if uintptr(a0)%16 != 0 {
			a0 = unsafe.Add(a0, 8)
		}
		fl := func(f func()) (faulted bool) {
			defer func() {
				if r := recover(); r != nil {
					faulted = true
				}
			}()
			f()
			return false
		}
		for _, off := range []int{0, 8} {
			pat := "align" + itoa(off)
			// projective
			src := new(secp256k1.VerifProjTable)
			img := secp256k1.VerifProjTableImage(src)
			fillRandom(img)
			addr := unsafe.Add(a0, off)
			copy(unsafe.Slice((*byte)(addr), len(img)), img)
			entries := make([]string, 15)
			for i := 0; i < 15; i++ {
				entries[i] = hx(img[i*ps : i*ps+96])
			}
			for idx := uint64(0); idx < 16; idx++ {
				out, ref := new(secp256k1.Point), new(secp256k1.Point)
				pre := make([]byte, ps)
				rng.Read(pre)
				pre[96] = byte(idx & 1)
				secp256k1.VerifSetPointImage(out, pre)
				secp256k1.VerifSetPointImage(ref, pre)
				f := fl(func() { secp256k1.VerifLookupProjectiveAt(addr, out, idx) })
				secp256k1.VerifRefLookupProjective(src, ref, idx)
				oi, ri := secp256k1.VerifPointImage(out), secp256k1.VerifPointImage(ref)
				c.E("lk.Proj", "build", buildName(), "pat", pat, "idx", int(idx), "tbl", entries, "pre_tail", hx(pre[96:]),
					"out", hx(oi[:96]), "out_tail", hx(oi[96:]), "ref", hx(ri[:96]), "faulted", f)
			}
			// affine
			srcA := new(secp256k1.VerifAffineTable)
			imgA := secp256k1.VerifAffineTableImage(srcA)
			fillRandom(imgA)
			copy(unsafe.Slice((*byte)(addr), len(imgA)), imgA)
			entriesA := make([]string, 15)
			for i := 0; i < 15; i++ {
				entriesA[i] = hx(imgA[i*as : (i+1)*as])
			}
			for idx := uint64(0); idx < 16; idx++ {
				out, ref := new(secp256k1.VerifAffinePoint), new(secp256k1.VerifAffinePoint)
				f := fl(func() { secp256k1.VerifLookupAffineAt(addr, out, idx) })
				secp256k1.VerifRefLookupAffine(srcA, ref, idx)
				c.E("lk.Aff", "build", buildName(), "pat", pat, "idx", int(idx), "tbl", entriesA,
					"out", hx(secp256k1.VerifAffineImage(out)), "ref", hx(secp256k1.VerifAffineImage(ref)), "faulted", f)
			}
		}
		runtime.KeepAlive(arena)
		debug.SetPanicOnFault(oldPF)
	}

	// ---- which entries does a lookup touch?  Entries k.. of the table live in an unreadable page.
	page := syscall.Getpagesize()
	mem, err := syscall.Mmap(-1, 0, 2*page, syscall.PROT_READ|syscall.PROT_WRITE, syscall.MAP_ANON|syscall.MAP_PRIVATE)
	if err != nil {
		c.E("lk.TouchUnavailable", "why", err.Error())
		return
	}
	defer func() { _ = syscall.Munmap(mem) }()
	old := debug.SetPanicOnFault(true)
	defer debug.SetPanicOnFault(old)
	base := unsafe.Pointer(&mem[0])
	boundary := unsafe.Add(base, page)
	G := secp256k1.NewGeneratorPoint()
	srcP := secp256k1.VerifNewProjTable(G)
	srcPI := secp256k1.VerifProjTableImage(srcP)
	faults := func(f func()) (faulted bool) {
		defer func() {
			if r := recover(); r != nil {
				faulted = true
			}
		}()
		f()
		return false
	}
	c.nextTrace()
	for k := 1; k <= 15; k++ { // entries 0..k-1 readable, k..14 not
		// projective
		if err := syscall.Mprotect(mem[page:], syscall.PROT_READ|syscall.PROT_WRITE); err != nil {
			return
		}
		start := unsafe.Add(boundary, -k*ps)
		copy(unsafe.Slice((*byte)(start), 15*ps)[:k*ps], srcPI[:k*ps])
		if err := syscall.Mprotect(mem[page:], syscall.PROT_NONE); err != nil {
			return
		}
		for idx := uint64(0); idx < 16; idx++ {
			out := secp256k1.NewIdentityPoint()
			f := faults(func() { secp256k1.VerifLookupProjectiveAt(start, out, idx) })
			c.E("lk.Touch", "build", buildName(), "kind", "proj", "k", k, "idx", int(idx), "faulted", f)
			sum := secp256k1.NewGeneratorPoint()
			f = faults(func() { secp256k1.VerifSelectAndAddProjectiveAt(start, sum, idx, false) })
			c.E("lk.Touch", "build", buildName(), "kind", "sel", "k", k, "idx", int(idx), "faulted", f)
			sum = secp256k1.NewGeneratorPoint()
			f = faults(func() { secp256k1.VerifSelectAndAddProjectiveAt(start, sum, idx, true) })
			c.E("lk.Touch", "build", buildName(), "kind", "selv", "k", k, "idx", int(idx), "faulted", f)
		}
		// affine (entries are 64 bytes)
		if err := syscall.Mprotect(mem[page:], syscall.PROT_READ|syscall.PROT_WRITE); err != nil {
			return
		}
		startA := unsafe.Add(boundary, -k*as)
		for i := 0; i < k; i++ {
			x, y := secp256k1.VerifHugeTableEntry(0, i)
			var ap secp256k1.VerifAffinePoint
			ap.VerifSetXY(x, y)
			copy(unsafe.Slice((*byte)(unsafe.Add(startA, i*as)), as), secp256k1.VerifAffineImage(&ap))
		}
		if err := syscall.Mprotect(mem[page:], syscall.PROT_NONE); err != nil {
			return
		}
		for idx := uint64(0); idx < 16; idx++ {
			var ap secp256k1.VerifAffinePoint
			f := faults(func() { secp256k1.VerifLookupAffineAt(startA, &ap, idx) })
			c.E("lk.Touch", "build", buildName(), "kind", "aff", "k", k, "idx", int(idx), "faulted", f)
			sum := secp256k1.NewGeneratorPoint()
			f = faults(func() { secp256k1.VerifSelectAndAddAffineAt(startA, sum, idx) })
			c.E("lk.Touch", "build", buildName(), "kind", "sela", "k", k, "idx", int(idx), "faulted", f)
		}
	}
	c.sticky = false
}
