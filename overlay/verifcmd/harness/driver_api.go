//go:build verif

package main

import (
	"bufio"
	"bytes"
	"encoding/json"
	"errors"
	"io"
	"math/big"
	"math/rand"
	"os"
	"path/filepath"
	"reflect"
	"sort"
	"strings"

	secp256k1 "gitlab.com/yawning/secp256k1-voi"
	"gitlab.com/yawning/secp256k1-voi/secec"
	"gitlab.com/yawning/secp256k1-voi/secec/bitcoin"
	"gitlab.com/yawning/secp256k1-voi/secec/h2c"
)

func init() {
	register("api", "C18: replays TLC-generated API schedules (MC_Api.tla) on real objects, logging the whole pool after every step", driveAPI)
}

type apiPool struct {
	pt    []*secp256k1.Point
	sc    []*secp256k1.Scalar
	buf   [][]byte
	priv  *secec.PrivateKey
	pub   *secec.PublicKey
	spriv *bitcoin.SchnorrPrivateKey
	spub  *bitcoin.SchnorrPublicKey
}

type skelStep struct {
	Op   string `json:"op"`
	V    int    `json:"v"`
	P    int    `json:"p"`
	Q    int    `json:"q"`
	S    int    `json:"s"`
	T    int    `json:"t"`
	B    int    `json:"b"`
	C    int    `json:"c"`
	M    int    `json:"m"`
	Cls  string `json:"cls"`
	Kind string `json:"kind"`
}

func ptState(p *secp256k1.Point) string {
	if !ptIsValid(p) {
		return "uninit"
	}
	return hx(p.UncompressedBytes())
}

func (pl *apiPool) project() []any {
	pts := make([]string, len(pl.pt))
	for i, p := range pl.pt {
		pts[i] = ptState(p)
	}
	scs := make([]string, len(pl.sc))
	for i, s := range pl.sc {
		scs[i] = scHex(s)
	}
	bufs := make([]string, len(pl.buf))
	for i, b := range pl.buf {
		bufs[i] = hx(b)
	}
	priv, pub, pubpt, pubcmp, privpub := "nil", "nil", "nil", "nil", "nil"
	if pl.priv != nil {
		priv = hx(pl.priv.Bytes())
		privpub = hx(pl.priv.PublicKey().Bytes())
	}
	if pl.pub != nil {
		pub = hx(pl.pub.Bytes())
		pubpt = hx(pl.pub.Point().UncompressedBytes())
		pubcmp = hx(pl.pub.CompressedBytes())
	}
	spriv, spub, spubpt, sprivpub := "nil", "nil", "nil", "nil"
	if pl.spriv != nil {
		spriv = hx(pl.spriv.Bytes())
		sprivpub = hx(pl.spriv.PublicKey().Bytes())
	}
	if pl.spub != nil {
		spub = hx(pl.spub.Bytes())
		spubpt = hx(pl.spub.Point().UncompressedBytes())
	}
	return []any{"pt", pts, "sc", scs, "buf", bufs, "priv", priv, "privpub", privpub, "pub", pub, "pubpt", pubpt, "pubcmp", pubcmp,
		"spriv", spriv, "sprivpub", sprivpub, "spub", spub, "spubpt", spubpt}
}

// contentFor builds a full-size byte string of the class chosen by the model.
func contentFor(rng *rand.Rand, cls string, small []xy) []byte {
	g := xy{bi("79be667ef9dcbbac55a06295ce870b07029bfcdb2dce28d959f2815b16f81798"), bi("483ada7726a3c4655da4fbfc0e1108a8fd17b448a68554199c47d08ffb10d4b8")}
	sp := small[rng.Intn(len(small))]
	switch cls {
	case "inf":
		return []byte{0}
	case "cmp":
		return encCmp(sp)
	case "unc":
		k := mulG(add(randBig(rng, add(bigN, -2)), 1))
		return k.UncompressedBytes()
	case "cmp_G":
		return encCmp(g)
	case "noncanon":
		return append([]byte{byte(2 + sp.y.Bit(0))}, be32(new(big.Int).Add(sp.x, bigP))[:]...)
	case "offcurve":
		return encUnc(xy{g.x, add(g.y, 1)})
	case "nearcurve": // off the curve, but y^2 and x^3 + 7 agree in all internal limbs but one
		ps := nearCurvePoints(rng, 1)
		if len(ps) > 0 {
			return encUnc(ps[rng.Intn(len(ps))])
		}
		return encUnc(xy{g.x, add(g.y, 1)})
	case "coords_near": // x || y of such a point, for the coordinate constructor
		ps := nearCurvePoints(rng, 1)
		if len(ps) > 0 {
			p := ps[rng.Intn(len(ps))]
			return append(append([]byte{}, be32(p.x)[:]...), be32(p.y)[:]...)
		}
		return append(append([]byte{}, be32(g.x)[:]...), be32(add(g.y, 1))[:]...)
	case "nonresidue":
		x := randBig(rng, bigP)
		for sqrtP(yyOf(x)) != nil {
			x = add(x, 1)
		}
		return append([]byte{2}, be32(x)[:]...)
	case "hybrid":
		b := encUnc(g)
		b[0] = byte(6 + g.y.Bit(0))
		return b
	case "badlen":
		return append(encUnc(g)[:64], 0, 0)[:64+rng.Intn(2)*2]
	case "empty":
		return []byte{}
	case "sc_small":
		return be32(big.NewInt(int64(2 + rng.Intn(9))))[:]
	case "sc_zero":
		return make([]byte, 32)
	case "sc_nm1":
		return be32(add(bigN, -1))[:]
	case "sc_n":
		return be32(bigN)[:]
	case "sc_max":
		return be32(add(big2_256, -1))[:]
	case "coords":
		return append(append([]byte{}, be32(sp.x)[:]...), be32(sp.y)[:]...)
	case "coords_bad":
		return append(append([]byte{}, be32(sp.x)[:]...), be32(add(sp.y, 1))[:]...)
	case "xonly":
		return be32(sp.x)[:]
	case "xonly_bad":
		x := randBig(rng, bigP)
		for sqrtP(yyOf(x)) != nil {
			x = add(x, 1)
		}
		return be32(x)[:]
	case "u_exc": // Z u^2 = -1 with Z = -11: u = sqrt(1/11), in 32, 48 or 64 bytes, possibly as u + p
		u := sqrtP(new(big.Int).ModInverse(big.NewInt(11), bigP))
		if rng.Intn(2) == 0 {
			u = new(big.Int).Sub(bigP, u)
		}
		switch rng.Intn(4) {
		case 0:
			return be32(u)[:]
		case 1:
			return append(make([]byte, 16), be32(u)[:]...)
		case 2:
			return append(make([]byte, 32), be32(u)[:]...)
		}
		w := new(big.Int).Add(u, bigP).Bytes()
		return append(make([]byte, 48-len(w)), w...)
	case "spki_unc":
		return privFrom(add(randBig(rng, add(bigN, -2)), 1)).PublicKey().ASN1Bytes()
	case "spki_cmp", "spki_bits", "spki_inf":
		pt := privFrom(add(randBig(rng, add(bigN, -2)), 1)).PublicKey().CompressedBytes()
		if cls == "spki_inf" {
			pt = []byte{0}
		}
		alg := []byte{0x30, 0x10, 0x06, 0x07, 0x2a, 0x86, 0x48, 0xce, 0x3d, 0x02, 0x01, 0x06, 0x05, 0x2b, 0x81, 0x04, 0x00, 0x0a}
		unused := byte(0)
		if cls == "spki_bits" {
			unused = byte(1 + rng.Intn(7))
		}
		body := append(append(append([]byte{}, alg...), 0x03, byte(len(pt)+1), unused), pt...)
		return append([]byte{0x30, byte(len(body))}, body...)
	case "btc_junk":
		return append(secec.BuildASN1Signature(scFrom(big.NewInt(5)), scFrom(big.NewInt(7))), 0x01)
	case "sig_junk":
		return append(append(append([]byte{}, be32(big.NewInt(5))[:]...), be32(big.NewInt(7))[:]...), byte(rng.Intn(2)))
	case "der_junk":
		return secec.BuildASN1Signature(scFrom(big.NewInt(5)), scFrom(big.NewInt(7)))
	case "cmp_junk":
		return append(append([]byte{}, be32(big.NewInt(5))[:]...), be32(big.NewInt(7))[:]...)
	case "cmp_s_zero":
		return append(append([]byte{}, be32(big.NewInt(5))[:]...), make([]byte, 32)...)
	case "cmp_s_ge_n":
		return append(append([]byte{}, be32(big.NewInt(5))[:]...), be32(bigN)[:]...)
	case "cmp_r_ge_n":
		return append(append([]byte{}, be32(bigN)[:]...), be32(big.NewInt(7))[:]...)
	case "sig_qinf": // r || s || v with s R = e G for the digest n - 1 (class sc_nm1): the recovered key would be the point at infinity
		k := big.NewInt(int64(2 + rng.Intn(50)))
		R := mulG(k)
		unc := R.UncompressedBytes()
		rr := new(big.Int).Mod(new(big.Int).SetBytes(unc[1:33]), bigN)
		sv := new(big.Int).Mod(new(big.Int).Neg(new(big.Int).ModInverse(k, bigN)), bigN) // e / k with e = -1
		return append(append(append([]byte{}, be32(rr)[:]...), be32(sv)[:]...), unc[64]&1)
	}
	return []byte{1, 2, 3}
}

func driveAPI(c *ctx) {
	rng := rand.New(rand.NewSource(c.seed))
	dir := os.Getenv("VERIF_SKEL_DIR")
	files, _ := filepath.Glob(filepath.Join(dir, "*", "sk-*.ndjson"))
	more, _ := filepath.Glob(filepath.Join(dir, "sk-*.ndjson"))
	files = append(files, more...)
	more, _ = filepath.Glob(filepath.Join(dir, "*", "*", "sk-*.ndjson"))
	files = append(files, more...)
	sort.Strings(files)
	if len(files) == 0 {
		fatal("api: no schedules under VERIF_SKEL_DIR=" + dir)
	}
	small := curvePointsWithSmallX(rng, 10)
	for fi, fn := range files {
		f, err := os.Open(fn)
		if err != nil {
			fatal(err)
		}
		var steps []skelStep
		sc := bufio.NewScanner(f)
		sc.Buffer(make([]byte, 1<<20), 1<<24)
		for sc.Scan() {
			line := strings.TrimSpace(sc.Text())
			if line == "" {
				continue
			}
			var st skelStep
			if err := json.Unmarshal([]byte(line), &st); err != nil {
				fatal("api: bad schedule line in " + fn + ": " + err.Error())
			}
			steps = append(steps, st)
		}
		_ = f.Close()
		if len(steps) == 0 {
			continue
		}
		np, ns, nb := 1, 1, 1
		for _, s := range steps {
			for _, v := range []int{s.V, s.P, s.Q} {
				if v+1 > np {
					np = v + 1
				}
			}
			for _, v := range []int{s.S, s.T} {
				if v+1 > ns {
					ns = v + 1
				}
			}
			if s.B+1 > nb {
				nb = s.B + 1
			}
			if s.M+1 > nb {
				nb = s.M + 1
			}
		}
		// scalar slots double as operands p, q of sc.Add / sc.Multiply
		for _, s := range steps {
			if strings.HasPrefix(s.Op, "sc.") {
				for _, v := range []int{s.P, s.Q} {
					if v+1 > ns {
						ns = v + 1
					}
				}
			}
		}
		// schedules that touch key objects run twice, once sighted and once blind (the first call of an accessor must be able to be
		// the scheduled one, not the harness looking at the pool); the others run blind every third time
		keyOps := false
		generates := false
		loads := false
		ctxLen := 0 // the shared context of the systematic schedules (it builds keys and a signature itself) does not count
		if len(steps) > 11 && steps[0].Op == "pt.Generator" && steps[8].Op == "key.NewPrivate" && steps[10].Op == "key.Sign" {
			ctxLen = 11
		}
		for si, s := range steps {
			if si >= ctxLen && (strings.HasPrefix(s.Op, "key.") || strings.HasPrefix(s.Op, "skey.") || strings.HasPrefix(s.Op, "spub.") || strings.HasPrefix(s.Op, "btc.")) {
				keyOps = true
			}
			if s.Op == "key.Generate" || s.Op == "skey.Generate" || s.Op == "key.SignHedged" { // the generated key / hedged signature is only known by looking at it
				generates = true
			}
			if si >= ctxLen && s.Op == "env.LoadBuf" && len(steps) <= 24 { // the byte-class enumerations keep the one-in-three rule
				loads = true
			}
		}
		if loads {
			keyOps = false
		}
		modes := []bool{fi%3 == 1 && !generates}
		if keyOps && !generates && len(steps) <= 24 {
			modes = []bool{false, true}
		}
		for _, blind := range modes {
			pl := &apiPool{}
			for i := 0; i < np; i++ {
				pl.pt = append(pl.pt, new(secp256k1.Point))
			}
			for i := 0; i < ns; i++ {
				pl.sc = append(pl.sc, secp256k1.NewScalar())
			}
			for i := 0; i < nb; i++ {
				pl.buf = append(pl.buf, []byte{})
			}
			c.nextTrace()
			c.E("api.Reset", append([]any{"np", np, "ns", ns, "nb", nb, "file", filepath.Base(fn)}, pl.project()...)...)
			// BLIND: the pool is not looked at (no accessor of any object is called by the harness) until the last step, so that state
			// an object builds lazily on first use is still unbuilt when the scheduled calls reach it
			for si, s := range steps {
				execAPI(c, rng, pl, s, small, blind && si != len(steps)-1)
			}
		}
	}
	c.sticky = false
}

// execAPI runs one scheduled call against the real objects.
func execAPI(c *ctx, rng *rand.Rand, pl *apiPool, s skelStep, small []xy, blind bool) {
	kind := "ok"
	reply := -1
	content := ""
	fail := func(err error) {
		if err != nil {
			kind = "err"
		}
	}
	// a failed decode or constructor returns NO object: whatever came back next to the error must be nil
	failObj := func(err error, objs ...any) {
		fail(err)
		if err == nil {
			return
		}
		for _, o := range objs {
			if v := reflect.ValueOf(o); v.IsValid() && !v.IsNil() {
				kind = "err+object"
			}
		}
	}
	as32 := func(b []byte) *[32]byte {
		if len(b) != 32 {
			return nil
		}
		return (*[32]byte)(b) // shares the caller's backing array
	}
	pn := catch(func() {
		switch s.Op {
		case "pt.Identity":
			pl.pt[s.V].Identity()
		case "pt.Generator":
			pl.pt[s.V].Generator()
		case "pt.Add":
			pl.pt[s.V].Add(pl.pt[s.P], pl.pt[s.Q])
		case "pt.Subtract":
			pl.pt[s.V].Subtract(pl.pt[s.P], pl.pt[s.Q])
		case "pt.Double":
			pl.pt[s.V].Double(pl.pt[s.P])
		case "pt.Negate":
			pl.pt[s.V].Negate(pl.pt[s.P])
		case "pt.Set":
			pl.pt[s.V].Set(pl.pt[s.P])
		case "pt.CondNegate":
			pl.pt[s.V].ConditionalNegate(pl.pt[s.P], ctrlWord(s.C, s.V+s.P+c.n))
		case "pt.CondSelect":
			pl.pt[s.V].ConditionalSelect(pl.pt[s.P], pl.pt[s.Q], ctrlWord(s.C, s.V+s.P+c.n))
		case "pt.Equal":
			reply = int(pl.pt[s.P].Equal(pl.pt[s.Q]))
		case "pt.IsIdentity":
			reply = int(pl.pt[s.P].IsIdentity())
		case "pt.ScalarMult":
			pl.pt[s.V].ScalarMult(pl.sc[s.S], pl.pt[s.P])
		case "pt.ScalarBaseMult":
			pl.pt[s.V].ScalarBaseMult(pl.sc[s.S])
		case "pt.DoubleScalarMult":
			pl.pt[s.V].DoubleScalarMultBasepointVartime(pl.sc[s.S], pl.sc[s.T], pl.pt[s.P])
		case "pt.MultiScalarMult":
			pl.pt[s.V].MultiScalarMult([]*secp256k1.Scalar{pl.sc[s.S], pl.sc[s.T]}, []*secp256k1.Point{pl.pt[s.P], pl.pt[s.Q]})
		case "pt.MultiScalarMultVartime":
			pl.pt[s.V].MultiScalarMultVartime([]*secp256k1.Scalar{pl.sc[s.S], pl.sc[s.T]}, []*secp256k1.Point{pl.pt[s.P], pl.pt[s.Q]})
		case "pt.MultiScalarMultMismatch":
			pl.pt[s.V].MultiScalarMult([]*secp256k1.Scalar{pl.sc[s.S]}, []*secp256k1.Point{pl.pt[s.P], pl.pt[s.Q]})
		case "pt.SetBytes":
			ro, err := pl.pt[s.V].SetBytes(pl.buf[s.B])
			failObj(err, ro)
		case "pt.SetCompressedBytes":
			ro, err := pl.pt[s.V].SetCompressedBytes(pl.buf[s.B])
			failObj(err, ro)
		case "pt.SetUncompressedBytes":
			ro, err := pl.pt[s.V].SetUncompressedBytes(pl.buf[s.B])
			failObj(err, ro)
		case "pt.UncompressedBytes":
			pl.buf[s.B] = pl.pt[s.P].UncompressedBytes()
		case "pt.CompressedBytes":
			pl.buf[s.B] = pl.pt[s.P].CompressedBytes()
		case "pt.XBytes":
			b, err := pl.pt[s.P].XBytes()
			failObj(err, b)
			if err == nil {
				pl.buf[s.B] = b
			}
		case "sc.Add":
			pl.sc[s.S].Add(pl.sc[s.P], pl.sc[s.Q])
		case "sc.Multiply":
			pl.sc[s.S].Multiply(pl.sc[s.P], pl.sc[s.Q])
		case "sc.Subtract":
			pl.sc[s.S].Subtract(pl.sc[s.P], pl.sc[s.Q])
		case "sc.Square":
			pl.sc[s.S].Square(pl.sc[s.P])
		case "sc.Sum":
			pl.sc[s.S].Sum(pl.sc[s.P], pl.sc[s.Q], pl.sc[s.T])
		case "sc.Product":
			pl.sc[s.S].Product(pl.sc[s.P], pl.sc[s.Q], pl.sc[s.T])
		case "sc.CondNegate":
			pl.sc[s.S].ConditionalNegate(pl.sc[s.P], ctrlWord(s.C, s.S+s.P+c.n))
		case "sc.CondSelect":
			pl.sc[s.S].ConditionalSelect(pl.sc[s.P], pl.sc[s.Q], ctrlWord(s.C, s.S+s.P+c.n))
		case "sig.ParseCompact":
			r, sv, err := secec.ParseCompactSignature(pl.buf[s.B])
			failObj(err, r, sv)
			if err == nil {
				pl.sc[s.S] = r
				pl.sc[s.T] = sv
			}
		case "sig.ParseCompactRec":
			r, sv, v, err := secec.ParseCompactRecoverableSignature(pl.buf[s.B])
			failObj(err, r, sv)
			if err == nil {
				pl.sc[s.S] = r
				pl.sc[s.T] = sv
				reply = int(v)
			}
		case "sig.ParseDER":
			r, sv, err := secec.ParseASN1Signature(pl.buf[s.B])
			failObj(err, r, sv)
			if err == nil {
				pl.sc[s.S] = r
				pl.sc[s.T] = sv
			}
		case "sig.BuildCompact":
			pl.buf[s.B] = secec.BuildCompactSignature(pl.sc[s.S], pl.sc[s.T])
		case "sig.BuildCompactRec":
			pl.buf[s.B] = secec.BuildCompactRecoverableSignature(pl.sc[s.S], pl.sc[s.T], byte(s.C))
		case "sig.BuildDER":
			pl.buf[s.B] = secec.BuildASN1Signature(pl.sc[s.S], pl.sc[s.T])
		case "sc.Equal":
			reply = int(pl.sc[s.P].Equal(pl.sc[s.Q]))
		case "sc.IsZero":
			reply = int(pl.sc[s.P].IsZero())
		case "sc.IsGreaterThanHalfN":
			reply = int(pl.sc[s.P].IsGreaterThanHalfN())
		case "sc.Negate":
			pl.sc[s.S].Negate(pl.sc[s.P])
		case "sc.Invert":
			pl.sc[s.S].Invert(pl.sc[s.P])
		case "sc.SetBytes":
			a := as32(pl.buf[s.B])
			if a == nil {
				panic("harness: not a 32-byte buffer")
			}
			_, fl := pl.sc[s.S].SetBytes(a)
			reply = int(fl)
		case "sc.SetCanonicalBytes":
			a := as32(pl.buf[s.B])
			if a == nil {
				panic("harness: not a 32-byte buffer")
			}
			ro, err := pl.sc[s.S].SetCanonicalBytes(a)
			failObj(err, ro)
		case "sc.Bytes":
			pl.buf[s.B] = pl.sc[s.S].Bytes()
		case "key.NewPrivate":
			k, err := secec.NewPrivateKey(pl.buf[s.B])
			failObj(err, k)
			if err == nil {
				if c.n%2 == 0 { // the crypto.Signer view first, on a key object whose PublicKey() was never called
					pl.priv, pl.pub = k, k.Public().(*secec.PublicKey)
				} else {
					pl.priv, pl.pub = k, k.PublicKey()
				}
			}
		case "key.NewPrivateFromScalar":
			k, err := secec.NewPrivateKeyFromScalar(pl.sc[s.S])
			failObj(err, k)
			if err == nil {
				pl.priv, pl.pub = k, k.PublicKey()
			}
		case "key.PrivScalar":
			if pl.priv == nil {
				panic("harness: no private key object")
			}
			pl.sc[s.S] = pl.priv.Scalar()
		case "key.PrivBytes":
			if pl.priv == nil {
				panic("harness: no private key object")
			}
			pl.buf[s.B] = pl.priv.Bytes()
		case "key.NewPublic":
			k, err := secec.NewPublicKey(pl.buf[s.B])
			failObj(err, k)
			if err == nil {
				pl.pub, pl.priv = k, nil
			}
		case "key.NewPublicFromPoint":
			k, err := secec.NewPublicKeyFromPoint(pl.pt[s.P])
			failObj(err, k)
			if err == nil {
				pl.pub, pl.priv = k, nil
			}
		case "key.PubPoint":
			if pl.pub == nil {
				panic("harness: no public key object")
			}
			pl.pt[s.V] = pl.pub.Point()
		case "key.PubBytes":
			if pl.pub == nil {
				panic("harness: no public key object")
			}
			pl.buf[s.B] = pl.pub.Bytes()
		case "key.PubCompressed":
			if pl.pub == nil {
				panic("harness: no public key object")
			}
			pl.buf[s.B] = pl.pub.CompressedBytes()
		case "key.ECDH":
			if pl.pub == nil || pl.priv == nil {
				panic("harness: no key objects")
			}
			b, err := pl.priv.ECDH(pl.pub)
			failObj(err, b)
			if err == nil {
				pl.buf[s.B] = b
			}
		case "pt.NewFromBytes":
			p, err := secp256k1.NewPointFromBytes(pl.buf[s.B])
			failObj(err, p)
			if err == nil {
				pl.pt[s.V] = p
			}
		case "pt.NewIdentity":
			pl.pt[s.V] = secp256k1.NewIdentityPoint()
		case "pt.NewGenerator":
			pl.pt[s.V] = secp256k1.NewGeneratorPoint()
		case "pt.NewFrom":
			pl.pt[s.V] = secp256k1.NewPointFrom(pl.pt[s.P])
		case "pt.IsYOdd":
			reply = int(pl.pt[s.P].IsYOdd())
		case "pt.FromCoords":
			b := pl.buf[s.B]
			if len(b) != 64 {
				panic("harness: not a 64-byte buffer")
			}
			p, err := secp256k1.NewPointFromCoords((*[32]byte)(b[:32]), (*[32]byte)(b[32:]))
			failObj(err, p)
			if err == nil {
				pl.pt[s.V] = p
			}
		case "pt.SetUniform":
			pl.pt[s.V].SetUniformBytes(pl.buf[s.B])
		case "pt.Recover":
			p, err := secp256k1.RecoverPoint(pl.sc[s.S], byte(s.C))
			failObj(err, p)
			if err == nil {
				pl.pt[s.V] = p
			}
		case "skey.New":
			k, err := bitcoin.NewSchnorrPrivateKey(pl.buf[s.B])
			failObj(err, k)
			if err == nil {
				pl.spriv, pl.spub = k, k.PublicKey()
			}
		case "skey.FromECDSA":
			if pl.priv == nil {
				panic("harness: no private key object")
			}
			k := bitcoin.NewSchnorrPrivateKeyFromECDSA(pl.priv)
			pl.spriv, pl.spub = k, k.PublicKey()
		case "skey.Bytes":
			if pl.spriv == nil {
				panic("harness: no Schnorr private key object")
			}
			pl.buf[s.B] = pl.spriv.Bytes()
		case "skey.Scalar":
			if pl.spriv == nil {
				panic("harness: no Schnorr private key object")
			}
			pl.sc[s.S] = pl.spriv.Scalar()
		case "spub.New":
			k, err := bitcoin.NewSchnorrPublicKey(pl.buf[s.B])
			failObj(err, k)
			if err == nil {
				pl.spub, pl.spriv = k, nil
			}
		case "spub.FromPoint":
			k, err := bitcoin.NewSchnorrPublicKeyFromPoint(pl.pt[s.P])
			failObj(err, k)
			if err == nil {
				pl.spub, pl.spriv = k, nil
			}
		case "spub.FromECDSA":
			if pl.pub == nil {
				panic("harness: no public key object")
			}
			pl.spub, pl.spriv = bitcoin.NewSchnorrPublicKeyFromECDSA(pl.pub), nil
		case "spub.Bytes":
			if pl.spub == nil {
				panic("harness: no Schnorr public key object")
			}
			pl.buf[s.B] = pl.spub.Bytes()
		case "spub.Point":
			if pl.spub == nil {
				panic("harness: no Schnorr public key object")
			}
			pl.pt[s.V] = pl.spub.Point()
		case "key.Sign":
			if pl.priv == nil {
				panic("harness: no private key object")
			}
			sig, err := pl.priv.Sign(secec.RFC6979SHA256(), pl.buf[s.M], &secec.ECDSAOptions{Encoding: secec.SignatureEncoding(s.C)})
			failObj(err, sig)
			if err == nil {
				pl.buf[s.B] = sig // the caller keeps the returned slice
			}
		case "key.Verify":
			if pl.pub == nil {
				panic("harness: no public key object")
			}
			reply = b2i(pl.pub.Verify(pl.buf[s.M], pl.buf[s.B], &secec.ECDSAOptions{Encoding: secec.SignatureEncoding(s.C)}))
		case "key.Recover":
			r, sv, v, err := secec.ParseCompactRecoverableSignature(pl.buf[s.B])
			failObj(err, r, sv)
			if err == nil {
				k, err := secec.RecoverPublicKey(pl.buf[s.M], r, sv, v)
				failObj(err, k)
				if err == nil {
					pl.pub, pl.priv = k, nil
				}
			}
		case "btc.Verify":
			if pl.pub == nil {
				panic("harness: no public key object")
			}
			reply = b2i(bitcoin.VerifyASN1(pl.pub, pl.buf[s.M], pl.buf[s.B]))
		case "key.PubASN1":
			if pl.pub == nil {
				panic("harness: no public key object")
			}
			pl.buf[s.B] = pl.pub.ASN1Bytes()
		case "key.ParseASN1":
			k, err := secec.ParseASN1PublicKey(pl.buf[s.B])
			failObj(err, k)
			if err == nil {
				pl.pub, pl.priv = k, nil
			}
		case "env.AppendByte": // grows the slice IN PLACE when it has spare capacity (as append does)
			pl.buf[s.B] = append(pl.buf[s.B], 1)
			content = hx(pl.buf[s.B])
		case "key.PubEqual":
			if pl.pub == nil {
				panic("harness: no public key object")
			}
			k, err := secec.NewPublicKey(pl.buf[s.B])
			failObj(err, k)
			if err == nil {
				reply = b2i(pl.pub.Equal(k))
				if pl.priv != nil && pl.priv.Public().(*secec.PublicKey).Equal(k) != pl.pub.Equal(k) { // the crypto.Signer view of the same key
					reply = -2
				}
			}
		case "key.PrivEqual":
			if pl.priv == nil {
				panic("harness: no private key object")
			}
			k, err := secec.NewPrivateKey(pl.buf[s.B])
			failObj(err, k)
			if err == nil {
				reply = b2i(pl.priv.Equal(k))
			}
		case "spub.Equal":
			if pl.spub == nil {
				panic("harness: no Schnorr public key object")
			}
			k, err := bitcoin.NewSchnorrPublicKey(pl.buf[s.B])
			failObj(err, k)
			if err == nil {
				reply = b2i(pl.spub.Equal(k))
			}
		case "skey.Equal":
			if pl.spriv == nil {
				panic("harness: no Schnorr private key object")
			}
			k, err := bitcoin.NewSchnorrPrivateKey(pl.buf[s.B])
			failObj(err, k)
			if err == nil {
				reply = b2i(pl.spriv.Equal(k))
				// (d' and n - d' are different private keys with the same x-only public key: nothing to cross-check through Public())
				_ = pl.spriv.Public().(*bitcoin.SchnorrPublicKey).Equal(k.PublicKey())
			}
		case "key.EqualForeign":
			foreign := []any{big.NewInt(7), "not a key", struct{}{}, []byte{1}}[s.C%4]
			switch s.C {
			case 0:
				if pl.pub == nil {
					panic("harness: no public key object")
				}
				reply = b2i(pl.pub.Equal(foreign) || (pl.spub != nil && pl.pub.Equal(pl.spub)))
			case 1:
				if pl.priv == nil {
					panic("harness: no private key object")
				}
				reply = b2i(pl.priv.Equal(foreign) || (pl.spriv != nil && pl.priv.Equal(pl.spriv)))
			case 2:
				if pl.spub == nil {
					panic("harness: no Schnorr public key object")
				}
				reply = b2i(pl.spub.Equal(foreign) || (pl.pub != nil && pl.spub.Equal(pl.pub)))
			default:
				if pl.spriv == nil {
					panic("harness: no Schnorr private key object")
				}
				reply = b2i(pl.spriv.Equal(foreign) || (pl.priv != nil && pl.spriv.Equal(pl.priv)))
			}
		case "btc.PreHash":
			name := []string{"verif/domain", "", "verif/\xff\xfedomain"}[s.C%3]
			out, err := bitcoin.PreHashSchnorrMessage(name, pl.buf[s.M])
			failObj(err, out)
			if err == nil {
				pl.buf[s.B] = out
			}
		case "key.Generate":
			k, err := secec.GenerateKey()
			failObj(err, k)
			if err == nil {
				pl.priv, pl.pub = k, k.PublicKey()
			}
		case "skey.Generate":
			k, err := bitcoin.GenerateSchnorrKey()
			failObj(err, k)
			if err == nil {
				pl.spriv, pl.spub = k, k.PublicKey()
			}
		case "skey.Sign":
			if pl.spriv == nil {
				panic("harness: no Schnorr private key object")
			}
			sig, err := pl.spriv.Sign(bytes.NewReader(make([]byte, 32)), pl.buf[s.M], nil)
			failObj(err, sig)
			if err == nil {
				pl.buf[s.B] = sig
			}
		case "spub.Verify":
			if pl.spub == nil {
				panic("harness: no Schnorr public key object")
			}
			reply = b2i(pl.spub.Verify(pl.buf[s.M], pl.buf[s.B]))
		case "sc.Set":
			pl.sc[s.S].Set(pl.sc[s.P])
		case "sc.One":
			pl.sc[s.S].One()
		case "sc.Zero":
			pl.sc[s.S].Zero()
		case "sc.NewFrom":
			pl.sc[s.S] = secp256k1.NewScalarFrom(pl.sc[s.P])
		case "sc.NewFromUint64":
			pl.sc[s.S] = secp256k1.NewScalarFromUint64([...]uint64{0, 1, 0xffffffffffffffff}[s.C])
		case "sc.NewFromBytes":
			a := as32(pl.buf[s.B])
			if a == nil {
				panic("harness: not a 32-byte buffer")
			}
			n, fl := secp256k1.NewScalarFromBytes(a)
			pl.sc[s.S] = n
			reply = int(fl)
		case "sc.NewFromCanonicalBytes":
			a := as32(pl.buf[s.B])
			if a == nil {
				panic("harness: not a 32-byte buffer")
			}
			n, err := secp256k1.NewScalarFromCanonicalBytes(a)
			failObj(err, n)
			if err == nil {
				pl.sc[s.S] = n
			}
		case "pt.SplitUncompressed":
			x, odd := secp256k1.SplitUncompressedPoint(pl.buf[s.B])
			pl.buf[s.M] = append([]byte{}, x...) // the caller copies what it keeps: the function documents no ownership
			reply = int(odd)
		case "key.SignRaw":
			if pl.priv == nil {
				panic("harness: no private key object")
			}
			r, sv, v, err := pl.priv.SignRaw(secec.RFC6979SHA256(), pl.buf[s.M])
			failObj(err, r, sv)
			if err == nil {
				pl.sc[s.S] = r
				pl.sc[s.T] = sv
				reply = int(v)
			}
		case "key.VerifyRaw":
			if pl.pub == nil {
				panic("harness: no public key object")
			}
			reply = b2i(pl.pub.VerifyRaw(pl.buf[s.M], pl.sc[s.S], pl.sc[s.T]))
		case "key.SignHedged":
			if pl.priv == nil {
				panic("harness: no private key object")
			}
			var rd io.Reader = bytes.NewReader(bytes.Repeat([]byte{0x42}, 32))
			if s.C != 0 {
				rd = io.MultiReader(bytes.NewReader(bytes.Repeat([]byte{0x42}, 31)), failingReader{})
			}
			sig, err := pl.priv.Sign(rd, pl.buf[s.M], &secec.ECDSAOptions{Encoding: secec.EncodingCompact})
			failObj(err, sig)
			if err == nil {
				pl.buf[s.B] = sig
			}
		case "h2c.RO", "h2c.NU":
			fn := h2c.Secp256k1_XMD_SHA256_SSWU_RO
			if s.Op == "h2c.NU" {
				fn = h2c.Secp256k1_XMD_SHA256_SSWU_NU
			}
			n, err := fn(pl.buf[s.B], pl.buf[s.M])
			failObj(err, n)
			if err == nil {
				pl.pt[s.V] = n
			}
		case "btc.IsBip66":
			reply = b2i(bitcoin.IsValidSignatureEncodingBIP0066(pl.buf[s.B]))
		case "env.LoadBuf":
			pl.buf[s.B] = contentFor(rng, s.Cls, small)
			content = hx(pl.buf[s.B])
		case "env.MutateBuf": // the caller scribbles over a slice it passed in or was handed, IN PLACE
			if len(pl.buf[s.B]) == 0 {
				pl.buf[s.B] = []byte{1}
			} else {
				pl.buf[s.B][0]++
			}
			content = hx(pl.buf[s.B])
		case "env.MutateScalar":
			pl.sc[s.S].Add(pl.sc[s.S], secp256k1.NewScalarFromUint64(1))
		case "env.MutatePoint":
			pl.pt[s.P].Add(pl.pt[s.P], secp256k1.NewGeneratorPoint())
		case "env.ForgetPoint":
			pl.pt[s.P] = new(secp256k1.Point)
		default:
			fatal("api: unknown operation " + s.Op)
		}
	})
	if pn {
		kind = "panic"
	}
	kv := []any{"op", s.Op, "v", s.V, "p", s.P, "q", s.Q, "s", s.S, "t", s.T, "b", s.B, "c", s.C, "m", s.M, "cls", s.Cls, "content", content, "kind", kind, "reply", reply, "model_kind", s.Kind}
	if blind {
		c.E("api.Step", append(kv, "blind", true)...)
		return
	}
	c.E("api.Step", append(kv, pl.project()...)...)
}

// failingReader is an entropy source that has nothing left.
type failingReader struct{}

func (failingReader) Read([]byte) (int, error) { return 0, errors.New("verif: entropy source failed") }

// ctrlWord maps the model's control class to a control word: 0, 1, or (class 2) a word that is neither.
func ctrlWord(c, salt int) uint64 {
	switch c {
	case 0, 1:
		return uint64(c)
	}
	return [...]uint64{2, 1 << 63, 0xffffffffffffffff, 0x100, 0xfffffffffffffffe}[salt%5]
}
