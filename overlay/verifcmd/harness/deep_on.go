//go:build verif && !verifpub

package main

import (
	"crypto/sha256"
	"io"
	"math/big"
	"strconv"

	secp256k1 "gitlab.com/yawning/secp256k1-voi"
	"gitlab.com/yawning/secp256k1-voi/internal/field"
	"gitlab.com/yawning/secp256k1-voi/secec"
	"gitlab.com/yawning/secp256k1-voi/secec/bitcoin"
	"gitlab.com/yawning/secp256k1-voi/secec/h2c"
)

// deep: the build includes the verif accessors into unexported parts of the library (the normal case).  When a change to the
// library makes those accessors uncompilable, the harness is rebuilt with -tags verif,verifpub: only the exported API is used,
// the deep drivers are absent and the deep sections of the remaining drivers are skipped (deep_off.go).
const deep = true

func ptIsValid(p *secp256k1.Point) bool {
	_, _, _, valid := p.VerifCoords()
	return valid
}

func deepExpandXMD(out, dst, msg []byte) error { return h2c.VerifExpandMessageXMD(out, dst, msg) }
func deepVerifyAlt(d *secec.PrivateKey, digest []byte, r, s *secp256k1.Scalar) bool {
	return secec.VerifVerifyAlt(d, digest, r, s)
}
func deepHugeTableEntry(i, j int) (*field.Element, *field.Element) {
	return secp256k1.VerifHugeTableEntry(i, j)
}
func deepOddTableEntry(i, j int) (*field.Element, *field.Element) {
	return secp256k1.VerifOddTableEntry(i, j)
}
func deepScalarBaseMultVartime(v *secp256k1.Point, s *secp256k1.Scalar) *secp256k1.Point {
	return v.VerifScalarBaseMultVartime(s)
}
func deepSplitKey(d *secp256k1.Scalar, pub *secec.PublicKey) *secec.PrivateKey {
	return secec.VerifSplitKey(d, pub)
}
func deepSampleRandomScalar(rd io.Reader) (*secp256k1.Scalar, error) {
	return secec.VerifSampleRandomScalar(rd)
}
func deepNewDrbgRFC6979(x, e *secp256k1.Scalar) io.Reader  { return secec.VerifNewDrbgRFC6979(x, e) }
func deepHashToScalar(h []byte) (*secp256k1.Scalar, error) { return secec.VerifHashToScalar(h) }

// watchFe / watchSc: the INTERNAL (Montgomery) representation of every element the harness looks at must be the canonical
// residue; every anomaly, and a sample of the normal cases, is logged as an fe.Canon / sc.Canon event; TLC decides.
func watchFe(fe *field.Element, b []byte) {
	if canonSink == nil {
		return
	}
	canonSeen++
	fresh, err := field.NewElementFromCanonicalBytes((*[32]byte)(b))
	odd := err != nil || fresh.VerifMont() != fe.VerifMont() || fresh.Equal(fe) != 1 || (fe.IsZero() == 1) != (new(big.Int).SetBytes(b).Sign() == 0)
	if odd || canonSeen%97 == 0 {
		eq := -1
		if err == nil {
			eq = int(fresh.Equal(fe))
		}
		canonSink.E("fe.Canon", "v", hx(b), "mont", h32(limbsToBig(fe.VerifMont())), "iszero", int(fe.IsZero()), "eq_fresh", eq)
	}
}

func watchSc(s *secp256k1.Scalar, b []byte) {
	if canonSink == nil {
		return
	}
	canonSeen++
	fresh, err := secp256k1.NewScalarFromCanonicalBytes((*[32]byte)(b))
	odd := err != nil || fresh.VerifMont() != s.VerifMont() || fresh.Equal(s) != 1 || (s.IsZero() == 1) != (new(big.Int).SetBytes(b).Sign() == 0)
	if odd || canonSeen%97 == 0 {
		eq := -1
		if err == nil {
			eq = int(fresh.Equal(s))
		}
		canonSink.E("sc.Canon", "v", hx(b), "mont", h32(limbsToBig(s.VerifMont())), "iszero", int(s.IsZero()), "eq_fresh", eq)
	}
}

// ptRaw returns the raw projective coordinates X || Y || Z of p (96 bytes, hex).
func ptRaw(p *secp256k1.Point) string {
	x, y, z, _ := p.VerifCoords()
	return hx(x.Bytes()) + hx(y.Bytes()) + hx(z.Bytes())
}

// rep returns the representative (X*z, Y*z, Z*z) of p.
func rep(p *secp256k1.Point, z *big.Int) *secp256k1.Point {
	x, y, zz, _ := p.VerifCoords()
	fz := feFrom(z)
	return secp256k1.VerifNewPointRaw(field.NewElement().Multiply(x, fz), field.NewElement().Multiply(y, fz), field.NewElement().Multiply(zz, fz))
}

// idRep returns the identity representative (0, y, 0).
func idRep(y *big.Int) *secp256k1.Point {
	return secp256k1.VerifNewPointRaw(field.NewElement(), feFrom(y), field.NewElement())
}

func clonePt(p *secp256k1.Point) *secp256k1.Point {
	x, y, z, _ := p.VerifCoords()
	return secp256k1.VerifNewPointRaw(x, y, z)
}

// deepImages: the complete memory images of the shared objects and of the package-level tables (C20's frame condition)
func deepImages(sh *shared) map[string][]byte {
	m := map[string][]byte{
		"priv": sh.priv.VerifImage(), "pub": sh.pub.VerifImage(), "peer": sh.peer.VerifImage(),
		"spriv": sh.spriv.VerifImage(), "spub": sh.spub.VerifImage(),
		"pt": secp256k1.VerifPointImage(sh.pt), "pt2": secp256k1.VerifPointImage(sh.pt2), "sc": secp256k1.VerifScalarImage(sh.sc),
		"sig_r": secp256k1.VerifScalarImage(sh.sig[0]), "sig_s": secp256k1.VerifScalarImage(sh.sig[1]),
		"dig": append([]byte{}, sh.dig...), "ssig": append([]byte{}, sh.ssig...),
	}
	for i, t := range secp256k1.VerifTablesImage() {
		h := sha256.Sum256(t)
		m["table"+strconv.Itoa(i)] = h[:]
	}
	return m
}

func deepSignSchnorr(aux *[32]byte, sk *bitcoin.SchnorrPrivateKey, msg []byte) ([]byte, error) {
	return bitcoin.VerifSignSchnorr(aux, sk, msg)
}
func deepVerifySchnorrSelf(sk *bitcoin.SchnorrPrivateKey, msg, sig []byte) bool {
	return bitcoin.VerifVerifySchnorrSelf(sk, msg, sig)
}
func deepSchnorrD(sk *bitcoin.SchnorrPrivateKey) []byte { return bitcoin.VerifSchnorrD(sk) }
