//go:build verif

package main

import (
	"bufio"
	"bytes"
	"io"
	"math/big"
	"math/rand"
	"os"
	"path/filepath"
	"strings"
	"testing/iotest"

	secp256k1 "gitlab.com/yawning/secp256k1-voi"
	"gitlab.com/yawning/secp256k1-voi/secec"
	"gitlab.com/yawning/secp256k1-voi/secec/bitcoin"
)

func init() {
	register("schnorr", "C13/C14: BIP-340 key import, verification boundaries, signing byte-for-byte, key derivations", driveSchnorr)
}

func driveSchnorr(c *ctx) {
	rng := rand.New(rand.NewSource(c.seed))

	// cold start: the first library calls of this process are a key import and verifications (a verifier-only process); key,
	// message and signature come from math/big
	for i := 0; i < 2; i++ {
		pkb, m, sg := bigSchnorr(rng)
		k, err := bitcoin.NewSchnorrPublicKey(pkb)
		if err != nil {
			c.E("lib.Unexpected", "what", "a valid x-only public key was rejected: "+err.Error(), "in", hx(pkb))
			continue
		}
		out := k.Verify(m, sg)
		c.E("schnorr.Verify", "pk", hx(k.Bytes()), "msg", hx(m), "sig", hx(sg), "out", out, "vector", false)
	}
	// ---- public-key import
	newPub := func(b []byte) *bitcoin.SchnorrPublicKey {
		in := append([]byte{}, b...)
		k, err := bitcoin.NewSchnorrPublicKey(in)
		for i := range in { // the caller reuses its buffer: the key object must not move
			in[i] ^= 0xA5
		}
		if err != nil {
			c.E("schnorr.NewPub", "in", hx(b), "ok", false, "bytes", "", "point", "")
			// a rejected input is offered again at once: what an error path leaves behind must not change the answer
			if k2, err2 := bitcoin.NewSchnorrPublicKey(append([]byte{}, b...)); err2 == nil {
				c.E("schnorr.NewPub", "in", hx(b), "ok", true, "bytes", hx(k2.Bytes()), "point", hx(k2.Point().UncompressedBytes()), "second_try", true)
			}
			return nil
		}
		c.E("schnorr.NewPub", "in", hx(b), "ok", true, "bytes", hx(k.Bytes()), "point", hx(k.Point().UncompressedBytes()))
		return k
	}
	// x-coordinates next to the 64-bit limb boundaries below p (2^256 - 2^64k + i), on and off the curve, and a valid import just
	// before each rejected one
	for _, k := range []uint{64, 128, 192} {
		base := new(big.Int).Sub(big2_256, pow2(k))
		for i := int64(0); i < int64(c.scale(12, 64)); i++ {
			newPub(be32(add(base, i))[:])
			newPub(be32(add(base, -1-i))[:])
		}
	}
	for i := 0; i < c.scale(30, 500); i++ {
		x := randBig(rng, bigP)
		newPub(be32(x)[:])
		for sqrtP(yyOf(x)) == nil {
			x = add(x, 1)
		}
		newPub(be32(x)[:])
		newPub(be32(new(big.Int).Add(bigP, randBig(rng, new(big.Int).Sub(big2_256, bigP))))[:])
	}
	for _, v := range []*big.Int{big.NewInt(0), big.NewInt(1), add(bigP, -1), bigP, add(bigP, 1), add(big2_256, -1)} {
		newPub(be32(v)[:])
	}
	for _, p := range curvePointsWithSmallX(rng, 10) {
		newPub(be32(p.x)[:])
		newPub(be32(new(big.Int).Add(p.x, bigP))[:])
	}
	for _, l := range []int{0, 1, 31, 33, 64} {
		newPub(randBytes(rng, l))
	}
	// a VALID x inside a string of another length: the SEC 1 encodings of the same point (02/03 || x, 04 || x || y), a sign octet in
	// front, a zero octet behind, the x twice — an x-only key is 32 bytes and nothing else
	for i := 0; i < 4; i++ {
		P := mulG(add(randBig(rng, add(bigN, -1)), 1))
		cm, unc := P.CompressedBytes(), P.UncompressedBytes()
		x := cm[1:]
		for _, b := range [][]byte{cm, append([]byte{cm[0] ^ 1}, x...), unc, append([]byte{0}, x...), append(append([]byte{}, x...), 0), append(append([]byte{}, x...), x...), x[:31], x[1:]} {
			newPub(b)
		}
	}
	// x in [n, p): valid field elements that are not canonical scalars (the key is a FIELD element, the bound is p)
	for _, q := range pointsWithXAboveN(rng, c.scale(4, 30)) {
		if pk := newPub(be32(q.x)[:]); pk != nil {
			_ = pk
		}
	}
	newPub(be32(bigN)[:])
	newPub(be32(add(bigN, 1))[:])

	verify := func(pk *bitcoin.SchnorrPublicKey, msg, sig []byte, vector bool) {
		out := pk.Verify(msg, sig)
		c.E("schnorr.Verify", "pk", hx(pk.Bytes()), "msg", hx(msg), "sig", hx(sig), "out", out, "vector", vector, "nilmsg", msg == nil)
	}
	msgLens := []int{0, -1, 1, 31, 32, 33, 64, 65, 1000} // -1: the zero-length message as a nil slice

	// ---- signing: deep signSchnorr with chosen aux, and the public Sign with a scripted reader
	var keys []*big.Int
	keys = append(keys, big.NewInt(1), add(bigN, -1), big.NewInt(3))
	for i := 0; i < c.scale(10, 120); i++ {
		keys = append(keys, add(randBig(rng, add(bigN, -1)), 1))
	}
	auxs := [][]byte{make([]byte, 32), bytes.Repeat([]byte{0xff}, 32)}
	for ki, d := range keys {
		sk, err := bitcoin.NewSchnorrPrivateKey(be32(d)[:])
		if err != nil {
			panic(err)
		}
		pk := sk.PublicKey()
		for mi, ml := range msgLens {
			if !c.thorough() && ki > 3 && (ki+mi)%3 != 0 {
				continue
			}
			msg := randBytes(rng, ml&^(ml>>63))
			if ml < 0 {
				msg = nil
			}
			for ai := 0; ai < 3; ai++ {
				aux := randBytes(rng, 32)
				if ai < 2 {
					aux = auxs[ai]
				}
				var a32 [32]byte
				copy(a32[:], aux)
				sig, err := deepSignSchnorr(&a32, sk, msg)
				c.E("schnorr.Sign", "kind", "deep", "d", h32(d), "aux", hx(aux), "msg", hx(msg), "ok", err == nil, "sig", hx(sig),
					"pub", hx(pk.Bytes()), "verified", err == nil && pk.Verify(msg, sig), "nilmsg", msg == nil)
				var rd io.Reader = &fixedReader{append([]byte{}, aux...)}
				switch (ki + mi + ai) % 4 { // the 32 bytes may arrive in any chunking, the last chunk may come with io.EOF
				case 1:
					rd = iotest.OneByteReader(bytes.NewReader(aux))
				case 2:
					rd = iotest.DataErrReader(bytes.NewReader(aux))
				case 3:
					rd = io.MultiReader(bytes.NewReader(aux[:13]), bytes.NewReader(aux[13:]))
				}
				sig2, err2 := sk.Sign(rd, msg, nil)
				c.E("schnorr.Sign", "kind", "public", "d", h32(d), "aux", hx(aux), "msg", hx(msg), "ok", err2 == nil, "sig", hx(sig2),
					"pub", hx(pk.Bytes()), "verified", err2 == nil && pk.Verify(msg, sig2), "nilmsg", msg == nil)
				if err != nil {
					continue
				}
				verify(pk, msg, sig, false)
				c.E("schnorr.SelfVerify", "pk", hx(pk.Bytes()), "msg", hx(msg), "sig", hx(sig), "self", deepVerifySchnorrSelf(sk, msg, sig), "pubverify", pk.Verify(msg, sig))
				// boundary mutations of a valid signature
				if ai == 2 {
					m := append([]byte{}, sig...)
					m[rng.Intn(64)] ^= 1 << uint(rng.Intn(8))
					verify(pk, msg, m, false)
					c.E("schnorr.SelfVerify", "pk", hx(pk.Bytes()), "msg", hx(msg), "sig", hx(m), "self", deepVerifySchnorrSelf(sk, msg, m), "pubverify", pk.Verify(msg, m))
					verify(pk, append(append([]byte{}, msg...), 0), sig, false)
					if len(msg) > 0 {
						verify(pk, msg[:len(msg)-1], sig, false)
					}
					verify(pk, msg, sig[:63], false)
					verify(pk, msg, append(append([]byte{}, sig...), 0), false)
					verify(pk, msg, nil, false)
					// s + n does not fit; s replaced by n, n-1... ; r replaced by r + p when it fits, p, p-1, 2^256-1
					for _, sv := range []*big.Int{bigN, add(bigN, -1), add(bigN, 1), big.NewInt(0), add(big2_256, -1)} {
						verify(pk, msg, append(append([]byte{}, sig[:32]...), be32(sv)[:]...), false)
					}
					for _, rv := range []*big.Int{bigP, add(bigP, -1), add(bigP, 1), add(big2_256, -1), big.NewInt(0)} {
						verify(pk, msg, append(append([]byte{}, be32(rv)[:]...), sig[32:]...), false)
					}
				}
			}
		}
		// every message length up to a few hash blocks beyond anything a stack buffer would hold (round 8): the challenge and nonce hashes
		// cover the WHOLE message whatever its length, for two keys (the first is d = 1, the second has an odd-y public point or not as it comes)
		if ki == 0 || ki == 4 {
			top := 330
			if c.thorough() {
				top = 700
			}
			for ml := 2; ml <= top; ml++ {
				if ki == 4 && !c.thorough() && ml%3 != 0 {
					continue
				}
				msg := randBytes(rng, ml)
				aux := randBytes(rng, 32)
				sig, err := sk.Sign(&fixedReader{append([]byte{}, aux...)}, msg, nil)
				c.E("schnorr.Sign", "kind", "public", "d", h32(d), "aux", hx(aux), "msg", hx(msg), "ok", err == nil, "sig", hx(sig),
					"pub", hx(pk.Bytes()), "verified", err == nil && pk.Verify(msg, sig), "nilmsg", false)
				if err == nil {
					verify(pk, msg, sig, false)
					m2 := append([]byte{}, msg...)
					m2[len(m2)-1] ^= 1 // the last byte matters
					verify(pk, m2, sig, false)
				}
			}
		}
		// a failing entropy reader: no signature
		sigf, errf := sk.Sign(&fixedReader{randBytes(rng, ki%32)}, []byte("m"), nil)
		c.E("schnorr.Sign", "kind", "reader_fail", "d", h32(d), "aux", "", "msg", hx([]byte("m")), "ok", errf == nil, "sig", hx(sigf), "pub", hx(pk.Bytes()), "verified", false)

		// constructed rejections: R with odd y (un-negated nonce), R at infinity (s = e d)
		dneg := new(big.Int).SetBytes(deepSchnorrD(sk))
		for t := 0; t < c.scale(2, 6); t++ {
			msg := randBytes(rng, msgLens[(ki+t)%len(msgLens)]&^(msgLens[(ki+t)%len(msgLens)]>>63))
			k := add(randBig(rng, add(bigN, -1)), 1)
			R := mulG(k)
			if R.IsYOdd() == 0 {
				k = new(big.Int).Sub(bigN, k)
				R = mulG(k)
			}
			rx, _ := R.XBytes()
			e := new(big.Int).SetBytes(taggedHash("BIP0340/challenge", rx, pk.Bytes(), msg))
			e.Mod(e, bigN)
			s := new(big.Int).Mod(new(big.Int).Add(k, new(big.Int).Mul(e, dneg)), bigN)
			verify(pk, msg, append(append([]byte{}, rx...), be32(s)[:]...), false) // odd-y R: must be rejected
			// R = infinity: any r that is a field element, s = e d
			rr := be32(randBig(rng, bigP))[:]
			e2 := new(big.Int).SetBytes(taggedHash("BIP0340/challenge", rr, pk.Bytes(), msg))
			e2.Mod(e2, bigN)
			s2 := new(big.Int).Mod(new(big.Int).Mul(e2, dneg), bigN)
			verify(pk, msg, append(append([]byte{}, rr...), be32(s2)[:]...), false)
		}

		// key objects are immutable: scribble over everything handed out or passed in, then use the key again
		{
			var a32 [32]byte
			copy(a32[:], auxs[ki%2])
			m := []byte("immutability probe")
			sig1, _ := deepSignSchnorr(&a32, sk, m)
			b1, sb1, p1 := hx(pk.Bytes()), hx(sk.Bytes()), hx(pk.Point().UncompressedBytes())
			for _, sl := range [][]byte{pk.Bytes(), sk.Bytes(), sk.PublicKey().Bytes()} {
				for i := range sl {
					sl[i] = byte(0x42 + i)
				}
			}
			sc := sk.Scalar()
			sc.Add(sc, sc)
			pt := pk.Point()
			pt.Double(pt)
			in := append([]byte{}, pk.Bytes()...)
			pk2, err := bitcoin.NewSchnorrPublicKey(in)
			for i := range in {
				in[i] = 0
			}
			src := sk.PublicKey().Point()
			pk3, _ := bitcoin.NewSchnorrPublicKeyFromPoint(src)
			src.Add(src, src)
			sig2, _ := deepSignSchnorr(&a32, sk, m)
			ok2 := err == nil && pk2.Verify(m, sig1) && hx(pk2.Bytes()) == b1 && pk3 != nil && hx(pk3.Bytes()) == b1 && pk3.Verify(m, sig1)
			c.E("schnorr.Immutable", "d", h32(d), "bytes1", b1, "bytes2", hx(pk.Bytes()), "sk1", sb1, "sk2", hx(sk.Bytes()), "point1", p1,
				"point2", hx(pk.Point().UncompressedBytes()), "sig1", hx(sig1), "sig2", hx(sig2), "copies_ok", ok2, "verify_after", pk.Verify(m, sig1))
		}

		// key derivations
		ek := privFrom(d)
		spk := bitcoin.NewSchnorrPublicKeyFromECDSA(ek.PublicKey())
		ssk := bitcoin.NewSchnorrPrivateKeyFromECDSA(ek)
		c.E("schnorr.FromECDSA", "d", h32(d), "bytes", hx(ssk.PublicKey().Bytes()), "point", hx(ssk.PublicKey().Point().UncompressedBytes()),
			"pubfromecdsa", hx(spk.Bytes()), "pubfromecdsa_point", hx(spk.Point().UncompressedBytes()), "skbytes", hx(ssk.Bytes()), "dneg", hx(deepSchnorrD(ssk)))
		{ // deriving from the same ECDSA key object AGAIN leaves the keys derived earlier (and the new ones) exactly as specified
			ssk2 := bitcoin.NewSchnorrPrivateKeyFromECDSA(ek)
			spk2 := bitcoin.NewSchnorrPublicKeyFromECDSA(ek.PublicKey())
			c.E("schnorr.FromECDSA", "d", h32(d), "bytes", hx(ssk.PublicKey().Bytes()), "point", hx(ssk.PublicKey().Point().UncompressedBytes()),
				"pubfromecdsa", hx(spk.Bytes()), "pubfromecdsa_point", hx(spk.Point().UncompressedBytes()), "skbytes", hx(ssk.Bytes()), "dneg", hx(deepSchnorrD(ssk)), "again", 1)
			c.E("schnorr.FromECDSA", "d", h32(d), "bytes", hx(ssk2.PublicKey().Bytes()), "point", hx(ssk2.PublicKey().Point().UncompressedBytes()),
				"pubfromecdsa", hx(spk2.Bytes()), "pubfromecdsa_point", hx(spk2.Point().UncompressedBytes()), "skbytes", hx(ssk2.Bytes()), "dneg", hx(deepSchnorrD(ssk2)), "again", 2)
			var a32 [32]byte
			m := []byte("derived-twice")
			if sg, err := deepSignSchnorr(&a32, ssk2, m); err == nil {
				verify(ssk.PublicKey(), m, sg, false)
				verify(spk, m, sg, false)
			}
		}
		{ // the key derived from the ECDSA PUBLIC key must verify what the key derived from the ECDSA PRIVATE key signs
			var a32 [32]byte
			m := []byte("from-ecdsa")
			if sg, err := deepSignSchnorr(&a32, ssk, m); err == nil {
				verify(spk, m, sg, false)
			}
		}
		decoded := func(b []byte) *secp256k1.Point { // a Z = 1 representative straight from the decoder
			p, err := secp256k1.NewPointFromBytes(b)
			if err != nil {
				panic(err)
			}
			return p
		}
		for _, p := range []*secp256k1.Point{ek.PublicKey().Point(), rep(ek.PublicKey().Point(), add(randBig(rng, add(bigP, -1)), 1)),
			secp256k1.NewIdentityPoint().Negate(ek.PublicKey().Point()),
			decoded(ek.PublicKey().CompressedBytes()), decoded(ek.PublicKey().Bytes()),
			decoded(secp256k1.NewIdentityPoint().Negate(ek.PublicKey().Point()).CompressedBytes())} {
			pre := hx(p.UncompressedBytes())
			k, err := bitcoin.NewSchnorrPublicKeyFromPoint(p)
			if post := hx(p.UncompressedBytes()); post != pre { // the point stays the caller's
				c.E("lib.Unexpected", "what", "NewSchnorrPublicKeyFromPoint changed the caller's point", "before", pre, "after", post)
			}
			b, pt := "", ""
			if err == nil {
				b, pt = hx(k.Bytes()), hx(k.Point().UncompressedBytes())
			}
			c.E("schnorr.FromPoint", "p", ptRaw(p), "ok", err == nil, "bytes", b, "point", pt)
		}
	}
	for _, p := range []*secp256k1.Point{secp256k1.NewIdentityPoint(), idRep(big.NewInt(4))} {
		_, err := bitcoin.NewSchnorrPublicKeyFromPoint(p)
		c.E("schnorr.FromPoint", "p", ptRaw(p), "ok", err == nil, "bytes", "", "point", "")
	}

	// ---- the official BIP-340 vectors re-driven
	if f, err := os.Open(filepath.Join(c.repo, "secec", "bitcoin", "testdata", "bip-0340-test-vectors.csv")); err == nil {
		sc := bufio.NewScanner(f)
		first := true
		for sc.Scan() {
			if first {
				first = false
				continue
			}
			p := strings.Split(sc.Text(), ",")
			if len(p) < 7 {
				continue
			}
			pkb, e1 := hexDecode(strings.ToLower(p[2]))
			msg, e2 := hexDecode(strings.ToLower(p[4]))
			sig, e3 := hexDecode(strings.ToLower(p[5]))
			if e1 != nil || e2 != nil || e3 != nil {
				continue
			}
			if pk := newPub(pkb); pk != nil {
				verify(pk, msg, sig, true)
			}
			if p[1] != "" {
				skb, _ := hexDecode(strings.ToLower(p[1]))
				aux, _ := hexDecode(strings.ToLower(p[3]))
				if sk, err := bitcoin.NewSchnorrPrivateKey(skb); err == nil && len(aux) == 32 {
					var a32 [32]byte
					copy(a32[:], aux)
					s, err := deepSignSchnorr(&a32, sk, msg)
					c.E("schnorr.Sign", "kind", "deep", "d", hx(skb), "aux", hx(aux), "msg", hx(msg), "ok", err == nil, "sig", hx(s),
						"pub", hx(sk.PublicKey().Bytes()), "verified", err == nil && sk.PublicKey().Verify(msg, s))
				}
			}
		}
		_ = f.Close()
	}
	_ = secec.PrivateKeySize
}
