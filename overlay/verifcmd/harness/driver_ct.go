//go:build verif && !verifpub

package main

import (
	"bytes"
	"crypto/sha256"
	"encoding/binary"
	"math/big"
	"math/rand"
	"os"
	"runtime/coverage"

	secp256k1 "gitlab.com/yawning/secp256k1-voi"
	"gitlab.com/yawning/secp256k1-voi/internal/field"
	"gitlab.com/yawning/secp256k1-voi/secec"
	"gitlab.com/yawning/secp256k1-voi/secec/bitcoin"
)

func init() {
	register("ct", "C17: per-call basic-block counter vectors of secret-handling operations over families of secrets (needs a -cover build)", driveCT)
}

// counterPayload strips the file header, the string table and the args section from a counter-data blob
// (internal/coverage/defs.go: 32-byte CounterFileHeader, 16-byte CounterSegmentHeader, footer of 16 bytes).
func counterPayload(b []byte) []byte {
	if len(b) < 32+16+16 {
		return b
	}
	strTabLen := int(binary.LittleEndian.Uint32(b[32+8:]))
	argsLen := int(binary.LittleEndian.Uint32(b[32+12:]))
	off := 32 + 16 + strTabLen + argsLen
	for off%4 != 0 {
		off++
	}
	if off > len(b)-16 {
		return b
	}
	return b[off : len(b)-16]
}

// observe clears the counters, runs f and returns the digest of the counter payload.
func observe(f func()) string {
	if err := coverage.ClearCounters(); err != nil {
		fatal("ct: this driver needs a coverage-instrumented build: " + err.Error())
	}
	f()
	var buf bytes.Buffer
	if err := coverage.WriteCounters(&buf); err != nil {
		fatal("ct: WriteCounters: " + err.Error())
	}
	h := sha256.Sum256(counterPayload(buf.Bytes()))
	return hx(h[:16])
}

type secretVal struct {
	v   *big.Int
	cls string
}

func secretFamily(rng *rand.Rand, n int) []secretVal {
	half := new(big.Int).Rsh(add(bigN, -1), 1)
	out := []secretVal{
		{big.NewInt(1), "one"}, {add(bigN, -1), "nm1"},
		{bi("0000000000000000000000000000000100000000000000000000000000000001"), "zero_heavy"},
		{bi("0000f00000000000000000000000000000000000000000000000000000000f00"), "zero_heavy"},
		{bi("fffffffffffffffffffffffffffffffebaaedce6af48a03bbfd25e8cd0364000"), "f_heavy"},
		{bi("0fffffffffffffffffffffffffffffffffffffffffffffffffffffffffffffff"), "f_heavy"},
		{add(half, 0), "pos_half"}, {add(half, 1), "neg_half"}, {big.NewInt(2), "one"},
	}
	// secrets that share their top 1, 2, 3 limbs with a constant a comparison is made against ((n-1)/2 and n), the rest random (round 9):
	// a limb-wise shortcut in front of a borrow chain takes its slow path only there
	for _, cst := range []*big.Int{half, bigN} {
		for keep := uint(1); keep <= 3; keep++ {
			low := 64 * (4 - keep)
			v := new(big.Int).Lsh(new(big.Int).Rsh(cst, low), low)
			v.Add(v, randBig(rng, pow2(low-1)))
			if v.Sign() > 0 && v.Cmp(bigN) < 0 {
				out = append(out, secretVal{v, "random"})
			}
		}
	}
	for _, s := range steeredScalars(rng, 0) { // edge values, extreme split halves, rounding-bit flips, limb carries in the rounded quotients
		if s.Sign() != 0 {
			out = append(out, secretVal{s, "random"})
		}
	}
	for i := 0; i < n; i++ {
		out = append(out, secretVal{add(randBig(rng, add(bigN, -1)), 1), "random"})
	}
	return out
}

func driveCT(c *ctx) {
	rng := rand.New(rand.NewSource(c.seed))
	c.nextTrace()
	secrets := secretFamily(rng, c.scale(8, 60))
	// classify keys by the parity of their public point for the key / signing operations
	yClass := func(d *big.Int, cls string) string {
		if cls != "random" {
			return cls
		}
		if mulG(d).IsYOdd() == 1 {
			return "odd_y"
		}
		return "even_y"
	}
	emit := func(group, op, pub, cls string, control bool, f func()) {
		c.E("ct.Obs", "build", buildName(), "group", group, "op", op, "pub", pub, "cls", cls, "control", control, "obs", observe(f))
	}
	pubPts := []*secp256k1.Point{secp256k1.NewGeneratorPoint(), rep(mulG(big.NewInt(0xabcdef)), big.NewInt(12345))}
	peer := privFrom(big.NewInt(0x1234567)).PublicKey()
	digest := sha256Sum([]byte("ct-digest"))
	entropy := sha256Sum([]byte("ct-entropy"))
	var aux [32]byte
	copy(aux[:], sha256Sum([]byte("ct-aux")))
	msg := []byte("ct message of some length")
	fixedScalar := scFrom(big.NewInt(0x77665544))

	var sink *secp256k1.Point
	// scalar and field arithmetic on a secret VALUE (zero included: intermediate secrets can be anything)
	scalarFieldOps := func(svIdx int, sv secretVal) {
		d := sv.v
		s := scFrom(d)
		// ---- scalar arithmetic on secret scalars
		emit("scalar", "sc.Invert", "-", sv.cls, false, func() { secp256k1.NewScalar().Invert(s) })
		emit("scalar", "sc.Multiply", "-", sv.cls, false, func() { secp256k1.NewScalar().Multiply(s, fixedScalar) })
		emit("scalar", "sc.Add", "-", sv.cls, false, func() { secp256k1.NewScalar().Add(s, fixedScalar) })
		emit("scalar", "sc.Sum+Product", "-", sv.cls, false, func() { // the variadic folds, the secret in every position
			secp256k1.NewScalar().Sum(s, fixedScalar, s)
			secp256k1.NewScalar().Product(s, fixedScalar, fixedScalar)
			secp256k1.NewScalar().Product(fixedScalar, s, fixedScalar)
			secp256k1.NewScalar().Product(fixedScalar, fixedScalar, s)
		})
		emit("scalar", "sc.Sub+Sq+CSel", "-", sv.cls, false, func() {
			t := secp256k1.NewScalar().Subtract(fixedScalar, s)
			t.Square(t)
			t.ConditionalSelect(t, s, s.IsZero())
			_ = secp256k1.NewScalarFrom(t).Set(s)
		})
		emit("scalar", "sc.Negate+IsGtHalf+CondNeg", "-", sv.cls, false, func() {
			t := secp256k1.NewScalar().Negate(s)
			t.ConditionalNegate(t, t.IsGreaterThanHalfN())
			_ = t.IsZero() | t.Equal(s)
		})
		fe, _ := field.NewElement().SetBytes(be32(d))
		// equality of two DIFFERENT secrets: which internal limb is the first to differ is a fact about the secrets
		{
			m := s.VerifMont()
			m[svIdx%4] ^= 1 << uint(7+svIdx%50)
			other := secp256k1.NewScalar().VerifSetMont(m)
			emit("scalar", "sc.Equal.unequal", "-", sv.cls, false, func() { _ = s.Equal(other) | other.Equal(s) })
			fm := fe.VerifMont()
			fm[svIdx%4] ^= 1 << uint(3+svIdx%50)
			fother := field.NewElement().VerifSetMont(fm)
			emit("field", "fe.Equal.unequal", "-", sv.cls, false, func() { _ = fe.Equal(fother) | fother.Equal(fe) })
		}
		emit("scalar", "sc.Bytes+SetBytes", "-", sv.cls, false, func() {
			var b [32]byte
			copy(b[:], s.Bytes())
			_, _ = secp256k1.NewScalar().SetBytes(&b)
		})
		// ---- field arithmetic on secret field elements (a scalar's bytes reduced into the field)
		emit("field", "fe.Invert", "-", sv.cls, false, func() { field.NewElement().Invert(fe) })
		emit("field", "fe.Sqrt", "-", sv.cls, false, func() { _, _ = field.NewElement().Sqrt(fe) })
		emit("field", "fe.Mul+Sqr+Neg+CSel", "-", sv.cls, false, func() {
			t := field.NewElement().Multiply(fe, fe)
			t.Square(t).Negate(t)
			t.ConditionalSelect(t, fe, t.IsOdd())
			_ = t.IsZero() | t.Equal(fe)
			_ = t.Bytes()
		})
	}
	scalarFieldOps(len(secrets), secretVal{big.NewInt(0), "zero"})
	for svIdx, sv := range secrets {
		d := sv.v
		s := scFrom(d)
		scalarFieldOps(svIdx, sv)
		// ---- multiplications with a secret scalar
		for pi, P := range pubPts {
			pub := "P" + string(rune('0'+pi))
			emit("mult", "ScalarMult", pub, sv.cls, false, func() { sink = secp256k1.NewIdentityPoint().ScalarMult(s, P) })
			emit("msm", "MultiScalarMult2", pub, sv.cls, false, func() {
				sink = secp256k1.NewIdentityPoint().MultiScalarMult([]*secp256k1.Scalar{s, fixedScalar}, []*secp256k1.Point{P, pubPts[0]})
			})
			emit("msm", "MultiScalarMultAllSecret", pub, sv.cls, false, func() { // every scalar of the batch is (derived from) the secret: all short / all wide together
				s2 := secp256k1.NewScalar().Add(s, s)
				s3 := secp256k1.NewScalar().Add(s2, secp256k1.NewScalarFromUint64(1))
				sink = secp256k1.NewIdentityPoint().MultiScalarMult([]*secp256k1.Scalar{s, s2, s3}, []*secp256k1.Point{P, pubPts[0], pubPts[1]})
			})
			emit("msm", "MultiScalarMult1", pub, sv.cls, false, func() {
				sink = secp256k1.NewIdentityPoint().MultiScalarMult([]*secp256k1.Scalar{s}, []*secp256k1.Point{P})
			})
			// negative controls: the documented variable-time twins on the same secrets
			emit("mult", "scalarMultVartimeGLV", pub, sv.cls, true, func() { sink = secp256k1.NewIdentityPoint().VerifScalarMultVartimeGLV(s, P) })
			emit("msm", "MultiScalarMultVartime2", pub, sv.cls, true, func() {
				sink = secp256k1.NewIdentityPoint().MultiScalarMultVartime([]*secp256k1.Scalar{s, fixedScalar}, []*secp256k1.Point{P, pubPts[0]})
			})
		}
		emit("basemult", "ScalarBaseMult", "-", sv.cls, false, func() { sink = secp256k1.NewIdentityPoint().ScalarBaseMult(s) })
		emit("basemult", "scalarBaseMultVartime", "-", sv.cls, true, func() { sink = secp256k1.NewIdentityPoint().VerifScalarBaseMultVartime(s) })
		// ---- key import / public-key derivation / ECDH / signing with a secret key
		kcls := yClass(d, sv.cls)
		keyBytes := be32(d)[:]
		var priv *secec.PrivateKey
		emit("key", "NewPrivateKey", "-", kcls, false, func() { priv, _ = secec.NewPrivateKey(keyBytes) })
		emit("key", "NewPrivateKeyFromScalar", "-", kcls, false, func() { _, _ = secec.NewPrivateKeyFromScalar(s) })
		// the SECOND of two consecutive imports: whether the previous import was of the same secret or of another one is itself
		// a fact about the secrets, so the two situations share one operation label
		{
			prev := keyBytes
			if svIdx%2 == 1 {
				prev = be32(add(d, 1))[:]
				if add(d, 1).Cmp(bigN) >= 0 {
					prev = be32(big.NewInt(5))[:]
				}
			}
			_, _ = secec.NewPrivateKey(prev)
			emit("key", "NewPrivateKey.second", "-", kcls, false, func() { _, _ = secec.NewPrivateKey(keyBytes) })
			_, _ = bitcoin.NewSchnorrPrivateKey(prev)
			emit("schnorr", "NewSchnorrPrivateKey.second", "-", kcls, false, func() { _, _ = bitcoin.NewSchnorrPrivateKey(keyBytes) })
		}
		emit("key", "Priv.Bytes+Scalar", "-", kcls, false, func() { _ = priv.Bytes(); _ = priv.Scalar() })
		emit("ecdh", "ECDH", "peer", kcls, false, func() { _, _ = priv.ECDH(peer) })
		emit("sign", "SignRaw.hedged", "digest", kcls, false, func() { _, _, _, _ = priv.SignRaw(&fixedReader{append([]byte{}, entropy...)}, digest) })
		emit("sign", "SignRaw.rfc6979", "digest", kcls, false, func() { _, _, _, _ = priv.SignRaw(secec.RFC6979SHA256(), digest) })
		var sk *bitcoin.SchnorrPrivateKey
		emit("schnorr", "NewSchnorrPrivateKey", "-", kcls, false, func() { sk, _ = bitcoin.NewSchnorrPrivateKey(keyBytes) })
		emit("schnorr", "NewSchnorrPrivateKeyFromECDSA", "-", kcls, false, func() { _ = bitcoin.NewSchnorrPrivateKeyFromECDSA(priv) })
		emit("schnorr", "signSchnorr", "aux+msg", kcls, false, func() { _, _ = bitcoin.VerifSignSchnorr(&aux, sk, msg) })
		emit("schnorr", "Schnorr.Sign", "aux+msg", kcls, false, func() { _, _ = sk.Sign(&fixedReader{append([]byte{}, aux[:]...)}, msg, nil) })
	}
	_ = sink
	c.sticky = false

	// ---- which functions do the secret-handling operations enter at all?  (read by the orchestrator with `go tool covdata func`)
	if dir := os.Getenv("VERIF_COVDIR"); dir != "" {
		_ = os.MkdirAll(dir, 0o755)
		if err := coverage.ClearCounters(); err != nil {
			fatal(err)
		}
		for _, sv := range secrets[:8] {
			s := scFrom(sv.v)
			sink = secp256k1.NewIdentityPoint().ScalarMult(s, pubPts[1])
			sink = secp256k1.NewIdentityPoint().ScalarBaseMult(s)
			sink = secp256k1.NewIdentityPoint().MultiScalarMult([]*secp256k1.Scalar{s, fixedScalar}, []*secp256k1.Point{pubPts[1], pubPts[0]})
			priv, _ := secec.NewPrivateKey(be32(sv.v)[:])
			_, _ = priv.ECDH(peer)
			_, _, _, _ = priv.SignRaw(&fixedReader{append([]byte{}, entropy...)}, digest)
			_, _, _, _ = priv.SignRaw(secec.RFC6979SHA256(), digest)
			_, _ = priv.Sign(&fixedReader{append([]byte{}, entropy...)}, digest, &secec.ECDSAOptions{SelfVerify: true})
			sk, _ := bitcoin.NewSchnorrPrivateKey(be32(sv.v)[:])
			_, _ = sk.Sign(&fixedReader{append([]byte{}, aux[:]...)}, msg, nil)
			_ = secp256k1.NewScalar().Invert(s)
		}
		if err := coverage.WriteMetaDir(dir); err != nil {
			fatal(err)
		}
		if err := coverage.WriteCountersDir(dir); err != nil {
			fatal(err)
		}
	}
}
