//go:build verif

package main

import (
	"bytes"
	"encoding/json"
	"math/big"
	"math/rand"
	"os"
	"path/filepath"

	"gitlab.com/yawning/secp256k1-voi/secec"
	"gitlab.com/yawning/secp256k1-voi/secec/bitcoin"
)

func init() {
	register("wire", "C12: DER / compact / BIP-66 / SPKI parsers on structural deviations and random bytes", driveWire)
}

// ---- a tiny DER writer with deliberate deviations

type lenForm int

const (
	lenShort lenForm = iota
	lenLong81
	lenLong82
	lenIndefinite
	lenPlus1
	lenMinus1
)

func tlv(tag byte, content []byte, lf lenForm) []byte {
	n := len(content)
	var hdr []byte
	switch lf {
	case lenShort:
		hdr = []byte{tag, byte(n)}
	case lenLong81:
		hdr = []byte{tag, 0x81, byte(n)}
	case lenLong82:
		hdr = []byte{tag, 0x82, byte(n >> 8), byte(n)}
	case lenIndefinite:
		return append(append([]byte{tag, 0x80}, content...), 0, 0)
	case lenPlus1:
		hdr = []byte{tag, byte(n + 1)}
	case lenMinus1:
		hdr = []byte{tag, byte(n - 1)}
	}
	return append(hdr, content...)
}

type intForm int

const (
	intMinimal intForm = iota
	intExtraZero
	intNegative // drop the required leading zero / set the top bit
	intEmpty
	intPad33 // left-pad to 33 bytes with zeros
	intTwoZeros
)

func derIntBody(v *big.Int, f intForm) []byte {
	b := v.Bytes()
	if len(b) == 0 {
		b = []byte{0}
	}
	min := b
	if b[0]&0x80 != 0 {
		min = append([]byte{0}, b...)
	}
	switch f {
	case intMinimal:
		return min
	case intExtraZero:
		return append([]byte{0}, min...)
	case intTwoZeros:
		return append([]byte{0, 0}, min...)
	case intNegative:
		if b[0]&0x80 != 0 {
			return b // missing the leading zero: reads as negative
		}
		c := append([]byte{}, b...)
		c[0] |= 0x80
		return c
	case intEmpty:
		return nil
	case intPad33:
		out := make([]byte, 33)
		copy(out[33-len(b):], b)
		return out
	}
	return min
}

func driveWire(c *ctx) {
	rng := rand.New(rand.NewSource(c.seed))
	half := new(big.Int).Rsh(add(bigN, -1), 1)

	derParse := func(b []byte, random bool, cls ...string) {
		var (
			ok      bool
			rh, sh  string
			rebuilt string
		)
		pn := catch(func() {
			r, s, err := secec.ParseASN1Signature(append([]byte{}, b...))
			if err != nil { // a rejected input is offered again at once: same answer
				r, s, err = secec.ParseASN1Signature(append([]byte{}, b...))
			}
			if err == nil {
				ok = true
				rh, sh = scHex(r), scHex(s)
				rebuilt = hx(secec.BuildASN1Signature(r, s))
			}
		})
		if len(cls) > 0 {
			c.E("der.Parse", "in", hx(b), "ok", ok, "r", rh, "s", sh, "rebuilt", rebuilt, "panic", pn, "random", random, "cls", cls[0])
			return
		}
		c.E("der.Parse", "in", hx(b), "ok", ok, "r", rh, "s", sh, "rebuilt", rebuilt, "panic", pn, "random", random)
	}
	bip := func(b []byte) {
		var out bool
		pn := catch(func() { out = bitcoin.IsValidSignatureEncodingBIP0066(append([]byte{}, b...)) })
		c.E("bip66", "in", hx(b), "out", out, "panic", pn)
	}
	cmp := func(b []byte, withv bool) {
		var (
			ok          bool
			rh, sh, reb string
			v           int
		)
		pn := catch(func() {
			if withv {
				r, s, vv, err := secec.ParseCompactRecoverableSignature(append([]byte{}, b...))
				if err == nil {
					ok, rh, sh, v = true, scHex(r), scHex(s), int(vv)
					reb = hx(secec.BuildCompactRecoverableSignature(r, s, vv))
				}
			} else {
				r, s, err := secec.ParseCompactSignature(append([]byte{}, b...))
				if err == nil {
					ok, rh, sh = true, scHex(r), scHex(s)
					reb = hx(secec.BuildCompactSignature(r, s))
				}
			}
		})
		c.E("cmp.Parse", "in", hx(b), "withv", withv, "ok", ok, "r", rh, "s", sh, "v", v, "rebuilt", reb, "panic", pn)
	}
	var keptSpki []keptSig
	spki := func(b []byte, cls string) {
		var (
			ok       bool
			unc, reb string
		)
		var unc2, reb2, pt2 string
		pn := catch(func() {
			in := append([]byte{}, b...)
			k, err := secec.ParseASN1PublicKey(in)
			if err != nil { // offered again at once
				in = append([]byte{}, b...)
				k, err = secec.ParseASN1PublicKey(in)
			}
			if err == nil {
				ok, unc, reb = true, hx(k.Bytes()), hx(k.ASN1Bytes())
				// the caller reuses its input buffer (and scribbles over what it was handed): the key object must not move
				for i := range in {
					in[i] ^= 0xA5
				}
				for _, sl := range [][]byte{k.Bytes(), k.ASN1Bytes(), k.CompressedBytes()} {
					for i := range sl {
						sl[i] = 0x5A
					}
				}
				unc2, reb2, pt2 = hx(k.Bytes()), hx(k.ASN1Bytes()), hx(k.Point().UncompressedBytes())
			}
		})
		c.E("spki.Parse", "in", hx(b), "ok", ok, "unc", unc, "rebuilt", reb, "panic", pn, "cls", cls, "unc2", unc2, "reb2", reb2, "pt2", pt2)
		// encodings handed out earlier are the caller's: later encoding calls (of other keys) never change them
		for _, k := range keptSpki {
			c.E("sig.Stable", "then", k.then, "now", hx(k.sig), "later_enc", "spki")
		}
		if ok {
			if k2, err := secec.ParseASN1PublicKey(append([]byte{}, b...)); err == nil {
				out := k2.ASN1Bytes()
				keptSpki = append(keptSpki, keptSig{out, hx(out)})
				if len(keptSpki) > 2 {
					keptSpki = keptSpki[1:]
				}
			}
		}
	}

	// ---- values
	vals := []*big.Int{big.NewInt(0), big.NewInt(1), big.NewInt(127), big.NewInt(128), big.NewInt(255), big.NewInt(256),
		add(bigN, -1), bigN, add(bigN, 1), add(big2_256, -1), half, add(half, 1), pow2(255), add(pow2(255), -1), pow2(248), add(pow2(248), -1)}
	for i := 0; i < c.scale(6, 60); i++ {
		vals = append(vals, randBig(rng, bigN))
	}
	// values >= n whose lower 64-bit limbs are BELOW n's (a limb-by-limb comparison gets these wrong), and anywhere in [n, 2^256)
	vals = append(vals, new(big.Int).Sub(big2_256, pow2(64)), add(new(big.Int).Sub(big2_256, pow2(128)), 1), add(new(big.Int).Add(bigN, pow2(64)), -1),
		new(big.Int).Sub(new(big.Int).Add(bigN, pow2(128)), pow2(64)))
	for i := 0; i < c.scale(3, 20); i++ {
		vals = append(vals, new(big.Int).Add(bigN, randBig(rng, new(big.Int).Sub(big2_256, bigN))))
	}
	// build-then-parse on every canonical pair from a subset
	for i, r := range vals {
		for j, s := range vals {
			if r.Sign() == 0 || s.Sign() == 0 || r.Cmp(bigN) >= 0 || s.Cmp(bigN) >= 0 {
				continue
			}
			if (i+j)%3 != 0 && !c.thorough() {
				continue
			}
			out := secec.BuildASN1Signature(scFrom(r), scFrom(s))
			r2, s2, err := secec.ParseASN1Signature(out)
			c.E("der.Build", "r", h32(r), "s", h32(s), "out", hx(out), "reparsed", err == nil && r2.Equal(scFrom(r)) == 1 && s2.Equal(scFrom(s)) == 1)
			derParse(out, false)
			bip(append(append([]byte{}, out...), 1))
			bip(out)
			cmp(append(append([]byte{}, be32(r)[:]...), be32(s)[:]...), false)
			cmp(append(append(append([]byte{}, be32(r)[:]...), be32(s)[:]...), byte(i)), true)
		}
	}
	// every magnitude shape through the builders (round 10): z leading zero bytes (0..31) followed by a byte below / at / above the sign
	// bit, as r and as s: an encoder that strips zeros by bytes, words or limbs has a different special case at each
	for z := 0; z < 32; z++ {
		for _, lead := range []byte{0x01, 0x7f, 0x80, 0xff} {
			b := randBytes(rng, 32)
			for i := 0; i < z; i++ {
				b[i] = 0
			}
			b[z] = lead
			v := new(big.Int).SetBytes(b)
			if v.Cmp(bigN) >= 0 {
				v.Rsh(v, 1)
			}
			other := add(randBig(rng, add(bigN, -1)), 1)
			for _, pr := range [][2]*big.Int{{v, other}, {other, v}, {v, v}} {
				out := secec.BuildASN1Signature(scFrom(pr[0]), scFrom(pr[1]))
				r2, s2, err := secec.ParseASN1Signature(out)
				c.E("der.Build", "r", h32(pr[0]), "s", h32(pr[1]), "out", hx(out), "reparsed", err == nil && r2.Equal(scFrom(pr[0])) == 1 && s2.Equal(scFrom(pr[1])) == 1)
				derParse(out, false)
			}
		}
	}
	// ---- every single and pairwise structural deviation
	seqTags := []byte{0x30, 0x31, 0x10, 0xA0}
	intTags := []byte{0x02, 0x03, 0x82}
	lfs := []lenForm{lenShort, lenLong81, lenLong82, lenIndefinite, lenPlus1, lenMinus1}
	ifs := []intForm{intMinimal, intExtraZero, intNegative, intEmpty, intPad33, intTwoZeros}
	type shape struct {
		seqTag, rTag, sTag byte
		seqLen, rLen, sLen lenForm
		rForm, sForm       intForm
		trailIn, trailOut  int // 0 none, 1 one zero byte, 2 a third INTEGER / junk
		missingS           bool
	}
	base := shape{0x30, 2, 2, lenShort, lenShort, lenShort, intMinimal, intMinimal, 0, 0, false}
	build := func(sh shape, r, s *big.Int) []byte {
		body := tlv(sh.rTag, derIntBody(r, sh.rForm), sh.rLen)
		if !sh.missingS {
			body = append(body, tlv(sh.sTag, derIntBody(s, sh.sForm), sh.sLen)...)
		}
		switch sh.trailIn {
		case 1:
			body = append(body, 0)
		case 2:
			body = append(body, tlv(2, []byte{1}, lenShort)...)
		}
		out := tlv(sh.seqTag, body, sh.seqLen)
		switch sh.trailOut {
		case 1:
			out = append(out, 0)
		case 2:
			out = append(out, 0x05, 0x00)
		}
		return out
	}
	var shapes []shape
	addDev := func(f func(*shape)) {
		sh := base
		f(&sh)
		shapes = append(shapes, sh)
	}
	var devs []func(*shape)
	for _, t := range seqTags[1:] {
		t := t
		devs = append(devs, func(s *shape) { s.seqTag = t })
	}
	for _, t := range intTags[1:] {
		t := t
		devs = append(devs, func(s *shape) { s.rTag = t }, func(s *shape) { s.sTag = t })
	}
	for _, lf := range lfs[1:] {
		lf := lf
		devs = append(devs, func(s *shape) { s.seqLen = lf }, func(s *shape) { s.rLen = lf }, func(s *shape) { s.sLen = lf })
	}
	for _, f := range ifs[1:] {
		f := f
		devs = append(devs, func(s *shape) { s.rForm = f }, func(s *shape) { s.sForm = f })
	}
	devs = append(devs, func(s *shape) { s.trailIn = 1 }, func(s *shape) { s.trailIn = 2 }, func(s *shape) { s.trailOut = 1 },
		func(s *shape) { s.trailOut = 2 }, func(s *shape) { s.missingS = true })
	shapes = append(shapes, base)
	for _, d := range devs {
		addDev(d)
	}
	for i, d1 := range devs {
		for j, d2 := range devs {
			if j <= i {
				continue
			}
			if !c.thorough() && (i*31+j)%5 != int(c.seed%5) {
				continue
			}
			d1, d2 := d1, d2
			addDev(func(s *shape) { d1(s); d2(s) })
		}
	}
	for si, sh := range shapes {
		for k := 0; k < 3; k++ {
			r, s := vals[(si+k)%len(vals)], vals[(si*7+k*3+1)%len(vals)]
			b := build(sh, r, s)
			derParse(b, false)
			bip(append(append([]byte{}, b...), 0x01))
			if k == 0 {
				bip(b)
			}
		}
	}
	// ---- pipeline C: the shape model's own enumeration (Shape_Wire.tla: base, every single and every pair of deviations)
	sigShapes, spkiShapes := loadWireShapes(os.Getenv("VERIF_SKEL_DIR"))
	lfOf := map[string]lenForm{"short": lenShort, "long81": lenLong81, "long82": lenLong82, "indef": lenIndefinite, "plus1": lenPlus1, "minus1": lenMinus1}
	ifOf := map[string]intForm{"min": intMinimal, "extra0": intExtraZero, "two0": intTwoZeros, "neg": intNegative, "empty": intEmpty, "pad": intPad33}
	for si, m := range sigShapes {
		sh := shape{byte(m.SeqTag), byte(m.RTag), byte(m.STag), lfOf[m.SeqLen], lfOf[m.RLen], lfOf[m.SLen], ifOf[m.RForm], ifOf[m.SForm], m.TrailIn, m.TrailOut, m.MissingS}
		for k := 0; k < 3; k++ {
			r, s := vals[(si+k+int(c.seed))%len(vals)], vals[(si*7+k*3+1)%len(vals)]
			b := build(sh, r, s)
			derParse(b, false, "model_sig_shape")
			bip(append(append([]byte{}, b...), 0x01))
		}
	}
	// ---- BIP-66: every total length 7..76, every (lenR, lenS) split, minimal integers with chosen lead bytes
	for total := 7; total <= 76; total++ {
		for lenR := 0; lenR <= total-7; lenR++ {
			lenS := total - 7 - lenR
			if !c.thorough() && (total+lenR)%4 != int(c.seed%4) && total > 12 && total < 70 {
				continue
			}
			mk := func(n int, lead byte) []byte {
				if n == 0 {
					return nil
				}
				b := bytes.Repeat([]byte{0x11}, n)
				b[0] = lead
				return b
			}
			for _, lr := range []byte{0x01, 0x7f, 0x00, 0x80} {
				for _, ls := range []byte{0x01, 0x00, 0x80} {
					R, S := mk(lenR, lr), mk(lenS, ls)
					if lr == 0 && lenR > 1 {
						R[1] = 0x80 // a legitimate leading zero
					}
					body := append(tlv(2, R, lenShort), tlv(2, S, lenShort)...)
					b := append(tlv(0x30, body, lenShort), 0x01)
					bip(b)
					if lr == 0 && lenR > 1 {
						R[1] = 0x7f // an excess leading zero
						body = append(tlv(2, R, lenShort), tlv(2, S, lenShort)...)
						bip(append(tlv(0x30, body, lenShort), 0x01))
					}
					// wrong total-length byte / missing sighash
					bb := append([]byte{}, b...)
					bb[1]++
					bip(bb)
					bip(b[:len(b)-1])
				}
			}
		}
	}
	// length octets taken at their word (round 8): in a skeleton of every total length 9..75 and (sampled) R length, each of the three
	// length octets - total, R, S; the S octet may be the very last byte of the string - takes values around the right one, around the
	// 73 / 33 byte limits, at the sign bit and at the top of the octet.  Arithmetic on these octets in a type narrower than int wraps.
	lenVals := []int{0, 1, 2, 0x20, 0x21, 0x22, 0x45, 0x46, 0x47, 0x48, 0x49, 0x4a, 0x7e, 0x7f, 0x80, 0x81, 0xf0, 0xf8, 0xf9, 0xfa, 0xfb, 0xfc, 0xfd, 0xfe, 0xff}
	for L := 9; L <= 75; L++ {
		for lenR := 0; lenR <= L-4; lenR++ {
			edge := lenR <= 2 || lenR >= L-9
			if !edge && !c.thorough() && (L+lenR)%4 != int(c.seed%4) {
				continue
			}
			base := bytes.Repeat([]byte{0x11}, L)
			base[0], base[1], base[2], base[3] = 0x30, byte(L-3), 0x02, byte(lenR)
			if lenR > 0 {
				base[4] = 0x01
			}
			sPos := 5 + lenR
			if 4+lenR < L {
				base[4+lenR] = 0x02
			}
			if sPos < L {
				lenS := L - 7 - lenR
				if lenS < 0 {
					lenS = 0
				}
				base[sPos] = byte(lenS)
			}
			if sPos+1 < L-1 {
				base[sPos+1] = 0x01
			}
			if sPos < L-1 {
				base[L-1] = 0x01 // sighash
			}
			for _, pos := range []int{1, 3, sPos} {
				if pos >= L {
					continue
				}
				right := int(base[pos])
				for _, v := range append(append([]int{}, lenVals...), right-1, right, right+1) {
					if v < 0 || v > 255 {
						continue
					}
					b := append([]byte{}, base...)
					b[pos] = byte(v)
					bip(b)
				}
			}
		}
	}
	// the repository's BIP-66 vector file
	if raw, err := os.ReadFile(filepath.Join(c.repo, "secec", "bitcoin", "testdata", "bip-0066-test-vectors.json")); err == nil {
		var doc struct {
			Valid []struct {
				DER string `json:"DER"`
			} `json:"valid"`
			Invalid struct {
				Decode []struct {
					Hex string `json:"hex"`
				} `json:"decode"`
			} `json:"invalid"`
		}
		if json.Unmarshal(raw, &doc) == nil {
			for _, v := range doc.Valid {
				b := unhex(v.DER)
				derParse(b, false)
				bip(append(append([]byte{}, b...), 1))
			}
			for _, v := range doc.Invalid.Decode {
				b := unhex(v.Hex)
				derParse(b, false)
				bip(b)
				bip(append(append([]byte{}, b...), 1))
			}
		}
	}
	// ---- random and mutated byte strings of length 0..80, through every parser
	good := secec.BuildASN1Signature(scFrom(add(randBig(rng, add(bigN, -1)), 1)), scFrom(add(randBig(rng, add(bigN, -1)), 1)))
	for i := 0; i < c.scale(1500, 40000); i++ {
		var b []byte
		switch i % 4 {
		case 0:
			b = randBytes(rng, rng.Intn(81))
		case 1: // starts like a signature
			b = append([]byte{0x30, byte(rng.Intn(80)), 2, byte(rng.Intn(40))}, randBytes(rng, rng.Intn(76))...)
		case 2: // valid with one byte replaced
			b = append([]byte{}, good...)
			b[rng.Intn(len(b))] = byte(rng.Intn(256))
		default: // valid, truncated or extended
			b = append([]byte{}, good...)
			if rng.Intn(2) == 0 {
				b = b[:rng.Intn(len(b)+1)]
			} else {
				b = append(b, randBytes(rng, 1+rng.Intn(4))...)
			}
		}
		derParse(b, true)
		bip(b)
		if i%8 == 0 {
			spki(b, "")
			cmp(b, false)
			cmp(b, true)
		}
	}
	for _, l := range []int{0, 1, 63, 64, 65, 66} {
		cmp(randBytes(rng, l), false)
		cmp(randBytes(rng, l), true)
		cmp(make([]byte, l), false)
	}
	for _, bad := range []*big.Int{bigN, add(bigN, 1), add(big2_256, -1), big.NewInt(0)} {
		ok := be32(big.NewInt(5))[:]
		cmp(append(append([]byte{}, be32(bad)[:]...), ok...), false)
		cmp(append(append([]byte{}, ok...), be32(bad)[:]...), false)
		cmp(append(append(append([]byte{}, ok...), be32(bad)[:]...), 1), true)
	}

	// ---- SubjectPublicKeyInfo
	oidEC := []byte{0x06, 0x07, 0x2a, 0x86, 0x48, 0xce, 0x3d, 0x02, 0x01}
	oidK1 := []byte{0x06, 0x05, 0x2b, 0x81, 0x04, 0x00, 0x0a}
	mkSpki := func(alg []byte, unused byte, content []byte, trailIn, trailBits, trailOut []byte, bitsLen lenForm) []byte {
		bits := tlv(3, append(append([]byte{unused}, content...), trailBits...), bitsLen)
		body := append(append(append([]byte{}, alg...), bits...), trailIn...)
		return append(tlv(0x30, body, lenShort), trailOut...)
	}
	algOK := tlv(0x30, append(append([]byte{}, oidEC...), oidK1...), lenShort)
	shiftLeft := func(b []byte, k uint) []byte { // b << k, one extra byte, zero padding
		v := new(big.Int).Lsh(new(big.Int).SetBytes(b), k)
		out := make([]byte, len(b)+1)
		v.FillBytes(out)
		return out
	}
	for i := 0; i < c.scale(6, 60); i++ {
		d := add(randBig(rng, add(bigN, -1)), 1)
		pub := privFrom(d).PublicKey()
		unc, cm := pub.Bytes(), pub.CompressedBytes()
		spki(pub.ASN1Bytes(), "")
		spki(mkSpki(algOK, 0, unc, nil, nil, nil, lenShort), "")
		spki(mkSpki(algOK, 0, cm, nil, nil, nil, lenShort), "")
		// BIT STRING with k unused bits: zero padding with the content shifted (decodes to the same bytes after right-align),
		// zero padding unshifted, and non-zero padding
		for k := byte(1); k <= 7; k++ {
			for _, content := range [][]byte{unc, cm} {
				sh := shiftLeft(content, uint(k))
				if sh[0] == 0 {
					spki(mkSpki(algOK, k, sh[1:], nil, nil, nil, lenShort), "spki_unused_bits_zero_pad")
				}
				spki(mkSpki(algOK, k, sh, nil, nil, nil, lenShort), "spki_unused_bits_zero_pad")
				z := append([]byte{}, content...)
				z[len(z)-1] &^= byte(1<<k) - 1
				spki(mkSpki(algOK, k, z, nil, nil, nil, lenShort), "spki_unused_bits")
				spki(mkSpki(algOK, k, content, nil, nil, nil, lenShort), "spki_unused_bits")
			}
		}
		spki(mkSpki(algOK, 8, unc, nil, nil, nil, lenShort), "spki_unused_bits")
		// OIDs: wrong, swapped, non-minimal base-128, extra NULL parameters, missing curve
		oidK1pad := []byte{0x06, 0x06, 0x2b, 0x81, 0x04, 0x80, 0x00, 0x0a}
		oidR1 := []byte{0x06, 0x08, 0x2a, 0x86, 0x48, 0xce, 0x3d, 0x03, 0x01, 0x07}
		for _, alg := range [][]byte{
			tlv(0x30, append(append([]byte{}, oidK1...), oidEC...), lenShort),
			tlv(0x30, append(append([]byte{}, oidEC...), oidR1...), lenShort),
			tlv(0x30, append(append([]byte{}, oidEC...), oidK1pad...), lenShort),
			tlv(0x30, append(append([]byte{}, oidEC...), oidEC...), lenShort),
			tlv(0x30, append([]byte{}, oidEC...), lenShort),
			tlv(0x31, append(append([]byte{}, oidEC...), oidK1...), lenShort),
			tlv(0x30, append(append([]byte{}, oidEC...), oidK1...), lenLong81),
		} {
			spki(mkSpki(alg, 0, unc, nil, nil, nil, lenShort), "spki_bad_oid")
		}
		spki(mkSpki(tlv(0x30, append(append(append([]byte{}, oidEC...), oidK1...), 0x05, 0x00), lenShort), 0, unc, nil, nil, nil, lenShort), "spki_params")
		// trailing garbage at each nesting level
		spki(mkSpki(algOK, 0, unc, []byte{0}, nil, nil, lenShort), "spki_trailing")
		spki(mkSpki(algOK, 0, unc, nil, []byte{0}, nil, lenShort), "spki_trailing")
		spki(mkSpki(algOK, 0, unc, nil, nil, []byte{0}, lenShort), "spki_trailing")
		spki(mkSpki(algOK, 0, unc, nil, nil, nil, lenLong81), "spki_trailing")
		// content in the SEC 1 classes of C06
		bad := append([]byte{}, unc...)
		bad[64] ^= 1
		spki(mkSpki(algOK, 0, bad, nil, nil, nil, lenShort), "spki_bad_point")
		hy := append([]byte{}, unc...)
		hy[0] = 6 + unc[64]&1
		spki(mkSpki(algOK, 0, hy, nil, nil, nil, lenShort), "spki_bad_point")
		spki(mkSpki(algOK, 0, unc[:64], nil, nil, nil, lenShort), "spki_bad_point")
		spki(mkSpki(algOK, 0, []byte{0}, nil, nil, nil, lenShort), "spki_identity")
		xpv := new(big.Int).Add(new(big.Int).SetBytes(cm[1:]), bigP)
		xpv.Mod(xpv, big2_256) // x + p (mod 2^256): a non-canonical or unrelated x
		xp := append([]byte{cm[0]}, be32(xpv)[:]...)
		spki(mkSpki(algOK, 0, xp, nil, nil, nil, lenShort), "spki_bad_point")
		// the point's prefix octet: all 256 values over a valid 33-byte and a valid 65-byte body (two keys: both parities come up)
		if i < 2 {
			for pfx := 0; pfx < 256; pfx++ {
				for _, content := range [][]byte{cm, unc} {
					m := append([]byte{}, content...)
					m[0] = byte(pfx)
					spki(mkSpki(algOK, 0, m, nil, nil, nil, lenShort), "spki_prefix_sweep")
				}
			}
		}
		// every single byte of a valid SPKI mutated
		if i == 0 {
			v := pub.ASN1Bytes()
			for pos := 0; pos < len(v); pos++ {
				m := append([]byte{}, v...)
				m[pos] ^= 1 << uint(rng.Intn(8))
				spki(m, "")
				if pos < 30 {
					m = append([]byte{}, v...)
					m[pos] ^= 0x80
					spki(m, "")
				}
			}
			for l := 0; l < len(v); l += 3 {
				spki(v[:l], "")
			}
		}
	}
	// ---- pipeline C: SubjectPublicKeyInfo shapes from the model
	{
		oidK1pad := []byte{0x06, 0x06, 0x2b, 0x81, 0x04, 0x80, 0x00, 0x0a}
		oidR1 := []byte{0x06, 0x08, 0x2a, 0x86, 0x48, 0xce, 0x3d, 0x03, 0x01, 0x07}
		cat := func(bs ...[]byte) []byte {
			var o []byte
			for _, b := range bs {
				o = append(o, b...)
			}
			return o
		}
		algs := map[string][]byte{
			"ok":         algOK,
			"swapped":    tlv(0x30, cat(oidK1, oidEC), lenShort),
			"wrongcurve": tlv(0x30, cat(oidEC, oidR1), lenShort),
			"nonminimal": tlv(0x30, cat(oidEC, oidK1pad), lenShort),
			"dup":        tlv(0x30, cat(oidEC, oidEC), lenShort),
			"missing":    tlv(0x30, cat(oidEC), lenShort),
			"settag":     tlv(0x31, cat(oidEC, oidK1), lenShort),
			"long81":     tlv(0x30, cat(oidEC, oidK1), lenLong81),
			"params":     tlv(0x30, cat(oidEC, oidK1, []byte{0x05, 0x00}), lenShort),
		}
		for si, m := range spkiShapes {
			d := add(randBig(rng, add(bigN, -1)), 1)
			pub := privFrom(d).PublicKey()
			unc, cm := pub.Bytes(), pub.CompressedBytes()
			var content []byte
			switch m.Content {
			case "unc":
				content = unc
			case "cmp":
				content = cm
			case "badpoint":
				content = append([]byte{}, unc...)
				content[64] ^= 1
			case "hybrid":
				content = append([]byte{}, unc...)
				content[0] = 6 + unc[64]&1
			case "short":
				content = unc[:64]
			case "identity":
				content = []byte{0}
			case "noncanon":
				xpv := new(big.Int).Add(new(big.Int).SetBytes(cm[1:]), bigP)
				xpv.Mod(xpv, big2_256)
				content = append([]byte{cm[0]}, be32(xpv)[:]...)
			}
			k := byte(m.Unused)
			if k >= 1 && k <= 7 {
				switch m.Pad {
				case "shift":
					content = shiftLeft(content, uint(k))
					if content[0] == 0 && si%2 == 0 {
						content = content[1:]
					}
				case "zero":
					content = append([]byte{}, content...)
					content[len(content)-1] &^= byte(1<<k) - 1
				}
			}
			one := func(n int) []byte {
				if n == 0 {
					return nil
				}
				return []byte{0}
			}
			spki(mkSpki(algs[m.Alg], k, content, one(m.TrailIn), one(m.TrailBits), one(m.TrailOut), lfOf[m.BitsLen]), "model_spki_shape")
		}
	}
	// Wycheproof public keys (the ECDH files carry malformed SPKI)
	for _, fn := range []string{"ecdh_secp256k1_test.json"} {
		raw, err := os.ReadFile(filepath.Join(c.repo, "secec", "testdata", "wycheproof", fn))
		if err != nil {
			continue
		}
		var doc struct {
			TestGroups []struct {
				Tests []struct {
					Public string `json:"public"`
				} `json:"tests"`
			} `json:"testGroups"`
		}
		if json.Unmarshal(raw, &doc) != nil {
			continue
		}
		for _, g := range doc.TestGroups {
			for _, t := range g.Tests {
				if b, err := hexDecode(t.Public); err == nil {
					spki(b, "")
				}
			}
		}
	}
}

type wireSigShape struct {
	SeqTag   int    `json:"seqTag"`
	SeqLen   string `json:"seqLen"`
	RTag     int    `json:"rTag"`
	RLen     string `json:"rLen"`
	RForm    string `json:"rForm"`
	STag     int    `json:"sTag"`
	SLen     string `json:"sLen"`
	SForm    string `json:"sForm"`
	TrailIn  int    `json:"trailIn"`
	TrailOut int    `json:"trailOut"`
	MissingS bool   `json:"missingS"`
}

type wireSpkiShape struct {
	Unused    int    `json:"unused"`
	Pad       string `json:"pad"`
	Alg       string `json:"alg"`
	TrailIn   int    `json:"trailIn"`
	TrailBits int    `json:"trailBits"`
	TrailOut  int    `json:"trailOut"`
	BitsLen   string `json:"bitsLen"`
	Content   string `json:"content"`
}

// loadWireShapes reads the skeletons written by Shape_Wire.tla (anywhere below root).
func loadWireShapes(root string) (sig []wireSigShape, spki []wireSpkiShape) {
	if root == "" {
		return
	}
	filepath.Walk(root, func(p string, info os.FileInfo, err error) error {
		if err != nil || info.IsDir() {
			return nil
		}
		raw, rerr := os.ReadFile(p)
		if rerr != nil {
			return nil
		}
		for _, ln := range bytes.Split(raw, []byte{'\n'}) {
			if len(bytes.TrimSpace(ln)) == 0 {
				continue
			}
			switch filepath.Base(p) {
			case "sig-shapes.ndjson":
				var m wireSigShape
				if json.Unmarshal(ln, &m) == nil {
					sig = append(sig, m)
				}
			case "spki-shapes.ndjson":
				var m wireSpkiShape
				if json.Unmarshal(ln, &m) == nil {
					spki = append(spki, m)
				}
			}
		}
		return nil
	})
	return
}
