//go:build verif

package main

import (
	"math/big"
	"math/rand"

	secp256k1 "gitlab.com/yawning/secp256k1-voi"
)

func init() {
	register("sec1", "C06: SEC 1 decoding on every class of byte string, coordinate and recovery constructors", driveSec1)
}

var bigSeven = big.NewInt(7)

// sqrtP returns a square root of a mod p (p = 3 mod 4) or nil.
func sqrtP(a *big.Int) *big.Int {
	e := new(big.Int).Rsh(add(bigP, 1), 2)
	y := new(big.Int).Exp(a, e, bigP)
	if new(big.Int).Mod(new(big.Int).Mul(y, y), bigP).Cmp(new(big.Int).Mod(a, bigP)) != 0 {
		return nil
	}
	return y
}

// cbrtP returns a cube root of c mod p or nil (p = 1 mod 3, 9 does not divide p-1... handled generically).
func cbrtP(cv *big.Int) *big.Int {
	third := new(big.Int).Div(add(bigP, -1), big.NewInt(3))
	e := new(big.Int).ModInverse(big.NewInt(3), third)
	if e == nil {
		return nil
	}
	x := new(big.Int).Exp(cv, e, bigP)
	x3 := new(big.Int).Exp(x, big.NewInt(3), bigP)
	if x3.Cmp(new(big.Int).Mod(cv, bigP)) != 0 {
		return nil
	}
	return x
}

func yyOf(x *big.Int) *big.Int {
	v := new(big.Int).Exp(x, big.NewInt(3), bigP)
	v.Add(v, bigSeven)
	return v.Mod(v, bigP)
}

type xy struct{ x, y *big.Int }

// curvePointsWithSmallX returns points whose x is below 2^32+977 (so x+p still fits 32 bytes).
func curvePointsWithSmallX(r *rand.Rand, n int) []xy {
	// spread over the WHOLE window in which x + p still fits 32 bytes, [1, 2^32 + 977): tiny values, either side of 977 (where the low
	// word of x + p wraps), the middle, either side of 2^31 and 2^32, and the top of the window (round 10: a canonicity test that
	// compares the low word on its own is wrong on part of the window only)
	starts := []int64{1, 960, 977, 0x10000, 0x7ffffff0, 0x80000000, 0xfffffc20, 0xfffffff0, 0x100000000, 0x100000390}
	var out []xy
	for i := 0; len(out) < n; i++ {
		x := starts[i%len(starts)] + int64(i/len(starts))*7 + int64(r.Intn(3))
		for ; ; x++ {
			xv := big.NewInt(x)
			if x >= 0x1000003d1 {
				break
			}
			if y := sqrtP(yyOf(xv)); y != nil {
				out = append(out, xy{xv, y})
				break
			}
		}
	}
	return out
}

// curvePointsWithSmallY returns points whose y is below 2^32+977.
func curvePointsWithSmallY(r *rand.Rand, n int) []xy {
	var out []xy
	for y := int64(1); len(out) < n && y < 200000; y++ {
		yv := big.NewInt(y)
		cv := new(big.Int).Sub(new(big.Int).Mul(yv, yv), bigSeven)
		cv.Mod(cv, bigP)
		if x := cbrtP(cv); x != nil {
			out = append(out, xy{x, yv})
		}
	}
	return out
}

// pointWithXInNP returns curve points with x in [n, p).
func pointsWithXAboveN(r *rand.Rand, n int) []xy {
	var out []xy
	span := new(big.Int).Sub(bigP, bigN)
	for len(out) < n {
		x := new(big.Int).Add(bigN, randBig(r, span))
		if len(out) == 0 {
			for x = new(big.Int).Set(bigN); sqrtP(yyOf(x)) == nil; x = add(x, 1) {
			}
		}
		if y := sqrtP(yyOf(x)); y != nil {
			out = append(out, xy{x, y})
		}
	}
	return out
}

func encUnc(p xy) []byte {
	return append(append([]byte{4}, be32(p.x)[:]...), be32(p.y)[:]...)
}

func encCmp(p xy) []byte {
	return append([]byte{byte(2 + p.y.Bit(0))}, be32(p.x)[:]...)
}

func wide32(v *big.Int) []byte {
	// 32-byte big-endian of v < 2^256 (possibly >= p)
	return be32(v)[:]
}

func driveSec1(c *ctx) {
	r := rand.New(rand.NewSource(c.seed))
	type decoder struct {
		name string
		f    func(v *secp256k1.Point, b []byte) (*secp256k1.Point, error)
	}
	decs := []decoder{
		{"SetBytes", func(v *secp256k1.Point, b []byte) (*secp256k1.Point, error) { return v.SetBytes(b) }},
		{"SetCompressed", func(v *secp256k1.Point, b []byte) (*secp256k1.Point, error) { return v.SetCompressedBytes(b) }},
		{"SetUncompressed", func(v *secp256k1.Point, b []byte) (*secp256k1.Point, error) { return v.SetUncompressedBytes(b) }},
		{"NewFromBytes", func(_ *secp256k1.Point, b []byte) (*secp256k1.Point, error) { return secp256k1.NewPointFromBytes(b) }},
	}
	state := func(p *secp256k1.Point) string {
		if !ptIsValid(p) {
			return "uninit"
		}
		return hx(p.UncompressedBytes())
	}
	nrcv := 0
	try := func(b []byte) {
		for _, d := range decs {
			for variant := 0; variant < 2; variant++ {
				var rcv *secp256k1.Point
				if variant == 0 {
					nrcv++
					rcv = rep(mulG(big.NewInt(int64(2+nrcv%50))), big.NewInt(int64(3+nrcv%7)))
				} else {
					rcv = new(secp256k1.Point) // zero value: may only be used as a receiver
				}
				if d.name == "NewFromBytes" && variant == 1 {
					continue
				}
				pre := state(rcv)
				var (
					ret *secp256k1.Point
					err error
				)
				pn := catch(func() { ret, err = d.f(rcv, append([]byte{}, b...)) })
				if pn {
					c.E("s1.Decode", "fn", d.name, "in", hx(b), "ok", false, "retnil", true, "pre", pre, "post", "PANIC", "recmp", "")
					continue
				}
				post, recmp := state(rcv), ""
				if d.name == "NewFromBytes" {
					// no receiver: report the returned object as the post state on success
					post = pre
					if err == nil {
						post = state(ret)
					}
				}
				if err == nil {
					recmp = hx(ret.CompressedBytes())
				}
				c.E("s1.Decode", "fn", d.name, "in", hx(b), "ok", err == nil, "retnil", ret == nil, "pre", pre, "post", post, "recmp", recmp)
				if err != nil && variant == 1 { // a rejected input is offered again at once (fresh zero-value receiver): same answer
					rcv2 := new(secp256k1.Point)
					var (
						ret2 *secp256k1.Point
						err2 error
					)
					if pn2 := catch(func() { ret2, err2 = d.f(rcv2, append([]byte{}, b...)) }); !pn2 && err2 == nil {
						c.E("s1.Decode", "fn", d.name, "in", hx(b), "ok", true, "retnil", ret2 == nil, "pre", "uninit", "post", state(rcv2), "recmp", hx(ret2.CompressedBytes()))
					}
				}
			}
		}
	}

	var pts []xy
	smallX := curvePointsWithSmallX(r, c.scale(10, 40))
	smallY := curvePointsWithSmallY(r, c.scale(4, 20))
	pts = append(pts, smallX...)
	pts = append(pts, smallY...)
	gx, gy := bi("79be667ef9dcbbac55a06295ce870b07029bfcdb2dce28d959f2815b16f81798"), bi("483ada7726a3c4655da4fbfc0e1108a8fd17b448a68554199c47d08ffb10d4b8")
	pts = append(pts, xy{gx, gy})
	for i := 0; i < c.scale(12, 200); i++ {
		x := randBig(r, bigP)
		for sqrtP(yyOf(x)) == nil {
			x = add(x, 1)
		}
		y := sqrtP(yyOf(x))
		if i%2 == 0 {
			y = new(big.Int).Sub(bigP, y)
		}
		pts = append(pts, xy{x, y})
	}
	pts = append(pts, pointsWithXAboveN(r, 3)...)

	// every length 0..66
	// near-curve points: y^2 and x^3 + 7 equal in all internal limbs but one (aimed at the comparison the curve check makes)
	for _, p := range nearCurvePoints(r, c.scale(2, 8)) {
		try(encUnc(p))
		if pt, err := secp256k1.NewPointFromCoords(be32(p.x), be32(p.y)); err == nil {
			c.E("lib.Unexpected", "what", "NewPointFromCoords accepted a point off the curve", "x", h32(p.x), "y", h32(p.y), "enc", encOrPanic(pt))
		}
	}
	for l := 0; l <= 66; l++ {
		b := randBytes(r, l)
		try(b)
		if l > 0 {
			for _, pfx := range []byte{0, 2, 3, 4} {
				bb := append([]byte{}, b...)
				bb[0] = pfx
				try(bb)
			}
		}
		try(make([]byte, l))
	}
	for pi, p := range pts {
		u, cm := encUnc(p), encCmp(p)
		try(u)
		try(cm)
		negY := new(big.Int).Sub(bigP, p.y)
		// all 256 prefixes on otherwise valid strings (first few points: all; others: a seeded subset)
		for pf := 0; pf < 256; pf++ {
			if pi >= 3 && pf > 8 && (pf+pi)%37 != 0 {
				continue
			}
			uu := append([]byte{}, u...)
			uu[0] = byte(pf)
			try(uu)
			cc := append([]byte{}, cm...)
			cc[0] = byte(pf)
			try(cc)
		}
		// hybrid prefixes with the RIGHT parity (X9.62 hybrid form): still not SEC 1
		hy := append([]byte{}, u...)
		hy[0] = byte(6 + p.y.Bit(0))
		try(hy)
		// wrong-sign y, y +- 1, x +- 1 in uncompressed form
		try(encUnc(xy{p.x, negY})) // valid: the other point
		try(encUnc(xy{p.x, new(big.Int).Mod(add(p.y, 1), bigP)}))
		try(encUnc(xy{p.x, new(big.Int).Mod(add(p.y, -1), bigP)}))
		try(encUnc(xy{new(big.Int).Mod(add(p.x, 1), bigP), p.y}))
		// non-canonical coordinates: +p aliases that still fit in 32 bytes
		if xp := new(big.Int).Add(p.x, bigP); xp.BitLen() <= 256 {
			try(append(append([]byte{4}, wide32(xp)...), be32(p.y)[:]...))
			try(append([]byte{cm[0]}, wide32(xp)...))
		}
		if yp := new(big.Int).Add(p.y, bigP); yp.BitLen() <= 256 {
			try(append(append([]byte{4}, be32(p.x)[:]...), wide32(yp)...))
		}
		// truncated / extended
		try(u[:64])
		try(append(append([]byte{}, u...), 0))
		try(cm[:32])
		try(append(append([]byte{}, cm...), 0))
		// coordinates constructor
		xb, yb := be32(p.x), be32(p.y)
		emitCoords := func(xb, yb *[32]byte) {
			pt, err := secp256k1.NewPointFromCoords(xb, yb)
			o := ""
			if err == nil {
				o = hx(pt.UncompressedBytes())
			}
			c.E("s1.FromCoords", "x", hx(xb[:]), "y", hx(yb[:]), "ok", err == nil, "retnil", pt == nil, "out", o)
		}
		emitCoords(xb, yb)
		emitCoords(xb, be32(negY))
		emitCoords(xb, be32(new(big.Int).Mod(add(p.y, 1), bigP)))
		emitCoords(yb, xb)
		if xp := new(big.Int).Add(p.x, bigP); xp.BitLen() <= 256 {
			emitCoords(be32(xp), yb)
		}
		if yp := new(big.Int).Add(p.y, bigP); yp.BitLen() <= 256 {
			emitCoords(xb, be32(yp))
		}
		sp, od := []byte(nil), uint64(0)
		pn := catch(func() { sp, od = secp256k1.SplitUncompressedPoint(u) })
		c.E("s1.Split", "in", hx(u), "panic", pn, "x", hx(sp), "odd", int(od))
	}
	// x >= p, x with x^3 + 7 a non-residue, all-ones
	for i := 0; i < c.scale(20, 300); i++ {
		x := randBig(r, bigP)
		for sqrtP(yyOf(x)) != nil {
			x = add(x, 1)
		}
		try(append([]byte{2}, be32(x)[:]...))
		try(append([]byte{3}, be32(x)[:]...))
		try(append(append([]byte{4}, be32(x)[:]...), be32(randBig(r, bigP))[:]...))
		hi := new(big.Int).Add(bigP, randBig(r, new(big.Int).Sub(big2_256, bigP)))
		try(append([]byte{byte(2 + i%2)}, be32(hi)[:]...))
		try(append(append([]byte{4}, be32(hi)[:]...), be32(randBig(r, bigP))[:]...))
		try(append(append([]byte{4}, be32(randBig(r, bigP))[:]...), be32(hi)[:]...))
	}
	for _, v := range []*big.Int{bigP, add(bigP, 1), add(big2_256, -1), add(bigP, -1), big.NewInt(0)} {
		try(append([]byte{2}, be32(v)[:]...))
		try(append([]byte{3}, be32(v)[:]...))
		try(append(append([]byte{4}, be32(v)[:]...), be32(v)[:]...))
	}
	{
		sp, od := []byte(nil), uint64(0)
		pn := catch(func() { sp, od = secp256k1.SplitUncompressedPoint(make([]byte, 33)) })
		c.E("s1.Split", "in", hx(make([]byte, 33)), "panic", pn, "x", hx(sp), "odd", int(od))
	}

	// ---- constructors return FRESH objects: mutate what a decode returned, then decode the same bytes again
	for _, b := range [][]byte{{0}, encCmp(pts[0]), encUnc(pts[1])} {
		p1, err1 := secp256k1.NewPointFromBytes(append([]byte{}, b...))
		if err1 != nil {
			panic(err1)
		}
		first := hx(p1.UncompressedBytes())
		p1.Add(p1, secp256k1.NewGeneratorPoint())
		p1.Double(p1)
		p2, err2 := secp256k1.NewPointFromBytes(append([]byte{}, b...))
		second := ""
		if err2 == nil {
			second = hx(p2.UncompressedBytes())
		}
		rcv := rep(mulG(big.NewInt(77)), big.NewInt(3))
		_, err3 := rcv.SetBytes(append([]byte{}, b...))
		c.E("s1.Fresh", "in", hx(b), "first", first, "second", second, "ok", err2 == nil, "viaset", hx(rcv.UncompressedBytes()), "ok3", err3 == nil)
	}

	// ---- RecoverPoint: all ids 0..255 on x mod n of real points, on the x >= n window, on non-x-coordinates
	recover := func(xs *big.Int, id int) {
		pt, err := secp256k1.RecoverPoint(scFrom(xs), byte(id))
		o := ""
		if err == nil {
			o = hx(pt.UncompressedBytes())
		}
		c.E("s1.Recover", "xs", h32(xs), "id", id, "ok", err == nil, "retnil", pt == nil, "out", o)
	}
	span := new(big.Int).Sub(bigP, bigN)
	var xss []*big.Int
	for _, p := range pts {
		xss = append(xss, new(big.Int).Mod(p.x, bigN))
	}
	for i := 0; i < c.scale(10, 200); i++ {
		xss = append(xss, randBig(r, span))                         // x + n < p: second candidate exists iff on curve
		xss = append(xss, new(big.Int).Add(span, randBig(r, span))) // x + n >= p: bit 1 must fail
	}
	xss = append(xss, add(span, -1), span, add(span, 1), big.NewInt(0), big.NewInt(1), add(bigN, -1))
	// x whose LOW limbs pass for "x < p - n" while a higher limb is set (round 9): a * 2^(64 j) + d with d < p - n, every limb j;
	// the bound p - n is 129 bits wide, so a comparison that walks the limbs of the bound instead of those of x never looks further
	for j := uint(1); j <= 3; j++ {
		for t := 0; t < c.scale(4, 24); t++ {
			a := add(randBig(r, pow2(16)), 1)
			if t%2 == 0 {
				a = big.NewInt(int64(1 + t/2))
			}
			x := new(big.Int).Add(new(big.Int).Lsh(a, 64*j), randBig(r, span))
			if j == 2 && t%3 == 0 {
				x = new(big.Int).Add(new(big.Int).Lsh(a, 129), randBig(r, pow2(128))) // just above the bound's width
			}
			if x.Cmp(bigN) < 0 {
				xss = append(xss, x)
			}
		}
	}
	for i, xs := range xss {
		for id := 0; id < 256; id++ {
			if id >= 6 && (id+i)%29 != 0 && !(i < 3) {
				continue
			}
			recover(xs, id)
		}
	}
}
