//go:build verif && !verifpub

package main

import (
	"math/big"
	"math/rand"

	fiat "gitlab.com/yawning/secp256k1-voi/internal/fiat/secp256k1montgomery"
	"gitlab.com/yawning/secp256k1-voi/internal/field"
)

func init() {
	register("field", "C01: every internal/field operation and raw fiat entry point", driveField)
}

func driveField(c *ctx) {
	r := rand.New(rand.NewSource(c.seed))
	grid := edgeGrid(bigP)
	nRand := c.scale(40, 400)
	vals := append([]*big.Int{}, grid...)
	vals = append(vals, montPatternValues(r, bigP)...)
	for i := 0; i < nRand; i++ {
		vals = append(vals, randBig(r, bigP))
	}

	// ---- binary operations on (a subset of) all pairs, with every alias pattern
	nb := 0
	bin := func(a, b *big.Int) {
		ah, bh := hx(be32(a)[:]), hx(be32(b)[:])
		type op struct {
			name string
			f    func(rcv, x, y *field.Element) *field.Element
		}
		ops := []op{
			{"fe.Add", func(rcv, x, y *field.Element) *field.Element { return rcv.Add(x, y) }},
			{"fe.Sub", func(rcv, x, y *field.Element) *field.Element { return rcv.Subtract(x, y) }},
			{"fe.Mul", func(rcv, x, y *field.Element) *field.Element { return rcv.Multiply(x, y) }},
		}
		for _, o := range ops {
			// distinct
			x, y := feFrom(a), feFrom(b)
			rcv := feJunk(r)
			ret := o.f(rcv, x, y)
			c.E(o.name, "alias", "none", "a", ah, "b", bh, "out", feHex(rcv), "ret", ret == rcv, "a_post", feHex(x), "b_post", feHex(y))
			// receiver = a
			x, y = feFrom(a), feFrom(b)
			o.f(x, x, y)
			c.E(o.name, "alias", "r=a", "a", ah, "b", bh, "out", feHex(x), "ret", true, "a_post", ah, "b_post", feHex(y))
			// receiver = b
			x, y = feFrom(a), feFrom(b)
			o.f(y, x, y)
			c.E(o.name, "alias", "r=b", "a", ah, "b", bh, "out", feHex(y), "ret", true, "a_post", feHex(x), "b_post", bh)
			if a.Cmp(b) == 0 {
				x = feFrom(a)
				rcv = field.NewElement()
				o.f(rcv, x, x)
				c.E(o.name, "alias", "a=b", "a", ah, "b", bh, "out", feHex(rcv), "ret", true, "a_post", feHex(x), "b_post", feHex(x))
				x = feFrom(a)
				o.f(x, x, x)
				c.E(o.name, "alias", "r=a=b", "a", ah, "b", bh, "out", feHex(x), "ret", true, "a_post", ah, "b_post", bh)
			}
		}
		x, y := feFrom(a), feFrom(b)
		c.E("fe.Equal", "a", ah, "b", bh, "out", int(x.Equal(y)))
		ctrls := []uint64{0, 1, 2, 1 << 63, 0xffffffffffffffff}
		nb++
		for _, ctrl := range []uint64{ctrls[nb%5], ctrls[(nb/5+1)%5]} {
			x, y = feFrom(a), feFrom(b)
			rcv := field.NewElement().ConditionalSelect(x, y, ctrl)
			c.E("fe.CSel", "a", ah, "b", bh, "c", b2i(ctrl != 0), "out", feHex(rcv))
			x.ConditionalSelect(x, y, ctrl)
			c.E("fe.CSel", "a", ah, "b", bh, "c", b2i(ctrl != 0), "out", feHex(x))
			x, y = feFrom(a), feFrom(b)
			y.ConditionalSelect(x, y, ctrl)
			c.E("fe.CSel", "a", ah, "b", bh, "c", b2i(ctrl != 0), "out", feHex(y))
		}
	}
	// all pairs of a reduced grid + random pairs + window-steered pairs
	small := grid
	if !c.thorough() && len(small) > 60 {
		// deterministic thinning: keep the first 30 (the closest-to-boundary values) and a seeded sample
		keep := append([]*big.Int{}, small[:30]...)
		for i := 0; i < 30; i++ {
			keep = append(keep, small[30+r.Intn(len(small)-30)])
		}
		small = keep
	}
	for _, a := range small {
		for _, b := range small {
			bin(a, b)
		}
	}
	for i := 0; i < c.scale(300, 5000); i++ {
		bin(randBig(r, bigP), randBig(r, bigP))
	}
	// pairs whose INTERNAL limbs differ by a pattern that a careless accumulation of limb differences cancels
	for _, tw := range limbTwins(r, bigP) {
		bin(tw[0], tw[1])
		bin(tw[1], tw[0])
	}
	// sum window: a + b in [p, 2^256): a = p - d1, b = d2 with d1 <= d2 < d1 + (2^256 - p)
	cwin := new(big.Int).Sub(big2_256, bigP)
	for i := 0; i < c.scale(200, 3000); i++ {
		d1 := add(randBig(r, pow2(uint(1+r.Intn(200)))), 1)
		d2 := new(big.Int).Add(d1, randBig(r, cwin))
		if d2.Cmp(bigP) >= 0 || d1.Cmp(bigP) >= 0 {
			continue
		}
		bin(new(big.Int).Sub(bigP, d1), d2)
		bin(d2, new(big.Int).Sub(bigP, d1))
	}
	// difference borrow patterns: a < b with a - b + 2^256 close to a limb boundary
	for i := 0; i < c.scale(100, 2000); i++ {
		b := randBig(r, bigP)
		d := randBig(r, pow2(uint(1+r.Intn(255))))
		a := new(big.Int).Sub(b, d)
		if a.Sign() < 0 {
			a.Add(a, bigP)
		}
		bin(a, b)
	}

	// ---- unary operations
	for _, a := range vals {
		ah := hx(be32(a)[:])
		x := feFrom(a)
		c.E("fe.Neg", "alias", "none", "a", ah, "out", feHex(field.NewElement().Negate(x)))
		c.E("fe.Sqr", "alias", "none", "a", ah, "out", feHex(field.NewElement().Square(x)))
		c.E("fe.Inv", "alias", "none", "a", ah, "out", feHex(field.NewElement().Invert(x)))
		c.E("fe.Set", "alias", "none", "a", ah, "out", feHex(field.NewElement().Set(x)))
		c.E("fe.NewFrom", "alias", "none", "a", ah, "out", feHex(field.NewElementFrom(x)))
		x = feFrom(a)
		c.E("fe.Neg", "alias", "r=a", "a", ah, "out", feHex(x.Negate(x)))
		x = feFrom(a)
		c.E("fe.Sqr", "alias", "r=a", "a", ah, "out", feHex(x.Square(x)))
		x = feFrom(a)
		c.E("fe.Inv", "alias", "r=a", "a", ah, "out", feHex(x.Invert(x)))
		x = feFrom(a)
		c.E("fe.IsZero", "a", ah, "out", int(x.IsZero()))
		c.E("fe.IsOdd", "a", ah, "out", int(x.IsOdd()))
		c.E("fe.String", "a", ah, "out", x.String())
		for _, ctrl := range []uint64{0, 1, 1 << 32, 0xffffffffffffffff} {
			x = feFrom(a)
			c.E("fe.CNeg", "a", ah, "c", b2i(ctrl != 0), "out", feHex(field.NewElement().ConditionalNegate(x, ctrl)))
			c.E("fe.CNeg", "a", ah, "c", b2i(ctrl != 0), "out", feHex(x.ConditionalNegate(x, ctrl)))
		}
		// Sqrt on a, on a^2 (always a residue) and on -a^2 (non-residue unless a = 0, since p = 3 mod 4)
		sq := new(big.Int).Mod(new(big.Int).Mul(a, a), bigP)
		nsq := new(big.Int).Mod(new(big.Int).Neg(sq), bigP)
		for _, v := range []*big.Int{a, sq, nsq} {
			vh := hx(be32(v)[:])
			x = feFrom(v)
			rcv := feJunk(r)
			_, flag := rcv.Sqrt(x)
			c.E("fe.Sqrt", "alias", "none", "a", vh, "out", feHex(rcv), "flag", int(flag), "a_post", feHex(x))
			_, flag = x.Sqrt(x)
			c.E("fe.Sqrt", "alias", "r=a", "a", vh, "out", feHex(x), "flag", int(flag), "a_post", feHex(x))
		}
		x = feFrom(a)
		c.E("fe.Pow3mod4", "a", ah, "out", feHex(field.NewElement().VerifPow3mod4(x)))
		c.E("fe.Pow3mod4", "a", ah, "out", feHex(x.VerifPow3mod4(x)))
	}
	// Pow2k
	for _, k := range []uint{1, 2, 3, 4, 5, 6, 7, 8, 63, 64, 255, 256, 1000} {
		for i := 0; i < 4+len(grid)/40; i++ {
			a := vals[r.Intn(len(vals))]
			x := feFrom(a)
			c.E("fe.Pow2k", "a", hx(be32(a)[:]), "k", int(k), "out", feHex(field.NewElement().Pow2k(x, k)), "panic", false)
			c.E("fe.Pow2k", "a", hx(be32(a)[:]), "k", int(k), "out", feHex(x.Pow2k(x, k)), "panic", false)
		}
	}
	{
		x := feFrom(big.NewInt(5))
		p := catch(func() { field.NewElement().Pow2k(x, 0) })
		c.E("fe.Pow2k", "a", feHex(x), "k", 0, "out", "", "panic", p)
	}
	// SqrtRatio
	for i := 0; i < c.scale(300, 4000); i++ {
		u := vals[r.Intn(len(vals))]
		v := vals[r.Intn(len(vals))]
		switch i % 7 {
		case 0:
			v = big.NewInt(0)
		case 1:
			u = big.NewInt(0)
		case 2:
			v = big.NewInt(1)
		case 3: // u/v a perfect square: u = v*w^2
			w := randBig(r, bigP)
			u = new(big.Int).Mod(new(big.Int).Mul(v, new(big.Int).Mul(w, w)), bigP)
		}
		uh, vh := hx(be32(u)[:]), hx(be32(v)[:])
		x, y := feFrom(u), feFrom(v)
		rcv := feJunk(r)
		_, flag := rcv.SqrtRatio(x, y)
		c.E("fe.SqrtRatio", "alias", "none", "u", uh, "v", vh, "out", feHex(rcv), "flag", int(flag), "u_post", feHex(x), "v_post", feHex(y))
		_, flag = x.SqrtRatio(x, y)
		c.E("fe.SqrtRatio", "alias", "r=u", "u", uh, "v", vh, "out", feHex(x), "flag", int(flag), "u_post", feHex(x), "v_post", feHex(y))
		x, y = feFrom(u), feFrom(v)
		_, flag = y.SqrtRatio(x, y)
		c.E("fe.SqrtRatio", "alias", "r=v", "u", uh, "v", vh, "out", feHex(y), "flag", int(flag), "u_post", feHex(x), "v_post", feHex(y))
	}

	// ---- decoding: all classes of 32-byte strings
	var strs []*big.Int
	for d := int64(-3); d <= 3; d++ {
		strs = append(strs, add(bigP, d))
	}
	for d := int64(1); d <= 4; d++ {
		strs = append(strs, add(big2_256, -d))
	}
	strs = append(strs, big.NewInt(0), big.NewInt(1))
	for i := 0; i < c.scale(200, 3000); i++ {
		strs = append(strs, new(big.Int).Add(bigP, randBig(r, cwin))) // random >= p
		strs = append(strs, randBig(r, big2_256))
	}
	for _, g := range grid {
		strs = append(strs, g)
	}
	for _, v := range strs {
		b := be32(v)
		bh := hx(b[:])
		rcv := feJunk(r)
		_, flag := rcv.SetBytes(b)
		c.E("fe.SetBytes", "in", bh, "out", feHex(rcv), "flag", int(flag))
		rcv = feJunk(r)
		pre := feHex(rcv)
		ret, err := rcv.SetCanonicalBytes(b)
		c.E("fe.SetCanonical", "in", bh, "ok", err == nil, "retnil", ret == nil, "pre", pre, "post", feHex(rcv))
		fe2, err2 := field.NewElementFromCanonicalBytes(b)
		o := ""
		if err2 == nil {
			o = feHex(fe2)
		}
		c.E("fe.NewFromCanonical", "in", bh, "ok", err2 == nil, "retnil", fe2 == nil, "out", o)
		c.E("fe.BytesAreCanonical", "in", bh, "out", field.BytesAreCanonical(b))
		rcv = feJunk(r)
		pre = feHex(rcv)
		pn := catch(func() { rcv.MustSetCanonicalBytes(b) })
		c.E("fe.MustSetCanonical", "in", bh, "panic", pn, "pre", pre, "post", feHex(rcv))
	}
	// wide reduction: every length 32..64, boundary-heavy content; 31 and 65 must panic
	for l := 31; l <= 65; l++ {
		reps := c.scale(6, 60)
		for k := 0; k < reps; k++ {
			var b []byte
			switch k % 6 {
			case 0:
				b = make([]byte, l) // zeros
			case 1:
				b = make([]byte, l)
				for i := range b {
					b[i] = 0xff
				}
			case 2: // p, or p left-padded / followed by junk
				b = make([]byte, l)
				if l >= 32 {
					copy(b[l-32:], be32(bigP)[:])
					if k%12 == 2 && l > 32 {
						b[0] = 1
					}
				}
			case 3: // k*p + small
				if l < 32 {
					b = randBytes(r, l)
					break
				}
				m := new(big.Int).Mul(bigP, randBig(r, pow2(uint(8*(l-32)+1))))
				m.Add(m, big.NewInt(int64(r.Intn(3))))
				if m.BitLen() <= 8*l {
					b = make([]byte, l)
					m.FillBytes(b)
				} else {
					b = randBytes(r, l)
				}
			default:
				b = randBytes(r, l)
			}
			rcv := feJunk(r)
			pn := catch(func() { rcv.SetWideBytes(b) })
			o := ""
			if !pn {
				o = feHex(rcv)
			}
			c.E("fe.SetWide", "in", hx(b), "len", l, "panic", pn, "out", o)
		}
	}
	for _, b := range wideFoldInputs(r) { // aimed at the carries of a special-form fold (round 8)
		rcv := feJunk(r)
		rcv.SetWideBytes(b)
		c.E("fe.SetWide", "in", hx(b), "len", len(b), "panic", false, "out", feHex(rcv), "fold", true)
	}
	// NewElementFromUint64, Zero, One
	for _, u := range []uint64{0, 1, 2, 1 << 31, 1 << 32, 1<<63 - 1, 1 << 63, 0xffffffffffffffff, r.Uint64()} {
		c.E("fe.FromUint64", "in", hx(be32(new(big.Int).SetUint64(u))[:]), "out", feHex(field.NewElementFromUint64(u)))
	}
	c.E("fe.Zero", "out", feHex(feJunk(r).Zero()))
	c.E("fe.One", "out", feHex(feJunk(r).One()))
	c.E("fe.Const", "name", "two192", "out", feHex(field.VerifTwo192()))
	c.E("fe.Const", "name", "two384", "out", feHex(field.VerifTwo384()))
	c.E("fe.Const", "name", "c2", "out", feHex(field.VerifC2()))
	ms := field.VerifMSat()
	c.E("fe.Const", "name", "msat", "out", hx(be32(limbsToBig([4]uint64{ms[0], ms[1], ms[2], ms[3]}))[:]))

	// ---- raw fiat entry points with operands placed directly in the Montgomery domain
	mont := func(x, y *big.Int) {
		xl, yl := bigToLimbs(x), bigToLimbs(y)
		var out fiat.MontgomeryDomainFieldElement
		xa, ya := fiat.MontgomeryDomainFieldElement(xl), fiat.MontgomeryDomainFieldElement(yl)
		fiat.Mul(&out, &xa, &ya)
		c.E("mont.Mul", "a", hx(be32(x)[:]), "b", hx(be32(y)[:]), "out", hx(be32(limbsToBig(out))[:]))
		if x.Cmp(y) == 0 {
			fiat.Square(&out, &xa)
			c.E("mont.Sqr", "a", hx(be32(x)[:]), "out", hx(be32(limbsToBig(out))[:]))
		}
		fiat.Add(&out, &xa, &ya)
		c.E("mont.Add", "a", hx(be32(x)[:]), "b", hx(be32(y)[:]), "out", hx(be32(limbsToBig(out))[:]))
		fiat.Sub(&out, &xa, &ya)
		c.E("mont.Sub", "a", hx(be32(x)[:]), "b", hx(be32(y)[:]), "out", hx(be32(limbsToBig(out))[:]))
		// through the Element wrapper as well (Multiply on Montgomery-domain operands)
		ex, ey := field.NewElement().VerifSetMont(xl), field.NewElement().VerifSetMont(yl)
		ez := field.NewElement().Multiply(ex, ey)
		c.E("mont.Mul", "a", hx(be32(x)[:]), "b", hx(be32(y)[:]), "out", hx(be32(limbsToBig(ez.VerifMont()))[:]))
	}
	got := 0
	for tries := 0; got < c.scale(300, 5000) && tries < 100000; tries++ {
		x, y, ok := montWindowPair(r, bigP)
		if !ok {
			continue
		}
		got++
		mont(x, y)
		mont(y, x)
	}
	for i := 0; i < c.scale(200, 3000); i++ {
		mont(vals[r.Intn(len(vals))], vals[r.Intn(len(vals))])
		v := vals[r.Intn(len(vals))]
		mont(v, v)
	}
	// square window: x with (x*x + mm*p)/R >= p: search near sqrt-like candidates by random trial on values near p
	for i := 0; i < c.scale(2000, 40000); i++ {
		x := new(big.Int).Sub(bigP, add(randBig(r, pow2(uint(1+r.Intn(60)))), 1))
		xl := bigToLimbs(x)
		xa := fiat.MontgomeryDomainFieldElement(xl)
		var out fiat.MontgomeryDomainFieldElement
		fiat.Square(&out, &xa)
		c.E("mont.Sqr", "a", hx(be32(x)[:]), "out", hx(be32(limbsToBig(out))[:]))
	}
	for _, v := range vals {
		vl := bigToLimbs(v)
		var nm fiat.NonMontgomeryDomainFieldElement
		va := fiat.MontgomeryDomainFieldElement(vl)
		fiat.FromMontgomery(&nm, &va)
		c.E("mont.From", "a", hx(be32(v)[:]), "out", hx(be32(limbsToBig(nm))[:]))
		var md fiat.MontgomeryDomainFieldElement
		vn := fiat.NonMontgomeryDomainFieldElement(vl)
		fiat.ToMontgomery(&md, &vn)
		c.E("mont.To", "a", hx(be32(v)[:]), "out", hx(be32(limbsToBig(md))[:]))
		fiat.Opp(&md, &va)
		c.E("mont.Opp", "a", hx(be32(v)[:]), "out", hx(be32(limbsToBig(md))[:]))
		var nz uint64
		l4 := [4]uint64(vl)
		fiat.Nonzero(&nz, &l4)
		c.E("mont.Nonzero", "a", hx(be32(v)[:]), "out", b2i(nz != 0))
	}
	// reduceSaturated on every 256-bit class
	for _, v := range strs {
		l := bigToLimbs(v)
		var dst [4]uint64
		fl := field.VerifReduceSaturated(&dst, &l)
		c.E("fe.ReduceSat", "in", hx(be32(v)[:]), "out", hx(be32(limbsToBig(dst))[:]), "flag", int(fl), "alias", "none")
		fl = field.VerifReduceSaturated(&l, &l)
		c.E("fe.ReduceSat", "in", hx(be32(v)[:]), "out", hx(be32(limbsToBig(l))[:]), "flag", int(fl), "alias", "dst=src")
	}
	// setShortBytes: all lengths 0..31 (32 panics)
	for l := 0; l <= 32; l++ {
		b := randBytes(r, l)
		if l > 0 && l%3 == 0 {
			for i := range b {
				b[i] = 0xff
			}
		}
		rcv := feJunk(r)
		pn := catch(func() { rcv.VerifSetShortBytes(b) })
		o := ""
		if !pn {
			o = feHex(rcv)
		}
		c.E("fe.SetShort", "in", hx(b), "len", l, "panic", pn, "out", o)
	}
	fieldLife(c, r, vals)
}
