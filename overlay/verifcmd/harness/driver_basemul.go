//go:build verif

package main

import (
	"math/big"
	"math/rand"

	secp256k1 "gitlab.com/yawning/secp256k1-voi"
	"gitlab.com/yawning/secp256k1-voi/secec"
	"gitlab.com/yawning/secp256k1-voi/secec/bitcoin"
)

func init() {
	register("basemul", "C05: embedded generator tables (all 8160 + 480 entries) and fixed-base multiplication", driveBaseMul)
}

func driveBaseMul(c *ctx) {
	r := rand.New(rand.NewSource(c.seed))

	// ---- the tables: one stateful walk per row (the specification carries the running multiple)
	for i := 0; deep && i < 32; i++ {
		c.nextTrace()
		c.E("tbl.Row", "i", i)
		for j := 1; j <= 255; j++ {
			x, y := deepHugeTableEntry(i, j-1)
			c.E("tbl.Huge", "i", i, "j", j, "x", hx(x.Bytes()), "y", hx(y.Bytes()))
		}
	}
	c.sticky = false
	for i := 0; deep && i < 32; i++ {
		for j := 1; j <= 15; j++ {
			x, y := deepOddTableEntry(i, j-1)
			c.E("tbl.Odd", "i", i, "j", j, "x", hx(x.Bytes()), "y", hx(y.Bytes()))
		}
	}

	// ---- fixed-base multiplication
	var scalars []*big.Int
	// every single-byte scalar b * 256^i
	for i := 0; i < 32; i++ {
		for b := 1; b <= 255; b++ {
			scalars = append(scalars, new(big.Int).Lsh(big.NewInt(int64(b)), uint(8*i)))
		}
	}
	// adjacent two-byte combinations, zero nibbles / bytes in every position
	ones := bi("1111111111111111111111111111111111111111111111111111111111111111")
	effs := new(big.Int).Sub(bigN, big.NewInt(1))
	for i := 0; i < 31; i++ {
		v := new(big.Int).Lsh(big.NewInt(int64(1+r.Intn(255))*256+int64(1+r.Intn(255))), uint(8*i))
		scalars = append(scalars, v)
	}
	// every pair of byte positions (windows far apart, with zero bytes / whole zero limbs between them)
	for i := 0; i < 32; i++ {
		for j := i + 1; j < 32; j++ {
			if !c.thorough() && (i*32+j)%2 != int(c.seed%2) {
				continue
			}
			v := new(big.Int).Lsh(big.NewInt(int64(1+r.Intn(255))), uint(8*i))
			v.Add(v, new(big.Int).Lsh(big.NewInt(int64(1+r.Intn(255))), uint(8*j)))
			scalars = append(scalars, v)
		}
	}
	// every pattern of zero / non-zero 64-bit limbs
	for pat := 1; pat < 16; pat++ {
		for rep := 0; rep < 3; rep++ {
			var l [4]uint64
			for k := 0; k < 4; k++ {
				if pat&(1<<uint(k)) != 0 {
					l[k] = r.Uint64() | 1
					if rep == 1 {
						l[k] = 1
					}
				}
			}
			scalars = append(scalars, limbsToBig(l))
		}
	}
	for i := 0; i < 64; i++ {
		mask := new(big.Int).Lsh(big.NewInt(0xf), uint(4*i))
		scalars = append(scalars, new(big.Int).AndNot(ones, mask), new(big.Int).AndNot(effs, mask))
	}
	for i := 0; i < 32; i++ {
		mask := new(big.Int).Lsh(big.NewInt(0xff), uint(8*i))
		scalars = append(scalars, new(big.Int).AndNot(effs, mask))
	}
	half := new(big.Int).Rsh(add(bigN, -1), 1)
	for d := int64(0); d <= 2; d++ {
		scalars = append(scalars, big.NewInt(d), add(bigN, -1-d), add(half, d), add(half, -d))
	}
	for i := 0; i < c.scale(100, 3000); i++ {
		scalars = append(scalars, randBig(r, bigN))
	}
	for _, v := range steeredScalars(r, 0) { // round 10: the steered set of the variable-base multiply (ties, chosen halves, recoding-bias limbs) as well
		scalars = append(scalars, v)
	}
	for idx, s := range scalars {
		s = new(big.Int).Mod(s, bigN)
		sc := scFrom(s)
		v := rep(secp256k1.NewGeneratorPoint(), big.NewInt(int64(7+idx)))
		v.ScalarBaseMult(sc)
		c.E("bm.Mult", "kind", "ct", "s", h32(s), "out", ptRaw(v), "enc", hx(v.UncompressedBytes()), "s_post", hx(sc.Bytes()))
		if idx%3 == 0 { // recycled receivers from the library's own constructors (generator, decoded), observed through the encoders
			v = secp256k1.NewGeneratorPoint()
			if idx%2 == 0 {
				if _, err := v.SetBytes(mulG(big.NewInt(int64(idx + 2))).CompressedBytes()); err != nil {
					panic(err)
				}
			}
			v.ScalarBaseMult(sc)
			c.E("bm.Mult", "kind", "ct_recycled", "s", h32(s), "out", ptRaw(v), "enc", hx(v.UncompressedBytes()), "cmp", hx(v.CompressedBytes()))
		}
		if deep {
			v = rep(secp256k1.NewGeneratorPoint(), big.NewInt(int64(9+idx)))
			deepScalarBaseMultVartime(v, sc)
			c.E("bm.Mult", "kind", "vartime", "s", h32(s), "out", ptRaw(v))
		}
		if !deep || idx%3 == 1 || s.Sign() == 0 || s.BitLen() <= 8 { // the variable-time generator multiply through its exported caller: u1*G + 0*G
			v = secp256k1.NewGeneratorPoint()
			v.DoubleScalarMultBasepointVartime(sc, secp256k1.NewScalar(), secp256k1.NewGeneratorPoint())
			c.E("bm.Mult", "kind", "vartime_dsm", "s", h32(s), "out", ptRaw(v))
			if idx%5 == 1 { // ... with the receiver ALSO the point operand (round 10): u1*G must not be written into it before u2*P has been read
				u2 := scFrom(big.NewInt(int64(2 + idx%7)))
				p := rep(mulG(big.NewInt(int64(3+idx))), big.NewInt(int64(5+idx)))
				pre := ptRaw(p)
				p.DoubleScalarMultBasepointVartime(sc, u2, p)
				c.E("dsm", "alias", "v=p", "u1", h32(s), "u2", h32(big.NewInt(int64(2+idx%7))), "p", pre, "out", ptRaw(p))
			}
		}
		if idx%4 == 0 && s.Sign() != 0 {
			priv, err := secec.NewPrivateKey(be32(s)[:])
			if err != nil {
				panic(err)
			}
			c.E("bm.Priv", "s", h32(s), "pub", hx(priv.PublicKey().Bytes()), "cmp", hx(priv.PublicKey().CompressedBytes()))
			// ... and the key object still maps d to d*G after other objects were derived from it and its views were handed out
			_ = bitcoin.NewSchnorrPrivateKeyFromECDSA(priv)
			_ = bitcoin.NewSchnorrPublicKeyFromECDSA(priv.PublicKey())
			pt := priv.PublicKey().Point()
			pt.Negate(pt)
			c.E("bm.Priv", "s", h32(s), "pub", hx(priv.PublicKey().Point().UncompressedBytes()), "cmp", hx(priv.PublicKey().Point().CompressedBytes()), "after_derive", true)
			// a key built from a Scalar object the caller goes on using: the key pair still maps ITS scalar to scalar*G
			sObj := scFrom(s)
			if k2, err := secec.NewPrivateKeyFromScalar(sObj); err == nil {
				sObj.Add(sObj, secp256k1.NewScalarFromUint64(1))
				sObj.Zero()
				c.E("bm.Priv", "s", h32(s), "pub", hx(k2.PublicKey().Bytes()), "cmp", hx(k2.PublicKey().CompressedBytes()), "after_derive", true,
					"scalar", hx(k2.Scalar().Bytes()), "bytes", hx(k2.Bytes()))
			}
		}
	}
	// the generator multiply INSIDE the double multiply u1*G + u2*P: the variable part is chosen so that, whichever end the windows of
	// u1 are accumulated from, the running value (u2*P plus the windows taken so far) EQUALS the table entry about to be added, or is
	// its negative — the addition that joins them must be the complete one.  Every byte position.
	for pos := 0; pos < 32; pos++ {
		for rep := 0; rep < c.scale(2, 8); rep++ {
			u1 := randBig(r, bigN)
			if rep == 0 {
				u1 = new(big.Int).Lsh(big.NewInt(int64(1+r.Intn(255))), uint(8*pos)) // a single non-zero window
			}
			if pos == 31 {
				u1.Mod(u1, new(big.Int).Lsh(big.NewInt(int64(1+r.Intn(255))), 248)) // keep u1 below n
			}
			w := new(big.Int).And(new(big.Int).Rsh(u1, uint(8*pos)), big.NewInt(0xff))
			if w.Sign() == 0 {
				continue
			}
			entry := new(big.Int).Lsh(w, uint(8*pos))
			hi := new(big.Int).Lsh(new(big.Int).Rsh(u1, uint(8*pos+8)), uint(8*pos+8)) // the windows above pos
			lo := new(big.Int).Mod(u1, new(big.Int).Lsh(big.NewInt(1), uint(8*pos)))   // the windows below pos
			for _, partial := range []*big.Int{hi, lo} {
				for _, sign := range []int64{1, -1} {
					// u2*P + partial = sign * entry
					k := new(big.Int).Mod(new(big.Int).Sub(new(big.Int).Mul(big.NewInt(sign), entry), partial), bigN)
					if k.Sign() == 0 {
						continue
					}
					u2 := big.NewInt(1)
					kp := k
					if rep%2 == 1 { // ... with a non-trivial u2
						u2 = add(randBig(r, add(bigN, -1)), 1)
						kp = new(big.Int).Mod(new(big.Int).Mul(k, new(big.Int).ModInverse(u2, bigN)), bigN)
					}
					p := mulG(kp)
					v := secp256k1.NewIdentityPoint().DoubleScalarMultBasepointVartime(scFrom(u1), scFrom(u2), p)
					c.E("dsm", "alias", "none", "u1", h32(u1), "u2", h32(u2), "p", ptRaw(p), "out", ptRaw(v), "p_post", ptRaw(p), "window", pos)
				}
			}
		}
	}

}
