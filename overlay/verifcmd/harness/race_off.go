//go:build verif && !race

package main

const raceEnabled = false
