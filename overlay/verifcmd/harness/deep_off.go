//go:build verif && verifpub

package main

import (
	"errors"
	"io"
	"math/big"

	secp256k1 "gitlab.com/yawning/secp256k1-voi"
	"gitlab.com/yawning/secp256k1-voi/internal/field"
	"gitlab.com/yawning/secp256k1-voi/secec"
	"gitlab.com/yawning/secp256k1-voi/secec/bitcoin"
)

// Public-API-only build (see deep_on.go): every deep section is guarded by `if deep`, so none of the stubs below is ever called.
const deep = false

var errNoDeep = errors.New("harness: built without the verif accessors")

// ptIsValid: a zero-value Point panics in every method; that is the only way to tell through the exported API.
func ptIsValid(p *secp256k1.Point) (valid bool) {
	defer func() {
		if r := recover(); r != nil {
			valid = false
		}
	}()
	_ = p.IsIdentity()
	return true
}

func deepExpandXMD(out, dst, msg []byte) error                                      { return errNoDeep }
func deepVerifyAlt(d *secec.PrivateKey, digest []byte, r, s *secp256k1.Scalar) bool { panic(errNoDeep) }
func deepHugeTableEntry(i, j int) (*field.Element, *field.Element)                  { panic(errNoDeep) }
func deepOddTableEntry(i, j int) (*field.Element, *field.Element)                   { panic(errNoDeep) }
func deepScalarBaseMultVartime(v *secp256k1.Point, s *secp256k1.Scalar) *secp256k1.Point {
	panic(errNoDeep)
}
func deepSplitKey(d *secp256k1.Scalar, pub *secec.PublicKey) *secec.PrivateKey { panic(errNoDeep) }
func deepSampleRandomScalar(rd io.Reader) (*secp256k1.Scalar, error)           { return nil, errNoDeep }
func deepNewDrbgRFC6979(x, e *secp256k1.Scalar) io.Reader                      { panic(errNoDeep) }
func deepHashToScalar(h []byte) (*secp256k1.Scalar, error)                     { return nil, errNoDeep }

func watchFe(fe *field.Element, b []byte)   {}
func watchSc(s *secp256k1.Scalar, b []byte) {}

// Without the accessors a point is only visible through its encodings: the "raw" form is the affine one (Z = 1; the identity
// as (0, 1, 0)), and other projective representatives of a point cannot be constructed.
func ptRaw(p *secp256k1.Point) string {
	one := h32(big.NewInt(1))
	zero := h32(big.NewInt(0))
	if p.IsIdentity() == 1 {
		return zero + one + zero
	}
	return hx(p.UncompressedBytes()[1:]) + one
}

func rep(p *secp256k1.Point, z *big.Int) *secp256k1.Point { return secp256k1.NewPointFrom(p) }
func idRep(y *big.Int) *secp256k1.Point                   { return secp256k1.NewIdentityPoint() }
func clonePt(p *secp256k1.Point) *secp256k1.Point         { return secp256k1.NewPointFrom(p) }

func deepImages(sh *shared) map[string][]byte { panic(errNoDeep) }

// the exported signing path with the auxiliary randomness supplied through the reader; self-verification is the exported Verify;
// the signing scalar is d' or n - d' according to the parity of d'G (recomputed here: an untrusted convenience for the log)
func deepSignSchnorr(aux *[32]byte, sk *bitcoin.SchnorrPrivateKey, msg []byte) ([]byte, error) {
	return sk.Sign(&fixedReader{append([]byte{}, aux[:]...)}, msg, nil)
}
func deepVerifySchnorrSelf(sk *bitcoin.SchnorrPrivateKey, msg, sig []byte) bool {
	return sk.PublicKey().Verify(msg, sig)
}
func deepSchnorrD(sk *bitcoin.SchnorrPrivateKey) []byte {
	d := sk.Scalar()
	if secp256k1.NewIdentityPoint().ScalarBaseMult(d).IsYOdd() == 1 {
		d.Negate(d)
	}
	return d.Bytes()
}
