//go:build verif

package main

import (
	"bytes"
	"encoding/json"
	"math/big"
	"math/rand"
	"os"
	"path/filepath"
	"strconv"
	"strings"

	secp256k1 "gitlab.com/yawning/secp256k1-voi"
	"gitlab.com/yawning/secp256k1-voi/internal/swu"
	"gitlab.com/yawning/secp256k1-voi/secec/h2c"
)

func init() {
	register("h2c", "C15: RFC 9380 suites, uniform-bytes map, expand_message_xmd, SWU and isogeny on steered inputs", driveH2C)
}

func driveH2C(c *ctx) {
	rng := rand.New(rand.NewSource(c.seed))

	steer := ""
	suite := func(name string, dst, msg []byte, vector bool) {
		f := h2c.Secp256k1_XMD_SHA256_SSWU_RO
		if name == "NU" {
			f = h2c.Secp256k1_XMD_SHA256_SSWU_NU
		}
		p, err := f(append([]byte{}, dst...), append([]byte{}, msg...))
		o, again := "", ""
		if err == nil {
			o = hx(p.UncompressedBytes())
			p2, _ := f(dst, msg)
			again = hx(p2.UncompressedBytes())
		}
		if steer != "" {
			c.E("h2c.Suite", "suite", name, "dst", hx(dst), "msg", hx(msg), "ok", err == nil, "out", o, "again", again, "vector", vector, "steer", steer)
			return
		}
		c.E("h2c.Suite", "suite", name, "dst", hx(dst), "msg", hx(msg), "ok", err == nil, "out", o, "again", again, "vector", vector)
	}
	uniform := func(src []byte) {
		var o, again, zrecv string
		pn := catch(func() {
			o = hx(secp256k1.NewIdentityPoint().SetUniformBytes(append([]byte{}, src...)).UncompressedBytes())
			again = hx(secp256k1.NewGeneratorPoint().SetUniformBytes(src).UncompressedBytes())
			zrecv = hx(new(secp256k1.Point).SetUniformBytes(src).UncompressedBytes()) // a zero-value receiver is simply overwritten
		})
		c.E("h2c.Uniform", "in", hx(src), "panic", pn, "out", o, "again", again, "zrecv", zrecv)
	}
	xmd := func(dst, msg []byte, n int, vector bool) {
		if !deep {
			return
		}
		out := make([]byte, n)
		err := deepExpandXMD(out, dst, msg)
		o := ""
		if err == nil {
			o = hx(out)
		}
		c.E("h2c.Xmd", "dst", hx(dst), "msg", hx(msg), "len", n, "ok", err == nil, "out", o, "vector", vector)
	}

	// ---- suites: DST lengths 1, 254..257, 1000+, messages of many lengths
	dstLens := []int{1, 2, 16, 43, 254, 255, 256, 257, 1000, 5000}
	msgLens := []int{0, 1, 3, 31, 32, 33, 55, 56, 63, 64, 65, 119, 120, 128, 129, 200, 300}
	for di, dl := range dstLens {
		dst := randBytes(rng, dl)
		for mi, ml := range msgLens {
			if !c.thorough() && (di+mi)%3 != 0 && dl != 255 && dl != 256 {
				continue
			}
			msg := randBytes(rng, ml)
			suite("RO", dst, msg, false)
			suite("NU", dst, msg, false)
			if ml == 0 { // the zero-length message as a nil slice
				suite("RO", dst, nil, false)
				suite("NU", dst, nil, false)
			}
		}
	}
	// messages searched (with an untrusted expand_message_xmd) until a hash_to_field element has one or two zero leading bytes, or
	// lies in [p, 2^256) before... no: elements are 48-byte strings reduced mod p; the REDUCED element is what is steered here
	{
		dst := []byte("QUUX-V01-CS02-with-secp256k1_XMD:SHA-256_SSWU_RO_")
		steer = "u_short"
		for _, sn := range []string{"RO", "NU"} {
			n := 96
			if sn == "NU" {
				n = 48
			}
			for _, zeros := range []int{1, 1, 1, 2} {
				if zeros == 2 && !c.thorough() && sn == "RO" {
					continue
				}
				bound := pow2(uint(256 - 8*zeros))
				for ctr := 0; ctr < 300000; ctr++ {
					msg := []byte("steered-" + itoa(ctr) + "-" + itoa(int(c.seed)) + sn + itoa(zeros))
					ub := xmdSHA256(msg, dst, n)
					hit := false
					for i := 0; i < n/48; i++ {
						if new(big.Int).Mod(new(big.Int).SetBytes(ub[48*i:48*i+48]), bigP).Cmp(bound) < 0 {
							hit = true
						}
					}
					if hit {
						suite(sn, dst, msg, false)
						dst = append([]byte{}, dst[:len(dst)-1]...) // another tag for the next search
						dst = append(dst, byte('A'+ctr%26))
						break
					}
				}
			}
		}
		steer = ""
	}
	// tags whose LENGTH only fits wider integers: around 2^16 and 2^17, and lengths that are small modulo 2^8 / 2^16
	// (every tag longer than 255 bytes is hashed down first; its length is never serialized)
	for _, dl := range []int{65535, 65536, 65537, 65536 + 255, 65536 + 43, 131072, 131072 + 7} {
		dst := randBytes(rng, dl)
		msg := randBytes(rng, rng.Intn(40))
		suite("RO", dst, msg, false)
		suite("NU", dst, msg, false)
		xmd(dst, msg, 48, false)
	}
	// tag and message live in ONE buffer (frame[:n], frame[n:]) with spare bytes behind: the call is a pure function of its
	// arguments and writes nothing the caller owns
	for _, n := range []int{1, 16, 43, 200, 255} {
		for _, sn := range []string{"RO", "NU"} {
			frame := append(randBytes(rng, n), []byte("abc-the-message-follows-the-tag")...)
			frame = append(frame, bytes.Repeat([]byte{0x5A}, 40)...)[:len(frame)]
			before := append([]byte{}, frame[:cap(frame)]...)
			dst, msg := frame[:n], frame[n:]
			dh, mh := hx(dst), hx(msg)
			f := h2c.Secp256k1_XMD_SHA256_SSWU_RO
			if sn == "NU" {
				f = h2c.Secp256k1_XMD_SHA256_SSWU_NU
			}
			p, err := f(dst, msg)
			o := ""
			if err == nil {
				o = hx(p.UncompressedBytes())
			}
			c.E("h2c.Suite", "suite", sn, "dst", dh, "msg", mh, "ok", err == nil, "out", o, "again", o, "vector", false,
				"args_same", bytes.Equal(before, frame[:cap(frame)]))
		}
	}
	// consecutive calls whose DST || message concatenations coincide (the boundary between the two moved): independent results
	for _, k := range []int{1, 2, 3, 7} {
		dst, msg := []byte("QUUX-V01-CS02-with-secp256k1_XMD:SHA-256_SSWU_RO_"), []byte("abcdefghijklmnop")
		for _, sn := range []string{"RO", "NU"} {
			suite(sn, dst, msg, false)
			suite(sn, append(append([]byte{}, dst...), msg[:k]...), msg[k:], false)
			suite(sn, dst[:len(dst)-k], append(append([]byte{}, dst[len(dst)-k:]...), msg...), false)
			suite(sn, dst, msg, false)
		}
	}
	suite("RO", nil, []byte("x"), false)
	suite("NU", []byte{}, []byte("x"), false)
	for i := 0; i < c.scale(20, 400); i++ {
		suite([]string{"RO", "NU"}[i%2], randBytes(rng, 1+rng.Intn(60)), randBytes(rng, rng.Intn(200)), false)
	}

	// ---- uniform bytes: every length 31..65, boundary-heavy content, steered u
	invOf := func(v *big.Int) *big.Int { return new(big.Int).ModInverse(v, bigP) }
	var us []*big.Int
	us = append(us, big.NewInt(0), big.NewInt(1), add(bigP, -1), big.NewInt(2), add(bigP, -2))
	if r := sqrtP(invOf(big.NewInt(11))); r != nil { // u^2 = 1/11: the SWU denominator vanishes
		us = append(us, r, new(big.Int).Sub(bigP, r))
	}
	for i := 0; i < c.scale(40, 600); i++ {
		us = append(us, randBig(rng, bigP))
	}
	for i, u := range us {
		// as a 32-byte string, as u + p when it fits, and as u + k p in 33..64 bytes
		uniform(be32(u)[:])
		if up := new(big.Int).Add(u, bigP); up.BitLen() <= 256 {
			uniform(be32(up)[:])
		}
		l := 33 + (i*7)%32
		k := randBig(rng, pow2(uint(8*(l-32))))
		v := new(big.Int).Add(u, new(big.Int).Mul(k, bigP))
		if v.BitLen() <= 8*l {
			b := make([]byte, l)
			v.FillBytes(b)
			uniform(b)
		}
		// deep: the SWU map and the isogeny on this u
		x, y := swu.MapToCurveSimpleSWU(feFrom(u))
		c.E("h2c.Swu", "u", h32(u), "x", hx(x.Bytes()), "y", hx(y.Bytes()))
		ox, oy, fl := swu.IsoMap(x, y)
		c.E("h2c.Iso", "x", hx(x.Bytes()), "y", hx(y.Bytes()), "ox", hx(ox.Bytes()), "oy", hx(oy.Bytes()), "flag", int(fl))
	}
	for l := 31; l <= 65; l++ {
		uniform(randBytes(rng, l))
		uniform(bytes.Repeat([]byte{0xff}, l))
		uniform(make([]byte, l))
	}
	// isogeny exceptional inputs: roots of the x- and y-denominators (if any), arbitrary y'
	k20, k21 := bi("d35771193d94918a9ca34ccbb7b640dd86cd409542f8487d9fe6b745781eb49b"), bi("edadc6f64383dc1df7c4b2d51b54225406d36b641f5e41bbc52a56612a8c6d14")
	disc := new(big.Int).Sub(new(big.Int).Mul(k21, k21), new(big.Int).Mul(big.NewInt(4), k20))
	disc.Mod(disc, bigP)
	if sd := sqrtP(disc); sd != nil {
		for _, sgn := range []int64{1, -1} {
			xr := new(big.Int).Add(new(big.Int).Neg(k21), new(big.Int).Mul(big.NewInt(sgn), sd))
			xr.Mul(xr, invOf(big.NewInt(2)))
			xr.Mod(xr, bigP)
			yv := randBig(rng, bigP)
			ox, oy, fl := swu.IsoMap(feFrom(xr), feFrom(yv))
			c.E("h2c.Iso", "x", h32(xr), "y", h32(yv), "ox", hx(ox.Bytes()), "oy", hx(oy.Bytes()), "flag", int(fl))
		}
	}
	// y-denominator x'^3 + k42 x'^2 + k41 x' + k40: try to find a root by scanning is infeasible; sample arbitrary (x', y') instead
	for i := 0; i < c.scale(10, 100); i++ {
		xv, yv := randBig(rng, bigP), randBig(rng, bigP)
		ox, oy, fl := swu.IsoMap(feFrom(xv), feFrom(yv))
		c.E("h2c.Iso", "x", h32(xv), "y", h32(yv), "ox", hx(ox.Bytes()), "oy", hx(oy.Bytes()), "flag", int(fl))
	}

	// ---- expand_message_xmd: output lengths around block boundaries, DST lengths, the maximum ell
	for _, dl := range []int{1, 16, 254, 255, 256, 257, 1000} {
		dst := randBytes(rng, dl)
		for _, n := range []int{1, 31, 32, 33, 48, 63, 64, 65, 96, 100, 255, 256, 257} {
			xmd(dst, randBytes(rng, rng.Intn(100)), n, false)
		}
	}
	// every message length 0..700 against tags of 1, 16, 49, 255 and 256 (hashed down to 32) bytes: msg_prime crosses every block,
	// buffer and power-of-two boundary at exactly one message length per tag
	for _, dl := range []int{1, 16, 49, 255, 256} {
		dst := randBytes(rng, dl)
		for ml := 0; ml <= 700; ml++ { // round 9: up to 700 and every length for every tag (a 512-byte scratch buffer has its boundary near 400)
			m := randBytes(rng, ml)
			xmd(dst, m, 96, false)
			if dl == 49 || (dl == 1 && ml >= 120 && ml <= 200) || c.thorough() {
				suite("NU", dst, m, false)
			}
		}
	}
	// every output length 1..300 (ell = 1..10; partial last blocks), and the multiples of 32 up to the limit
	{
		dst, m := randBytes(rng, 20), randBytes(rng, 11)
		for n := 1; n <= 300; n++ {
			xmd(dst, m, n, false)
		}
		for n := 320; n <= 8160; n += 32 * 35 {
			xmd(dst, m, n, false)
			xmd(dst, m, n-1, false)
		}
	}
	xmd([]byte("d"), []byte("m"), 8160, false)
	xmd([]byte("d"), []byte("m"), 8161, false)
	xmd([]byte("d"), []byte("m"), 0, false)
	xmd(nil, []byte("m"), 32, false)
	if c.thorough() {
		xmd([]byte("d"), []byte("m"), 65535, false)
		xmd([]byte("d"), []byte("m"), 65536, false)
	}

	// ---- the RFC's vectors from the repository's testdata
	td := filepath.Join(c.repo, "secec", "h2c", "testdata")
	for _, fn := range []string{"expand_message_xmd_SHA256_38.json", "expand_message_xmd_SHA256_256.json"} {
		raw, err := os.ReadFile(filepath.Join(td, fn))
		if err != nil {
			continue
		}
		var doc struct {
			DST   string `json:"DST"`
			Tests []struct {
				Len string `json:"len_in_bytes"`
				Msg string `json:"msg"`
			} `json:"tests"`
		}
		if json.Unmarshal(raw, &doc) != nil {
			continue
		}
		for _, t := range doc.Tests {
			n, err := strconv.ParseInt(strings.TrimPrefix(t.Len, "0x"), 16, 32)
			if err != nil {
				continue
			}
			xmd([]byte(doc.DST), []byte(t.Msg), int(n), true)
		}
	}
	for _, s := range []struct{ fn, name string }{{"secp256k1_XMD_SHA-256_SSWU_RO_.json", "RO"}, {"secp256k1_XMD_SHA-256_SSWU_NU_.json", "NU"}} {
		raw, err := os.ReadFile(filepath.Join(td, s.fn))
		if err != nil {
			continue
		}
		var doc struct {
			DST     string `json:"dst"`
			Vectors []struct {
				Msg string `json:"msg"`
			} `json:"vectors"`
		}
		if json.Unmarshal(raw, &doc) != nil {
			continue
		}
		for _, v := range doc.Vectors {
			suite(s.name, []byte(doc.DST), []byte(v.Msg), true)
		}
	}
}
