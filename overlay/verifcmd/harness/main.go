//go:build verif

// Command harness drives the real secp256k1-voi code and logs one ndjson event per call.
// It is copied by /verif/bin/check into a scratch copy of the working tree (together with the
// verif_export.go accessors) and built there with -tags verif; it is never part of /repo.
//
// The drivers and their input generators are NOT trusted: every logged result is re-derived by
// TLC from the logged arguments with the TLA+ specification under /verif/spec.
package main

import (
	"bufio"
	"flag"
	"fmt"
	"hash/fnv"
	"os"
	"path/filepath"
	"runtime/debug"
	"sort"
	"strconv"
	"strings"
)

type driver struct {
	name string
	run  func(c *ctx)
	doc  string
}

var drivers = map[string]driver{}

func register(name, doc string, run func(c *ctx)) {
	drivers[name] = driver{name: name, run: run, doc: doc}
}

// ctx carries the run configuration and the sharded event log.
type ctx struct {
	seed    int64
	tier    string
	outDir  string
	shards  int
	ws      []*bufio.Writer
	fs      []*os.File
	n       int // events emitted
	cur     int // current shard for sticky (stateful) traces
	sticky  bool
	replay  string
	repo    string // root of the (scratch copy of the) repository, for re-driving its vector files
	verbose bool
	seen    map[uint64]struct{}
	dups    int
}

func (c *ctx) thorough() bool { return c.tier == "thorough" }

// scale returns q in the quick tier and t in the thorough tier.
func (c *ctx) scale(q, t int) int {
	if c.thorough() {
		return t
	}
	return q
}

func (c *ctx) open() {
	if err := os.MkdirAll(c.outDir, 0o755); err != nil {
		fatal(err)
	}
	for i := 0; i < c.shards; i++ {
		f, err := os.Create(filepath.Join(c.outDir, fmt.Sprintf("shard-%02d.ndjson", i)))
		if err != nil {
			fatal(err)
		}
		c.fs = append(c.fs, f)
		c.ws = append(c.ws, bufio.NewWriterSize(f, 1<<20))
	}
}

func (c *ctx) close() {
	for i := range c.ws {
		_ = c.ws[i].Flush()
		_ = c.fs[i].Close()
	}
}

// nextTrace moves to the next shard; used by stateful drivers so that one logical trace
// (delimited by "Reset" events) stays inside one shard.
func (c *ctx) nextTrace() {
	c.sticky = true
	c.cur = (c.cur + 1) % c.shards
}

// E emits one event.  kv is a list of key, value pairs; values may be string, int, uint64 (small),
// bool, []string, []int.
func (c *ctx) E(ev string, kv ...any) {
	var sb strings.Builder
	sb.WriteString(`{"ev":`)
	sb.WriteString(strconv.Quote(ev))
	for i := 0; i+1 < len(kv); i += 2 {
		sb.WriteByte(',')
		sb.WriteString(strconv.Quote(kv[i].(string)))
		sb.WriteByte(':')
		writeVal(&sb, kv[i+1])
	}
	sb.WriteString("}\n")
	line := sb.String()
	sh := c.cur
	if !c.sticky {
		// stateless events: drop exact duplicates so that every logged line is a distinct case
		h := fnv.New64a()
		_, _ = h.Write([]byte(line))
		k := h.Sum64()
		if _, dup := c.seen[k]; dup {
			c.dups++
			return
		}
		c.seen[k] = struct{}{}
		sh = c.n % c.shards
	}
	_, _ = c.ws[sh].WriteString(line)
	c.n++
}

func writeVal(sb *strings.Builder, v any) {
	switch t := v.(type) {
	case rawJSON:
		sb.WriteString(string(t))
	case string:
		sb.WriteString(strconv.Quote(t))
	case int:
		if t > 1<<30 || t < -(1<<30) {
			panic("harness: integer too large for TLC")
		}
		sb.WriteString(strconv.Itoa(t))
	case uint64:
		if t > 1<<30 {
			panic("harness: integer too large for TLC")
		}
		sb.WriteString(strconv.FormatUint(t, 10))
	case bool:
		if t {
			sb.WriteString("true")
		} else {
			sb.WriteString("false")
		}
	case []string:
		sb.WriteByte('[')
		for i, s := range t {
			if i > 0 {
				sb.WriteByte(',')
			}
			sb.WriteString(strconv.Quote(s))
		}
		sb.WriteByte(']')
	case []int:
		sb.WriteByte('[')
		for i, s := range t {
			if i > 0 {
				sb.WriteByte(',')
			}
			sb.WriteString(strconv.Itoa(s))
		}
		sb.WriteByte(']')
	default:
		panic(fmt.Sprintf("harness: unsupported value type %T", v))
	}
}

// canonSink receives the internal-representation observations of scHex / feHex (set for the drivers that want them).
var (
	canonSink *ctx
	canonSeen int
)

func fatal(err any) {
	fmt.Fprintln(os.Stderr, "harness:", err)
	os.Exit(2)
}

func main() {
	if len(os.Args) < 2 {
		names := make([]string, 0, len(drivers))
		for n := range drivers {
			names = append(names, n)
		}
		sort.Strings(names)
		fmt.Fprintln(os.Stderr, "usage: harness <driver> [-seed N] [-tier quick|thorough] [-out DIR] [-shards K]")
		for _, n := range names {
			fmt.Fprintf(os.Stderr, "  %-12s %s\n", n, drivers[n].doc)
		}
		os.Exit(2)
	}
	d, ok := drivers[os.Args[1]]
	if !ok {
		fatal("unknown driver " + os.Args[1])
	}
	fs := flag.NewFlagSet(d.name, flag.ExitOnError)
	c := &ctx{seen: map[uint64]struct{}{}}
	fs.Int64Var(&c.seed, "seed", 1, "random seed")
	fs.StringVar(&c.tier, "tier", "quick", "quick|thorough")
	fs.StringVar(&c.outDir, "out", ".", "output directory for shard-XX.ndjson")
	fs.IntVar(&c.shards, "shards", 1, "number of shards")
	fs.StringVar(&c.replay, "replay", "", "re-execute the events of this ndjson file instead of generating")
	fs.StringVar(&c.repo, "repo", ".", "repository root (for vector files)")
	fs.BoolVar(&c.verbose, "v", false, "verbose")
	_ = fs.Parse(os.Args[2:])
	c.open()
	if d.name == "scalar" || d.name == "field" {
		canonSink = c
	}
	func() {
		// A library call that the driver relies on (and that must succeed on valid inputs) failed or panicked: this is an
		// observation about the code under test, not a harness error.  It is logged as an event that every trace
		// specification rejects, and the driver stops there.
		defer func() {
			if r := recover(); r != nil {
				c.sticky = true
				// (function names only: addresses and goroutine ids differ between runs and the event must reproduce)
				var fns []string
				for _, ln := range strings.Split(string(debug.Stack()), "\n") {
					if !strings.HasPrefix(ln, "\t") && strings.Contains(ln, "secp256k1-voi") && len(fns) < 12 {
						if i := strings.LastIndex(ln, "("); i > 0 {
							ln = ln[:i]
						}
						fns = append(fns, ln)
					}
				}
				what := fmt.Sprint(r)
				if len(fns) == 0 && (strings.HasPrefix(what, "be32:") || strings.HasPrefix(what, "harness:") || strings.HasPrefix(what, "runtime error:")) {
					// no frame of the library on the stack and a message of the harness' own: a defect of the harness, never a verdict
					fmt.Fprintf(os.Stderr, "HARNESS-ERROR driver=%s: %s\n%s\n", d.name, what, debug.Stack())
					c.close()
					os.Exit(3)
				}
				c.E("lib.Unexpected", "driver", d.name, "what", what, "where", fns)
			}
		}()
		d.run(c)
	}()
	c.close()
	fmt.Printf("HARNESS driver=%s events=%d dups=%d shards=%d seed=%d tier=%s\n", d.name, c.n, c.dups, c.shards, c.seed, c.tier)
}
