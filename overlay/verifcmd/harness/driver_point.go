//go:build verif && !verifpub

package main

import (
	"math/big"
	"math/rand"

	secp256k1 "gitlab.com/yawning/secp256k1-voi"
)

func init() {
	register("point", "C03: group law on arbitrary projective representatives, predicates, encodings, chains", drivePoint)
}

type namedRep struct {
	p    *secp256k1.Point
	abst int // index of the abstract point
}

// repPool builds representatives of a set of abstract points: z in {1, 2, p-1, random}.
func repPool(r *rand.Rand, abstract []*secp256k1.Point, nz int) []namedRep {
	var out []namedRep
	zs := []*big.Int{big.NewInt(1), big.NewInt(2), add(bigP, -1)}
	zs = append(zs, montPatternValues(r, bigP)[:4]...) // Z whose internal limbs are structured (all low halves zero, a single limb set)
	for i, a := range abstract {
		for k := 0; k < nz; k++ {
			var z *big.Int
			if k < len(zs) {
				z = zs[k]
			} else {
				z = add(randBig(r, add(bigP, -1)), 1)
			}
			if a.IsIdentity() == 1 {
				out = append(out, namedRep{idRep(z), i})
			} else {
				out = append(out, namedRep{rep(a, z), i})
			}
		}
	}
	return out
}

func drivePoint(c *ctx) {
	r := rand.New(rand.NewSource(c.seed))
	k1 := add(randBig(r, add(bigN, -3)), 2)
	k2 := add(randBig(r, add(bigN, -3)), 2)
	R1, R2 := mulG(k1), mulG(k2)
	G := secp256k1.NewGeneratorPoint()
	neg := func(p *secp256k1.Point) *secp256k1.Point { return secp256k1.NewIdentityPoint().Negate(p) }
	dbl := func(p *secp256k1.Point) *secp256k1.Point { return secp256k1.NewIdentityPoint().Double(p) }
	abstract := []*secp256k1.Point{
		secp256k1.NewIdentityPoint(), G, neg(G), dbl(G), neg(dbl(G)), mulG(big.NewInt(3)),
		R1, neg(R1), dbl(R1), neg(dbl(R1)), R2, mulG(add(bigN, -1)), mulG(new(big.Int).Rsh(bigN, 1)),
		// the endomorphism orbit of R1: lambda*R1 = (beta*x, y) and lambda^2*R1 share R1's y (and -lambda*R1 shares nothing):
		// pairs that agree in exactly one affine coordinate
		secp256k1.NewIdentityPoint().VerifMulBeta(R1), secp256k1.NewIdentityPoint().VerifMulBeta(secp256k1.NewIdentityPoint().VerifMulBeta(R1)),
		neg(secp256k1.NewIdentityPoint().VerifMulBeta(R1)),
	}
	pool := repPool(r, abstract, c.scale(6, 8))

	junk := func() *secp256k1.Point { return rep(mulG(randBig(r, bigN)), add(randBig(r, add(bigP, -1)), 1)) }

	type binop struct {
		name string
		f    func(v, p, q *secp256k1.Point) *secp256k1.Point
	}
	ops := []binop{
		{"pt.Add", func(v, p, q *secp256k1.Point) *secp256k1.Point { return v.Add(p, q) }},
		{"pt.Sub", func(v, p, q *secp256k1.Point) *secp256k1.Point { return v.Subtract(p, q) }},
		{"pt.AddC", func(v, p, q *secp256k1.Point) *secp256k1.Point { return v.VerifAddComplete(p, q) }},
	}
	emitBin := func(o binop, alias string, v, p, q *secp256k1.Point) {
		ph, qh := ptRaw(p), ptRaw(q)
		o.f(v, p, q)
		c.E(o.name, "alias", alias, "p", ph, "q", qh, "out", ptRaw(v), "enc", encOrPanic(v), "p_post", ptRaw(p), "q_post", ptRaw(q))
	}
	for _, a := range pool {
		for _, b := range pool {
			for _, o := range ops {
				emitBin(o, "none", junk(), clonePt(a.p), clonePt(b.p))
				if o.name == "pt.AddC" && !c.thorough() {
					continue
				}
				p, q := clonePt(a.p), clonePt(b.p)
				emitBin(o, "v=p", p, p, q)
				p, q = clonePt(a.p), clonePt(b.p)
				emitBin(o, "v=q", q, p, q)
			}
			p, q := clonePt(a.p), clonePt(b.p)
			c.E("pt.Equal", "p", ptRaw(p), "q", ptRaw(q), "out", int(p.Equal(q)))
		}
		for _, o := range ops {
			p := clonePt(a.p)
			emitBin(o, "p=q", junk(), p, p)
			p = clonePt(a.p)
			emitBin(o, "v=p=q", p, p, p)
		}
	}
	// Equal on pairs P, lambda*P (same y, x multiplied by beta) in representatives chosen so that the cross-multiplied x terms
	// differ, in their internal limbs, by a pattern that a careless accumulation of limb differences cancels
	for bi, beta := range []*big.Int{bigBeta, new(big.Int).Mod(new(big.Int).Mul(bigBeta, bigBeta), bigP)} {
		for _, w := range betaTwinW(r, beta) {
			P := clonePt(R1)
			xb, _ := P.XBytes()
			z := new(big.Int).Mod(new(big.Int).Mul(w, new(big.Int).ModInverse(new(big.Int).SetBytes(xb), bigP)), bigP)
			lp := secp256k1.NewIdentityPoint().VerifMulBeta(R1)
			if bi == 1 {
				lp.VerifMulBeta(lp)
			}
			Q := rep(lp, z)
			c.E("pt.Equal", "p", ptRaw(P), "q", ptRaw(Q), "out", int(P.Equal(Q)), "twin", 1)
			c.E("pt.Equal", "p", ptRaw(Q), "q", ptRaw(P), "out", int(Q.Equal(P)), "twin", 1)
		}
	}
	// Equal on DISTINCT points that agree in a linear combination of their coordinates (x + y, x - y): the other intersections of the
	// curve with the lines x +- y = c through P, in several representatives (round 10)
	{
		npairs := 0
		for k := int64(1); k <= 40 && npairs < c.scale(6, 24); k++ {
			unc := mulG(big.NewInt(k)).UncompressedBytes()
			px, py := new(big.Int).SetBytes(unc[1:33]), new(big.Int).SetBytes(unc[33:65])
			for _, q := range collinearPartners(px, py) {
				var xb, yb [32]byte
				q[0].FillBytes(xb[:])
				q[1].FillBytes(yb[:])
				Q, err := secp256k1.NewPointFromCoords(&xb, &yb)
				if err != nil {
					continue // not on the curve after all: the generator is untrusted
				}
				npairs++
				P := mulG(big.NewInt(k))
				for _, z := range []*big.Int{big.NewInt(1), big.NewInt(2), add(randBig(r, add(bigP, -1)), 1)} {
					Pz, Qz := rep(P, z), rep(Q, add(randBig(r, add(bigP, -1)), 1))
					c.E("pt.Equal", "p", ptRaw(Pz), "q", ptRaw(Qz), "out", int(Pz.Equal(Qz)), "collinear", 1)
					c.E("pt.Equal", "p", ptRaw(Qz), "q", ptRaw(Pz), "out", int(Qz.Equal(Pz)), "collinear", 1)
				}
				c.E("pt.Equal", "p", ptRaw(P), "q", ptRaw(Q), "out", int(P.Equal(Q)), "collinear", 1)
			}
		}
	}
	// the formulas multiply intermediate values by small constants (3b = 21, 3, 2 ...): operands are chosen so that THE VALUE BEING
	// MULTIPLIED — Z1*Z2, X1*Z2 + X2*Z1, Y1*Z2 + Y2*Z1, Z^2 ... — sits, in its internal form, just below a multiple of 2^256 / k
	// (the window a specialised small-constant multiply has to carry through).  Z1*Z2 = w with Z2 = 1; x1 + x2 = w with both affine.
	{
		ws := smallMultipleWindows([]int64{21, 3, 2, 4, 8})
		for wi, w := range ws {
			if !c.thorough() && wi%2 == 1 && wi > 44 {
				continue
			}
			for _, base := range []*secp256k1.Point{R1, R2} {
				p := rep(base, w) // Z = w
				q := clonePt(G)
				emitBin(ops[0], "none", junk(), clonePt(p), q)
				emitBin(ops[0], "none", junk(), clonePt(q), clonePt(p))
				emitBin(ops[1], "none", junk(), clonePt(p), clonePt(q))
				pp := clonePt(p)
				ph := ptRaw(pp)
				v := junk().Double(pp)
				c.E("pt.Dbl", "alias", "none", "p", ph, "out", ptRaw(v), "enc", encOrPanic(v))
				x, y, _, _ := secp256k1.NewIdentityPoint().VerifRescale(R2).VerifCoords()
				v = junk()
				v.VerifAddMixed(pp, x, y)
				c.E("pt.AddMixed", "alias", "none", "p", ph, "x2", hx(x.Bytes()), "y2", hx(y.Bytes()), "out", ptRaw(v), "enc", encOrPanic(v))
				if wi%4 != 0 {
					break
				}
			}
			// two affine points whose abscissas (resp. ordinates) sum to w
			for try := 0; try < 64; try++ {
				x1 := randBig(r, bigP)
				x2 := new(big.Int).Mod(new(big.Int).Sub(w, x1), bigP)
				y1, y2 := sqrtP(yyOf(x1)), sqrtP(yyOf(x2))
				if y1 == nil || y2 == nil || x1.Sign() == 0 || x2.Sign() == 0 {
					continue
				}
				P, e1 := secp256k1.NewPointFromCoords(be32(x1), be32(y1))
				Q, e2 := secp256k1.NewPointFromCoords(be32(x2), be32(y2))
				if e1 != nil || e2 != nil {
					break
				}
				emitBin(ops[0], "none", junk(), clonePt(P), clonePt(Q))
				emitBin(ops[1], "none", junk(), clonePt(P), secp256k1.NewIdentityPoint().Negate(Q))
				break
			}
		}
	}
	// mixed addition: projective p + affine q (q != identity)
	for _, a := range pool {
		for _, bq := range abstract[1:] {
			x, y, _, _ := secp256k1.NewIdentityPoint().VerifRescale(bq).VerifCoords()
			p := clonePt(a.p)
			v := junk()
			ph := ptRaw(p)
			v.VerifAddMixed(p, x, y)
			c.E("pt.AddMixed", "alias", "none", "p", ph, "x2", hx(x.Bytes()), "y2", hx(y.Bytes()), "out", ptRaw(v), "enc", encOrPanic(v))
			p = clonePt(a.p)
			p.VerifAddMixed(p, x, y)
			c.E("pt.AddMixed", "alias", "v=p", "p", ph, "x2", hx(x.Bytes()), "y2", hx(y.Bytes()), "out", ptRaw(p), "enc", encOrPanic(p))
		}
	}
	// unary operations, predicates, encodings
	for _, a := range pool {
		p := clonePt(a.p)
		ph := ptRaw(p)
		v := junk().Double(p)
		c.E("pt.Dbl", "alias", "none", "p", ph, "out", ptRaw(v), "enc", encOrPanic(v))
		v = junk().VerifDoubleComplete(p)
		c.E("pt.DblC", "alias", "none", "p", ph, "out", ptRaw(v))
		p = clonePt(a.p)
		p.Double(p)
		c.E("pt.Dbl", "alias", "v=p", "p", ph, "out", ptRaw(p), "enc", encOrPanic(p))
		p = clonePt(a.p)
		v = junk().Negate(p)
		c.E("pt.Neg", "alias", "none", "p", ph, "out", ptRaw(v), "enc", encOrPanic(v))
		p.Negate(p)
		c.E("pt.Neg", "alias", "v=p", "p", ph, "out", ptRaw(p))
		for _, ctrl := range []uint64{0, 1, 1 << 40, 0xffffffffffffffff} {
			p = clonePt(a.p)
			v = junk().ConditionalNegate(p, ctrl)
			c.E("pt.CNeg", "alias", "none", "p", ph, "c", b2i(ctrl != 0), "out", ptRaw(v))
			p.ConditionalNegate(p, ctrl)
			c.E("pt.CNeg", "alias", "v=p", "p", ph, "c", b2i(ctrl != 0), "out", ptRaw(p))
			b := pool[r.Intn(len(pool))]
			p, q := clonePt(a.p), clonePt(b.p)
			v = junk().ConditionalSelect(p, q, ctrl)
			c.E("pt.CSel", "alias", "none", "a", ph, "b", ptRaw(q), "c", b2i(ctrl != 0), "out", ptRaw(v))
			qh := ptRaw(q)
			p.ConditionalSelect(p, q, ctrl)
			c.E("pt.CSel", "alias", "v=p", "a", ph, "b", qh, "c", b2i(ctrl != 0), "out", ptRaw(p))
		}
		p = clonePt(a.p)
		v = junk().Set(p)
		c.E("pt.Set", "p", ph, "out", ptRaw(v), "enc", encOrPanic(v))
		v = secp256k1.NewPointFrom(p)
		c.E("pt.NewFrom", "p", ph, "out", ptRaw(v))
		v = junk().VerifRescale(p)
		c.E("pt.Rescale", "p", ph, "out", ptRaw(v))
		c.E("pt.IsId", "p", ph, "out", int(p.IsIdentity()))
		c.E("pt.IsYOdd", "p", ph, "out", int(p.IsYOdd()))
		xb, xerr := p.XBytes()
		c.E("pt.Enc", "p", ph, "unc", hx(p.UncompressedBytes()), "cmp", hx(p.CompressedBytes()), "x", hx(xb), "xerr", xerr != nil, "p_post", ptRaw(p))
	}
	// the y-parity of the identity: whatever the library defines it to be, it may not depend on the representative or on how the
	// identity was computed (constructed, P - P, P + (-P), Negate(identity), 0 * P, ...)
	{
		var reps, outs []string
		var vals []int
		addInf := func(p *secp256k1.Point) {
			reps = append(reps, ptRaw(p))
			vals = append(vals, int(p.IsYOdd()))
		}
		addInf(secp256k1.NewIdentityPoint())
		for _, a := range pool {
			if a.p.IsIdentity() == 1 {
				addInf(clonePt(a.p))
				addInf(secp256k1.NewIdentityPoint().Negate(a.p))
				addInf(secp256k1.NewIdentityPoint().ConditionalNegate(a.p, 1))
			} else {
				addInf(secp256k1.NewIdentityPoint().Subtract(a.p, a.p))
				addInf(secp256k1.NewIdentityPoint().Add(a.p, neg(a.p)))
				addInf(secp256k1.NewIdentityPoint().ScalarMult(secp256k1.NewScalar(), a.p))
			}
		}
		_ = outs
		c.E("pt.InfParity", "reps", reps, "outs", vals)
	}
	c.E("pt.Identity", "out", ptRaw(junk().Identity()))
	c.E("pt.Identity", "out", ptRaw(secp256k1.NewIdentityPoint()))
	c.E("pt.Generator", "out", ptRaw(junk().Generator()))
	c.E("pt.Generator", "out", ptRaw(secp256k1.NewGeneratorPoint()))

	// histories: the receiver is re-used across a random operation sequence (representation drift);
	// the specification carries its own accumulator
	for ch := 0; ch < c.scale(24, 300); ch++ {
		c.nextTrace()
		acc := clonePt(pool[r.Intn(len(pool))].p)
		c.E("chain.Reset", "p", ptRaw(acc))
		for step := 0; step < c.scale(40, 80); step++ {
			q := clonePt(pool[r.Intn(len(pool))].p)
			switch r.Intn(8) {
			case 0, 1:
				acc.Add(acc, q)
				c.E("chain.Op", "op", "add", "q", ptRaw(q), "out", ptRaw(acc))
			case 2:
				acc.Add(q, acc)
				c.E("chain.Op", "op", "radd", "q", ptRaw(q), "out", ptRaw(acc))
			case 3:
				acc.Subtract(acc, q)
				c.E("chain.Op", "op", "sub", "q", ptRaw(q), "out", ptRaw(acc))
			case 4, 5:
				acc.Double(acc)
				c.E("chain.Op", "op", "dbl", "out", ptRaw(acc))
			case 6:
				acc.Negate(acc)
				c.E("chain.Op", "op", "neg", "out", ptRaw(acc))
			case 7:
				if q.IsIdentity() == 1 {
					q = secp256k1.NewGeneratorPoint()
				}
				qa := secp256k1.NewIdentityPoint().VerifRescale(q)
				x, y, _, _ := qa.VerifCoords()
				acc.VerifAddMixed(acc, x, y)
				c.E("chain.Op", "op", "mixed", "q", ptRaw(qa), "out", ptRaw(acc))
			}
		}
	}
	c.sticky = false
	pointLife(c, rand.New(rand.NewSource(c.seed+17)))
}
