//go:build verif && !verifpub

package main

import (
	"math/big"
	"math/rand"

	secp256k1 "gitlab.com/yawning/secp256k1-voi"
	fiat "gitlab.com/yawning/secp256k1-voi/internal/fiat/secp256k1montgomeryscalar"
)

func init() {
	register("scalar", "C02: every Scalar operation and raw scalar-fiat entry point", driveScalar)
}

func driveScalar(c *ctx) {
	r := rand.New(rand.NewSource(c.seed))
	grid := edgeGrid(bigN)
	vals := append([]*big.Int{}, grid...)
	vals = append(vals, montPatternValues(r, bigN)...)
	for i := 0; i < c.scale(40, 400); i++ {
		vals = append(vals, randBig(r, bigN))
	}
	half := new(big.Int).Rsh(add(bigN, -1), 1)

	bin := func(a, b *big.Int) {
		ah, bh := h32(a), h32(b)
		type op struct {
			name string
			f    func(rcv, x, y *secp256k1.Scalar) *secp256k1.Scalar
		}
		ops := []op{
			{"sc.Add", func(rcv, x, y *secp256k1.Scalar) *secp256k1.Scalar { return rcv.Add(x, y) }},
			{"sc.Sub", func(rcv, x, y *secp256k1.Scalar) *secp256k1.Scalar { return rcv.Subtract(x, y) }},
			{"sc.Mul", func(rcv, x, y *secp256k1.Scalar) *secp256k1.Scalar { return rcv.Multiply(x, y) }},
		}
		for _, o := range ops {
			x, y := scFrom(a), scFrom(b)
			rcv := scJunk(r)
			ret := o.f(rcv, x, y)
			c.E(o.name, "alias", "none", "a", ah, "b", bh, "out", scHex(rcv), "ret", ret == rcv, "a_post", scHex(x), "b_post", scHex(y))
			x, y = scFrom(a), scFrom(b)
			o.f(x, x, y)
			c.E(o.name, "alias", "r=a", "a", ah, "b", bh, "out", scHex(x), "ret", true, "a_post", ah, "b_post", scHex(y))
			x, y = scFrom(a), scFrom(b)
			o.f(y, x, y)
			c.E(o.name, "alias", "r=b", "a", ah, "b", bh, "out", scHex(y), "ret", true, "a_post", scHex(x), "b_post", bh)
			if a.Cmp(b) == 0 {
				x = scFrom(a)
				rcv = secp256k1.NewScalar()
				o.f(rcv, x, x)
				c.E(o.name, "alias", "a=b", "a", ah, "b", bh, "out", scHex(rcv), "ret", true, "a_post", scHex(x), "b_post", scHex(x))
				x = scFrom(a)
				o.f(x, x, x)
				c.E(o.name, "alias", "r=a=b", "a", ah, "b", bh, "out", scHex(x), "ret", true, "a_post", ah, "b_post", bh)
			}
		}
		x, y := scFrom(a), scFrom(b)
		c.E("sc.Equal", "a", ah, "b", bh, "out", int(x.Equal(y)))
		for _, ctrl := range []uint64{0, 1, uint64(1) << uint(r.Intn(64)), 0xffffffffffffffff} {
			x, y = scFrom(a), scFrom(b)
			rcv := secp256k1.NewScalar().ConditionalSelect(x, y, ctrl)
			c.E("sc.CSel", "a", ah, "b", bh, "c", b2i(ctrl != 0), "out", scHex(rcv))
			x.ConditionalSelect(x, y, ctrl)
			c.E("sc.CSel", "a", ah, "b", bh, "c", b2i(ctrl != 0), "out", scHex(x))
			x, y = scFrom(a), scFrom(b)
			y.ConditionalSelect(x, y, ctrl)
			c.E("sc.CSel", "a", ah, "b", bh, "c", b2i(ctrl != 0), "out", scHex(y))
		}
	}
	small := grid
	if !c.thorough() && len(small) > 50 {
		keep := append([]*big.Int{}, small[:26]...)
		for i := 0; i < 24; i++ {
			keep = append(keep, small[26+r.Intn(len(small)-26)])
		}
		small = keep
	}
	for _, a := range small {
		for _, b := range small {
			bin(a, b)
		}
	}
	for i := 0; i < c.scale(300, 5000); i++ {
		bin(randBig(r, bigN), randBig(r, bigN))
	}
	// pairs whose INTERNAL limbs differ by a pattern that a careless accumulation of limb differences cancels
	for _, tw := range limbTwins(r, bigN) {
		bin(tw[0], tw[1])
		bin(tw[1], tw[0])
	}
	cwin := new(big.Int).Sub(big2_256, bigN)
	for i := 0; i < c.scale(200, 3000); i++ {
		d1 := add(randBig(r, pow2(uint(1+r.Intn(200)))), 1)
		d2 := new(big.Int).Add(d1, randBig(r, cwin))
		if d2.Cmp(bigN) >= 0 || d1.Cmp(bigN) >= 0 {
			continue
		}
		bin(new(big.Int).Sub(bigN, d1), d2)
		bin(d2, new(big.Int).Sub(bigN, d1))
	}
	for i := 0; i < c.scale(100, 2000); i++ {
		b := randBig(r, bigN)
		d := randBig(r, pow2(uint(1+r.Intn(255))))
		a := new(big.Int).Sub(b, d)
		if a.Sign() < 0 {
			a.Add(a, bigN)
		}
		bin(a, b)
	}

	// ---- unary
	un := append([]*big.Int{}, vals...)
	for d := int64(-4); d <= 4; d++ {
		un = append(un, add(half, d))
	}
	for k := uint(10); k < 256; k += 7 {
		un = append(un, pow2(k))
	}
	for i := int64(0); i < 40; i++ {
		un = append(un, big.NewInt(i))
	}
	for _, a := range un {
		if a.Sign() < 0 || a.Cmp(bigN) >= 0 {
			continue
		}
		ah := h32(a)
		x := scFrom(a)
		c.E("sc.Neg", "alias", "none", "a", ah, "out", scHex(secp256k1.NewScalar().Negate(x)))
		c.E("sc.Sqr", "alias", "none", "a", ah, "out", scHex(secp256k1.NewScalar().Square(x)))
		c.E("sc.Inv", "alias", "none", "a", ah, "out", scHex(secp256k1.NewScalar().Invert(x)))
		c.E("sc.Set", "alias", "none", "a", ah, "out", scHex(scJunk(r).Set(x)))
		c.E("sc.NewFrom", "alias", "none", "a", ah, "out", scHex(secp256k1.NewScalarFrom(x)))
		x = scFrom(a)
		c.E("sc.Neg", "alias", "r=a", "a", ah, "out", scHex(x.Negate(x)))
		x = scFrom(a)
		c.E("sc.Sqr", "alias", "r=a", "a", ah, "out", scHex(x.Square(x)))
		x = scFrom(a)
		c.E("sc.Inv", "alias", "r=a", "a", ah, "out", scHex(x.Invert(x)))
		x = scFrom(a)
		c.E("sc.IsZero", "a", ah, "out", int(x.IsZero()))
		c.E("sc.IsGtHalf", "a", ah, "out", int(x.IsGreaterThanHalfN()))
		for _, ctrl := range []uint64{0, 1, 1 << 32, 0xffffffffffffffff} {
			x = scFrom(a)
			c.E("sc.CNeg", "a", ah, "c", b2i(ctrl != 0), "out", scHex(secp256k1.NewScalar().ConditionalNegate(x, ctrl)))
			c.E("sc.CNeg", "a", ah, "c", b2i(ctrl != 0), "out", scHex(x.ConditionalNegate(x, ctrl)))
		}
	}
	for _, k := range []uint{1, 2, 3, 4, 5, 8, 63, 64, 255, 256, 777} {
		for i := 0; i < 4; i++ {
			a := vals[r.Intn(len(vals))]
			x := scFrom(a)
			c.E("sc.Pow2k", "a", h32(a), "k", int(k), "out", scHex(secp256k1.NewScalar().VerifPow2k(x, k)), "panic", false)
			c.E("sc.Pow2k", "a", h32(a), "k", int(k), "out", scHex(x.VerifPow2k(x, k)), "panic", false)
		}
	}
	{
		x := scFrom(big.NewInt(5))
		p := catch(func() { secp256k1.NewScalar().VerifPow2k(x, 0) })
		c.E("sc.Pow2k", "a", scHex(x), "k", 0, "out", "", "panic", p)
	}

	// ---- Sum / Product over vectors of length 0..6 with repeated and aliased entries
	vecOp := func(name string, f func(rcv *secp256k1.Scalar, vec ...*secp256k1.Scalar) *secp256k1.Scalar) {
		for n := 0; n <= 6; n++ {
			for rep := 0; rep < c.scale(6, 40); rep++ {
				vec := make([]*secp256k1.Scalar, n)
				dup := false
				for i := range vec {
					switch {
					case i > 0 && r.Intn(4) == 0:
						vec[i] = vec[r.Intn(i)] // the same object twice
						dup = true
					default:
						vec[i] = scFrom(vals[r.Intn(len(vals))])
					}
				}
				pre := make([]string, n)
				for i := range vec {
					pre[i] = scHex(vec[i])
				}
				recv := 0
				rcv := scJunk(r)
				if n > 0 && rep%2 == 1 {
					recv = 1 + r.Intn(n)
					rcv = vec[recv-1]
					for i := range vec { // an aliased duplicate of the receiver changes with it: keep the model simple
						if i != recv-1 && vec[i] == rcv {
							vec[i] = secp256k1.NewScalarFrom(rcv)
						}
					}
				}
				f(rcv, vec...)
				post := make([]string, n)
				for i := range vec {
					post[i] = scHex(vec[i])
				}
				c.E(name, "vec", pre, "recv", recv, "dup", dup, "out", scHex(rcv), "vec_post", post)
			}
		}
	}
	vecOp("sc.Sum", func(rcv *secp256k1.Scalar, vec ...*secp256k1.Scalar) *secp256k1.Scalar { return rcv.Sum(vec...) })
	// accumulation windows of a many-term sum (round 8): three to six terms whose residues - as values, and as the internal Montgomery
	// residues - add up to just below / just above k * 2^256, for every possible number of carries k: a sum that defers its reduction
	// to the end folds k carries back in, and the fold itself may carry
	rinv := new(big.Int).ModInverse(new(big.Int).Mod(big2_256, bigN), bigN)
	for n := 3; n <= 6; n++ {
		for k := 1; k < n; k++ {
			for _, inMont := range []bool{false, true} {
				for _, delta := range []*big.Int{big.NewInt(-2), big.NewInt(-1), big.NewInt(0), big.NewInt(1), new(big.Int).Lsh(big.NewInt(1), 64), new(big.Int).Lsh(big.NewInt(int64(k)), 127),
					new(big.Int).Lsh(big.NewInt(int64(k)), 128), new(big.Int).Lsh(big.NewInt(int64(k)), 129), new(big.Int).Rand(r, new(big.Int).Lsh(big.NewInt(int64(k)), 129))} {
					target := new(big.Int).Sub(new(big.Int).Mul(big.NewInt(int64(k)), big2_256), big.NewInt(1))
					target.Sub(target, delta)
					res := make([]*big.Int, n)
					acc := new(big.Int)
					each := new(big.Int).Div(target, big.NewInt(int64(n)))
					for i := 0; i < n-1; i++ {
						j := new(big.Int).Rand(r, new(big.Int).Lsh(big.NewInt(1), 200))
						res[i] = new(big.Int).Add(each, j)
						if i%2 == 1 {
							res[i].Sub(each, j)
						}
						acc.Add(acc, res[i])
					}
					res[n-1] = new(big.Int).Sub(target, acc)
					ok := true
					for _, x := range res {
						if x.Sign() < 0 || x.Cmp(bigN) >= 0 {
							ok = false
						}
					}
					if !ok {
						continue
					}
					vec := make([]*secp256k1.Scalar, n)
					pre := make([]string, n)
					for i, x := range res {
						if inMont {
							x = new(big.Int).Mod(new(big.Int).Mul(x, rinv), bigN)
						}
						vec[i] = scFrom(x)
						pre[i] = scHex(vec[i])
					}
					rcv := scJunk(r)
					rcv.Sum(vec...)
					post := make([]string, n)
					for i := range vec {
						post[i] = scHex(vec[i])
					}
					c.E("sc.Sum", "vec", pre, "recv", 0, "dup", false, "window", true, "out", scHex(rcv), "vec_post", post)
				}
			}
		}
	}
	vecOp("sc.Product", func(rcv *secp256k1.Scalar, vec ...*secp256k1.Scalar) *secp256k1.Scalar { return rcv.Product(vec...) })

	// ---- decoding
	var strs []*big.Int
	for d := int64(-3); d <= 3; d++ {
		strs = append(strs, add(bigN, d))
	}
	for d := int64(1); d <= 4; d++ {
		strs = append(strs, add(big2_256, -d))
	}
	strs = append(strs, big.NewInt(0), big.NewInt(1), bigP, add(bigP, -1))
	for i := 0; i < c.scale(200, 3000); i++ {
		strs = append(strs, new(big.Int).Add(bigN, randBig(r, cwin)))
		strs = append(strs, randBig(r, big2_256))
	}
	strs = append(strs, grid...)
	for _, v := range strs {
		b := be32(v)
		bh := hx(b[:])
		rcv := scJunk(r)
		_, flag := rcv.SetBytes(b)
		c.E("sc.SetBytes", "in", bh, "out", scHex(rcv), "flag", int(flag))
		s2, flag2 := secp256k1.NewScalarFromBytes(b)
		c.E("sc.NewFromBytes", "in", bh, "out", scHex(s2), "flag", int(flag2))
		rcv = scJunk(r)
		pre := scHex(rcv)
		ret, err := rcv.SetCanonicalBytes(b)
		c.E("sc.SetCanonical", "in", bh, "ok", err == nil, "retnil", ret == nil, "pre", pre, "post", scHex(rcv))
		s3, err3 := secp256k1.NewScalarFromCanonicalBytes(b)
		o := ""
		if err3 == nil {
			o = scHex(s3)
		}
		c.E("sc.NewFromCanonical", "in", bh, "ok", err3 == nil, "retnil", s3 == nil, "out", o)
		l := bigToLimbs(v)
		var dst [4]uint64
		fl := secp256k1.VerifReduceSaturatedScalar(&dst, &l)
		c.E("sc.ReduceSat", "in", bh, "out", h32(limbsToBig(dst)), "flag", int(fl))
		fl = secp256k1.VerifReduceSaturatedScalar(&l, &l)
		c.E("sc.ReduceSat", "in", bh, "out", h32(limbsToBig(l)), "flag", int(fl))
	}
	for _, u := range []uint64{0, 1, 2, 1 << 31, 1 << 32, 1<<63 - 1, 1 << 63, 0xffffffffffffffff, r.Uint64()} {
		c.E("sc.FromUint64", "in", h32(new(big.Int).SetUint64(u)), "out", scHex(secp256k1.NewScalarFromUint64(u)))
	}
	c.E("sc.Zero", "out", scHex(scJunk(r).Zero()))
	c.E("sc.One", "out", scHex(scJunk(r).One()))
	c.E("sc.Const", "name", "halfn", "out", h32(limbsToBig(secp256k1.VerifHalfNSat())))
	ns := secp256k1.VerifNSat()
	c.E("sc.Const", "name", "nsat", "out", h32(limbsToBig([4]uint64{ns[0], ns[1], ns[2], ns[3]})))

	// ---- raw fiat entry points with operands placed directly in the Montgomery domain
	mont := func(x, y *big.Int) {
		xl, yl := bigToLimbs(x), bigToLimbs(y)
		var out fiat.MontgomeryDomainFieldElement
		xa, ya := fiat.MontgomeryDomainFieldElement(xl), fiat.MontgomeryDomainFieldElement(yl)
		fiat.Mul(&out, &xa, &ya)
		c.E("smont.Mul", "a", h32(x), "b", h32(y), "out", h32(limbsToBig(out)))
		if x.Cmp(y) == 0 {
			fiat.Square(&out, &xa)
			c.E("smont.Sqr", "a", h32(x), "out", h32(limbsToBig(out)))
		}
		fiat.Add(&out, &xa, &ya)
		c.E("smont.Add", "a", h32(x), "b", h32(y), "out", h32(limbsToBig(out)))
		fiat.Sub(&out, &xa, &ya)
		c.E("smont.Sub", "a", h32(x), "b", h32(y), "out", h32(limbsToBig(out)))
		ex, ey := secp256k1.NewScalar().VerifSetMont(xl), secp256k1.NewScalar().VerifSetMont(yl)
		ez := secp256k1.NewScalar().Multiply(ex, ey)
		c.E("smont.Mul", "a", h32(x), "b", h32(y), "out", h32(limbsToBig(ez.VerifMont())))
	}
	got := 0
	for tries := 0; got < c.scale(300, 5000) && tries < 200000; tries++ {
		x, y, ok := montWindowPair(r, bigN)
		if !ok {
			continue
		}
		got++
		mont(x, y)
		mont(y, x)
	}
	for i := 0; i < c.scale(200, 3000); i++ {
		mont(vals[r.Intn(len(vals))], vals[r.Intn(len(vals))])
		v := vals[r.Intn(len(vals))]
		mont(v, v)
	}
	for i := 0; i < c.scale(2000, 40000); i++ {
		x := new(big.Int).Sub(bigN, add(randBig(r, pow2(uint(1+r.Intn(60)))), 1))
		xl := bigToLimbs(x)
		xa := fiat.MontgomeryDomainFieldElement(xl)
		var out fiat.MontgomeryDomainFieldElement
		fiat.Square(&out, &xa)
		c.E("smont.Sqr", "a", h32(x), "out", h32(limbsToBig(out)))
	}
	for _, v := range vals {
		vl := bigToLimbs(v)
		var nm fiat.NonMontgomeryDomainFieldElement
		va := fiat.MontgomeryDomainFieldElement(vl)
		fiat.FromMontgomery(&nm, &va)
		c.E("smont.From", "a", h32(v), "out", h32(limbsToBig(nm)))
		var md fiat.MontgomeryDomainFieldElement
		vn := fiat.NonMontgomeryDomainFieldElement(vl)
		fiat.ToMontgomery(&md, &vn)
		c.E("smont.To", "a", h32(v), "out", h32(limbsToBig(md)))
		fiat.Opp(&md, &va)
		c.E("smont.Opp", "a", h32(v), "out", h32(limbsToBig(md)))
		var nz uint64
		l4 := [4]uint64(vl)
		fiat.Nonzero(&nz, &l4)
		c.E("smont.Nonzero", "a", h32(v), "out", b2i(nz != 0))
	}
	scalarLife(c, r, vals)
}
