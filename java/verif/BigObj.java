package verif;

import java.math.BigInteger;

import tlc2.value.impl.IntValue;
import tlc2.value.impl.UserObj;
import tlc2.value.impl.UserValue;
import tlc2.value.impl.Value;
import util.Assert;

/**
 * Carrier for integers that do not fit TLC's 32-bit IntValue.  The *meaning* of
 * every operator that produces one is its TLA+ definition in BigInt.tla; this
 * class only lifts TLC's evaluation limit.  Values that fit an int are always
 * returned as ordinary IntValue (see {@link #ret}).
 */
public final class BigObj extends UserObj {
    public final BigInteger v;

    public BigObj(BigInteger v) {
        this.v = v;
    }

    public static BigInteger big(Value x) {
        if (x instanceof IntValue) {
            return BigInteger.valueOf(((IntValue) x).val);
        }
        if (x instanceof UserValue && ((UserValue) x).userObj instanceof BigObj) {
            return ((BigObj) ((UserValue) x).userObj).v;
        }
        Assert.fail("BigInt: expected an integer, got " + (x == null ? "null" : x.toString()));
        return null;
    }

    public static Value ret(BigInteger r) {
        if (r.bitLength() < 31) {
            return IntValue.gen(r.intValue());
        }
        return new UserValue(new BigObj(r));
    }

    @Override
    public int compareTo(Value other) {
        return v.compareTo(big(other));
    }

    @Override
    public boolean member(Value x) {
        Assert.fail("BigInt: a big integer is not a set");
        return false;
    }

    @Override
    public boolean isFinite() {
        return true;
    }

    @Override
    public StringBuffer toString(StringBuffer sb, int offset, boolean swallow) {
        return sb.append("0x").append(v.toString(16));
    }
}
