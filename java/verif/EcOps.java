package verif;

import static verif.BigObj.big;
import static verif.BigObj.ret;

import java.math.BigInteger;

import tlc2.overrides.TLAPlusOperator;
import tlc2.value.impl.TupleValue;
import tlc2.value.impl.Value;
import util.Assert;

/**
 * Accelerators for Group.tla: EcAdd / EcMul on short-Weierstrass curves with a = 0
 * (affine chord-and-tangent).  Their meaning is the TLA+ definition in Group.tla;
 * SelfTest.tla re-validates them against that definition on every run.
 */
public final class EcOps {
    private EcOps() {}

    private static BigInteger[] pt(Value v) {
        TupleValue t = (TupleValue) v.toTuple();
        if (t == null) {
            Assert.fail("Group: expected a point");
        }
        if (t.elems.length == 0) {
            return null;
        }
        if (t.elems.length != 2) {
            Assert.fail("Group: a point is <<>> or <<x, y>>");
        }
        return new BigInteger[] {big(t.elems[0]), big(t.elems[1])};
    }

    private static Value val(BigInteger[] p) {
        if (p == null) {
            return TupleValue.EmptyTuple;
        }
        return new TupleValue(ret(p[0]), ret(p[1]));
    }

    static BigInteger[] add(BigInteger[] a, BigInteger[] b, BigInteger p) {
        if (a == null) {
            return b;
        }
        if (b == null) {
            return a;
        }
        BigInteger lam;
        if (a[0].equals(b[0])) {
            if (!a[1].equals(b[1]) || a[1].signum() == 0) {
                return null;
            }
            lam = a[0].multiply(a[0]).multiply(BigInteger.valueOf(3))
                    .multiply(a[1].shiftLeft(1).modInverse(p)).mod(p);
        } else {
            lam = b[1].subtract(a[1]).multiply(b[0].subtract(a[0]).mod(p).modInverse(p)).mod(p);
        }
        BigInteger x3 = lam.multiply(lam).subtract(a[0]).subtract(b[0]).mod(p);
        BigInteger y3 = lam.multiply(a[0].subtract(x3)).subtract(a[1]).mod(p);
        return new BigInteger[] {x3, y3};
    }

    @TLAPlusOperator(identifier = "EcAdd", module = "Group", warn = false)
    public static Value ecAdd(Value a, Value b, Value p) {
        return val(add(pt(a), pt(b), big(p)));
    }

    @TLAPlusOperator(identifier = "EcMul", module = "Group", warn = false)
    public static Value ecMul(Value k, Value a, Value p) {
        BigInteger kk = big(k);
        if (kk.signum() < 0) {
            Assert.fail("Group: EcMul with negative scalar");
        }
        BigInteger pp = big(p);
        BigInteger[] base = pt(a);
        BigInteger[] acc = null;
        for (int i = kk.bitLength() - 1; i >= 0; i--) {
            acc = add(acc, acc, pp);
            if (kk.testBit(i)) {
                acc = add(acc, base, pp);
            }
        }
        return val(acc);
    }
}
