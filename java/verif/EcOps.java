package verif;

import static verif.BigObj.big;
import static verif.BigObj.ret;

import java.math.BigInteger;

import tlc2.overrides.TLAPlusOperator;
import tlc2.value.impl.TupleValue;
import tlc2.value.impl.Value;
import util.Assert;

/**
 * Accelerators for Group.tla: EcAdd / EcMul on short-Weierstrass curves with a = 0
 * (affine chord-and-tangent).  Their meaning is the TLA+ definition in Group.tla;
 * SelfTest.tla re-validates them against that definition on every run.
 */
public final class EcOps {
    private EcOps() {}

    private static BigInteger[] pt(Value v) {
        TupleValue t = (TupleValue) v.toTuple();
        if (t == null) {
            Assert.fail("Group: expected a point");
        }
        if (t.elems.length == 0) {
            return null;
        }
        if (t.elems.length != 2) {
            Assert.fail("Group: a point is <<>> or <<x, y>>");
        }
        return new BigInteger[] {big(t.elems[0]), big(t.elems[1])};
    }

    private static Value val(BigInteger[] p) {
        if (p == null) {
            return TupleValue.EmptyTuple;
        }
        return new TupleValue(ret(p[0]), ret(p[1]));
    }

    static BigInteger[] add(BigInteger[] a, BigInteger[] b, BigInteger p) {
        if (a == null) {
            return b;
        }
        if (b == null) {
            return a;
        }
        BigInteger lam;
        if (a[0].equals(b[0])) {
            if (!a[1].equals(b[1]) || a[1].signum() == 0) {
                return null;
            }
            lam = a[0].multiply(a[0]).multiply(BigInteger.valueOf(3))
                    .multiply(a[1].shiftLeft(1).modInverse(p)).mod(p);
        } else {
            lam = b[1].subtract(a[1]).multiply(b[0].subtract(a[0]).mod(p).modInverse(p)).mod(p);
        }
        BigInteger x3 = lam.multiply(lam).subtract(a[0]).subtract(b[0]).mod(p);
        BigInteger y3 = lam.multiply(a[0].subtract(x3)).subtract(a[1]).mod(p);
        return new BigInteger[] {x3, y3};
    }

    @TLAPlusOperator(identifier = "EcAdd", module = "Group", warn = false)
    public static Value ecAdd(Value a, Value b, Value p) {
        return val(add(pt(a), pt(b), big(p)));
    }

    // ---- Jacobian arithmetic (a = 0) used only inside ecMul; result converted back to affine.
    // (X, Y, Z) represents (X/Z^2, Y/Z^3); null is the identity.
    private static BigInteger[] jDbl(BigInteger[] a, BigInteger p) {
        if (a == null || a[1].signum() == 0) {
            return null;
        }
        BigInteger yy = a[1].multiply(a[1]).mod(p);
        BigInteger s = a[0].multiply(yy).shiftLeft(2).mod(p);
        BigInteger m = a[0].multiply(a[0]).multiply(BigInteger.valueOf(3)).mod(p);
        BigInteger x3 = m.multiply(m).subtract(s.shiftLeft(1)).mod(p);
        BigInteger y3 = m.multiply(s.subtract(x3)).subtract(yy.multiply(yy).shiftLeft(3)).mod(p);
        BigInteger z3 = a[1].multiply(a[2]).shiftLeft(1).mod(p);
        return new BigInteger[] {x3, y3, z3};
    }

    /** Jacobian a + affine b (b != identity). */
    private static BigInteger[] jAddAffine(BigInteger[] a, BigInteger[] b, BigInteger p) {
        if (a == null) {
            return new BigInteger[] {b[0], b[1], BigInteger.ONE};
        }
        BigInteger zz = a[2].multiply(a[2]).mod(p);
        BigInteger u2 = b[0].multiply(zz).mod(p);
        BigInteger s2 = b[1].multiply(zz).multiply(a[2]).mod(p);
        BigInteger h = u2.subtract(a[0]).mod(p);
        BigInteger r = s2.subtract(a[1]).mod(p);
        if (h.signum() == 0) {
            return r.signum() == 0 ? jDbl(a, p) : null;
        }
        BigInteger hh = h.multiply(h).mod(p);
        BigInteger hhh = hh.multiply(h).mod(p);
        BigInteger v = a[0].multiply(hh).mod(p);
        BigInteger x3 = r.multiply(r).subtract(hhh).subtract(v.shiftLeft(1)).mod(p);
        BigInteger y3 = r.multiply(v.subtract(x3)).subtract(a[1].multiply(hhh)).mod(p);
        BigInteger z3 = a[2].multiply(h).mod(p);
        return new BigInteger[] {x3, y3, z3};
    }

    private static BigInteger[] jToAffine(BigInteger[] a, BigInteger p) {
        if (a == null || a[2].signum() == 0) {
            return null;
        }
        BigInteger zi = a[2].modInverse(p);
        BigInteger zi2 = zi.multiply(zi).mod(p);
        return new BigInteger[] {a[0].multiply(zi2).mod(p), a[1].multiply(zi2).multiply(zi).mod(p)};
    }

    static BigInteger[] mul(BigInteger kk, BigInteger[] base, BigInteger pp) {
        if (base == null) {
            return null;
        }
        BigInteger[] acc = null;
        for (int i = kk.bitLength() - 1; i >= 0; i--) {
            acc = jDbl(acc, pp);
            if (kk.testBit(i)) {
                acc = jAddAffine(acc, base, pp);
            }
        }
        return jToAffine(acc, pp);
    }

    @TLAPlusOperator(identifier = "EcMul", module = "Group", warn = false)
    public static Value ecMul(Value k, Value a, Value p) {
        BigInteger kk = big(k);
        if (kk.signum() < 0) {
            Assert.fail("Group: EcMul with negative scalar");
        }
        return val(mul(kk, pt(a), big(p)));
    }
}
