package verif;

import tlc2.overrides.ITLCOverrides;

/** Index of operator overrides; enabled with -Dtlc2.overrides.TLCOverrides=tlc2.overrides.TLCOverrides:verif.VerifOverrides */
public final class VerifOverrides implements ITLCOverrides {
    @Override
    @SuppressWarnings("rawtypes")
    public Class[] get() {
        return new Class[] {BigIntOps.class, HashOps.class, EcOps.class};
    }
}
