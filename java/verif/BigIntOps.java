package verif;

import static verif.BigObj.big;
import static verif.BigObj.ret;

import java.math.BigInteger;

import tlc2.overrides.TLAPlusOperator;
import tlc2.value.impl.BoolValue;
import tlc2.value.impl.IntValue;
import tlc2.value.impl.StringValue;
import tlc2.value.impl.TupleValue;
import tlc2.value.impl.Value;
import util.Assert;

/**
 * Evaluation of the operators of BigInt.tla / Hex.tla on java.math.BigInteger.
 * Each operator's meaning is its TLA+ definition in the module.
 */
public final class BigIntOps {
    private BigIntOps() {}

    @TLAPlusOperator(identifier = "++", module = "BigInt", warn = false)
    public static Value add(Value a, Value b) {
        return ret(big(a).add(big(b)));
    }

    @TLAPlusOperator(identifier = "--", module = "BigInt", warn = false)
    public static Value sub(Value a, Value b) {
        return ret(big(a).subtract(big(b)));
    }

    @TLAPlusOperator(identifier = "**", module = "BigInt", warn = false)
    public static Value mul(Value a, Value b) {
        return ret(big(a).multiply(big(b)));
    }

    /** floor division, divisor > 0 (as TLA+ \div). */
    @TLAPlusOperator(identifier = "//", module = "BigInt", warn = false)
    public static Value div(Value a, Value b) {
        BigInteger d = big(b);
        if (d.signum() <= 0) {
            Assert.fail("BigInt: // with non-positive divisor");
        }
        BigInteger[] qr = big(a).divideAndRemainder(d);
        BigInteger q = qr[0];
        if (qr[1].signum() < 0) {
            q = q.subtract(BigInteger.ONE);
        }
        return ret(q);
    }

    /** modulus, divisor > 0, result in [0, b) (as TLA+ %). */
    @TLAPlusOperator(identifier = "%%", module = "BigInt", warn = false)
    public static Value mod(Value a, Value b) {
        BigInteger d = big(b);
        if (d.signum() <= 0) {
            Assert.fail("BigInt: %% with non-positive divisor");
        }
        return ret(big(a).mod(d));
    }

    @TLAPlusOperator(identifier = "\\prec", module = "BigInt", warn = false)
    public static Value lt(Value a, Value b) {
        return big(a).compareTo(big(b)) < 0 ? BoolValue.ValTrue : BoolValue.ValFalse;
    }

    @TLAPlusOperator(identifier = "\\preceq", module = "BigInt", warn = false)
    public static Value le(Value a, Value b) {
        return big(a).compareTo(big(b)) <= 0 ? BoolValue.ValTrue : BoolValue.ValFalse;
    }

    @TLAPlusOperator(identifier = "BigEq", module = "BigInt", warn = false)
    public static Value eq(Value a, Value b) {
        return big(a).equals(big(b)) ? BoolValue.ValTrue : BoolValue.ValFalse;
    }

    @TLAPlusOperator(identifier = "ModPow", module = "BigInt", warn = false)
    public static Value modPow(Value a, Value e, Value m) {
        BigInteger mm = big(m);
        BigInteger ee = big(e);
        if (mm.signum() <= 0 || ee.signum() < 0) {
            Assert.fail("BigInt: ModPow domain");
        }
        return ret(big(a).mod(mm).modPow(ee, mm));
    }

    /** inverse modulo a prime m; 0 for a = 0 (mod m), i.e. a^(m-2) mod m. */
    @TLAPlusOperator(identifier = "ModInv", module = "BigInt", warn = false)
    public static Value modInv(Value a, Value m) {
        BigInteger mm = big(m);
        BigInteger aa = big(a).mod(mm);
        if (aa.signum() == 0) {
            return IntValue.ValZero;
        }
        return ret(aa.modPow(mm.subtract(BigInteger.TWO), mm));
    }

    @TLAPlusOperator(identifier = "Pow2", module = "BigInt", warn = false)
    public static Value pow2(Value k) {
        return ret(BigInteger.ONE.shiftLeft(((IntValue) k).val));
    }

    @TLAPlusOperator(identifier = "OS2IP", module = "BigInt", warn = false)
    public static Value os2ip(Value bs) {
        TupleValue t = (TupleValue) bs.toTuple();
        if (t == null) {
            Assert.fail("BigInt: OS2IP expects a sequence of bytes");
        }
        byte[] mag = new byte[t.elems.length];
        for (int i = 0; i < mag.length; i++) {
            int b = ((IntValue) t.elems[i]).val;
            if (b < 0 || b > 255) {
                Assert.fail("BigInt: OS2IP element out of byte range");
            }
            mag[i] = (byte) b;
        }
        return ret(new BigInteger(1, mag));
    }

    @TLAPlusOperator(identifier = "I2OSP", module = "BigInt", warn = false)
    public static Value i2osp(Value x, Value len) {
        int n = ((IntValue) len).val;
        BigInteger v = big(x);
        if (v.signum() < 0 || v.bitLength() > 8 * n) {
            Assert.fail("BigInt: I2OSP value does not fit " + n + " bytes: " + v.toString(16));
        }
        byte[] raw = v.toByteArray();
        Value[] out = new Value[n];
        for (int i = 0; i < n; i++) {
            int src = raw.length - n + i;
            out[i] = IntValue.gen(src >= 0 ? (raw[src] & 0xff) : 0);
        }
        return new TupleValue(out);
    }

    // ------------------------------------------------------------ Hex.tla

    private static int nib(char c) {
        int d = Character.digit(c, 16);
        if (d < 0) {
            Assert.fail("Hex: bad hex digit '" + c + "'");
        }
        return d;
    }

    private static String str(Value s) {
        if (!(s instanceof StringValue)) {
            Assert.fail("Hex: expected a string, got " + s);
        }
        String h = ((StringValue) s).val.toString();
        if ((h.length() & 1) != 0) {
            Assert.fail("Hex: odd-length hex string");
        }
        return h;
    }

    @TLAPlusOperator(identifier = "HexToBytes", module = "Hex", warn = false)
    public static Value hexToBytes(Value s) {
        String h = str(s);
        Value[] out = new Value[h.length() / 2];
        for (int i = 0; i < out.length; i++) {
            out[i] = IntValue.gen(nib(h.charAt(2 * i)) * 16 + nib(h.charAt(2 * i + 1)));
        }
        return new TupleValue(out);
    }

    @TLAPlusOperator(identifier = "HexToInt", module = "Hex", warn = false)
    public static Value hexToInt(Value s) {
        String h = str(s);
        if (h.isEmpty()) {
            return IntValue.ValZero;
        }
        for (int i = 0; i < h.length(); i++) {
            nib(h.charAt(i));
        }
        return ret(new BigInteger(h, 16));
    }

    @TLAPlusOperator(identifier = "HexLen", module = "Hex", warn = false)
    public static Value hexLen(Value s) {
        return IntValue.gen(str(s).length() / 2);
    }

    private static final char[] HEX = "0123456789abcdef".toCharArray();

    @TLAPlusOperator(identifier = "BytesToHex", module = "Hex", warn = false)
    public static Value bytesToHex(Value bs) {
        TupleValue t = (TupleValue) bs.toTuple();
        if (t == null) {
            Assert.fail("Hex: BytesToHex expects a sequence of bytes");
        }
        StringBuilder sb = new StringBuilder(2 * t.elems.length);
        for (Value e : t.elems) {
            int b = ((IntValue) e).val;
            if (b < 0 || b > 255) {
                Assert.fail("Hex: element out of byte range");
            }
            sb.append(HEX[b >> 4]).append(HEX[b & 15]);
        }
        return new StringValue(sb.toString());
    }

    /** x = OS2IP(HexToBytes(s)) /\ HexLen(s) = len, without interning a new string. */
    @TLAPlusOperator(identifier = "IntIsHex", module = "Hex", warn = false)
    public static Value intIsHex(Value x, Value len, Value s) {
        String h = str(s);
        int n = ((IntValue) len).val;
        if (h.length() != 2 * n) {
            return BoolValue.ValFalse;
        }
        BigInteger v = h.isEmpty() ? BigInteger.ZERO : new BigInteger(h, 16);
        return v.equals(big(x)) ? BoolValue.ValTrue : BoolValue.ValFalse;
    }

    @TLAPlusOperator(identifier = "IntToHex", module = "Hex", warn = false)
    public static Value intToHex(Value x, Value len) {
        int n = ((IntValue) len).val;
        BigInteger v = big(x);
        if (v.signum() < 0 || v.bitLength() > 8 * n) {
            Assert.fail("Hex: IntToHex value does not fit " + n + " bytes: " + v.toString(16));
        }
        String h = v.toString(16);
        StringBuilder sb = new StringBuilder(2 * n);
        for (int i = h.length(); i < 2 * n; i++) {
            sb.append('0');
        }
        sb.append(h);
        return new StringValue(sb.toString());
    }

    /** bytes i .. j-1 (zero based) of the hex string; clipped to the string. */
    @TLAPlusOperator(identifier = "HexSlice", module = "Hex", warn = false)
    public static Value hexSlice(Value s, Value i, Value j) {
        String h = str(s);
        int a = Math.max(0, ((IntValue) i).val);
        int b = Math.min(h.length() / 2, ((IntValue) j).val);
        if (a >= b) {
            return new StringValue("");
        }
        return new StringValue(h.substring(2 * a, 2 * b));
    }

    @TLAPlusOperator(identifier = "HexCat", module = "Hex", warn = false)
    public static Value hexCat(Value s, Value t) {
        return new StringValue(str(s) + str(t));
    }
}
