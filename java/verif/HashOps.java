package verif;

import java.security.MessageDigest;

import tlc2.overrides.TLAPlusOperator;
import tlc2.value.impl.IntValue;
import tlc2.value.impl.TupleValue;
import tlc2.value.impl.Value;
import util.Assert;

/** SHA-256 primitive of Hash.tla, evaluated by the JDK's MessageDigest. */
public final class HashOps {
    private HashOps() {}

    static byte[] bytes(Value bs) {
        TupleValue t = (TupleValue) bs.toTuple();
        if (t == null) {
            Assert.fail("Hash: expected a sequence of bytes");
        }
        byte[] out = new byte[t.elems.length];
        for (int i = 0; i < out.length; i++) {
            int b = ((IntValue) t.elems[i]).val;
            if (b < 0 || b > 255) {
                Assert.fail("Hash: element out of byte range");
            }
            out[i] = (byte) b;
        }
        return out;
    }

    static Value tuple(byte[] b) {
        Value[] out = new Value[b.length];
        for (int i = 0; i < b.length; i++) {
            out[i] = IntValue.gen(b[i] & 0xff);
        }
        return new TupleValue(out);
    }

    @TLAPlusOperator(identifier = "SHA256", module = "Hash", warn = false)
    public static Value sha256(Value msg) throws Exception {
        MessageDigest md = MessageDigest.getInstance("SHA-256");
        return tuple(md.digest(bytes(msg)));
    }
}
