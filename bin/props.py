"""Per-property configuration of bin/check: which exhaustive miniature models (pipeline A), which Go
drivers and which trace specifications (pipelines B/C) decide each property, and which corner
classes a run must have exercised to count as non-vacuous."""

PROPS = {}


# GODEBUG settings that make run-time CPU feature detection (internal/cpu, golang.org/x/sys/cpu) report an old amd64
_OLDCPU = {"GODEBUG": "cpu.avx2=off,cpu.avx=off,cpu.bmi2=off,cpu.adx=off,cpu.sse41=off,cpu.ssse3=off"}


def _bug(spec, params, bug, inv, **kw):
    """non-vacuity: the same model with one deliberately wrong design (VERIF_BUG) must violate the named invariant"""
    d = {"spec": spec, "params": params, "cfg": spec + ".cfg", "env": {"VERIF_MCFULL": "0", "VERIF_BUG": bug}, "expect_violation": inv, "label": spec + "[" + bug + "]"}
    d.update(kw)
    return d

NOT_APPLICABLE = {}

PROPS["C01"] = {
    "title": "field-element operations are exact arithmetic modulo p",
    "technique": 'TLA+ field spec (Field/FieldAlg): exhaustive TLC on miniature primes + TLC trace validation of every internal/field call at full size (steered corner operands, internal-representation watch)',
    "level": "exploration",
    "level_text": "Every field operation and raw fiat entry point of the real code is executed on steered corner operands "
                  "(sum/difference/Montgomery windows, limb patterns, all byte-string classes, every alias pattern) and every "
                  "logged result is decided by TLC against Field.tla at full size; the oracle itself and the A-level "
                  "algorithms are model-checked exhaustively on miniature primes. Sampling with an exact model oracle, not a proof.",
    "level_note": "trusted: TLC, BigInt overrides (java.math.BigInteger, self-tested), the harness' logging; generators untrusted",
    "exhaustive": [
        {"spec": "MC_Field", "params": "mini163"},
        {"spec": "MC_Field", "params": "mini211", "tiers": ("thorough",)},
    ],
    "drivers": [
        {"driver": "field", "trace": "Trace_Field"},
        {"driver": "field", "trace": "Trace_Field", "goarch": "386"},          # the same arithmetic where int / uint are 32 bits wide
    ],
    "require_classes": {"quick": ["life_step", "life_zero", "life_reject", "sum_window", "diff_borrow", "mont_window", "mont_sqr_window", "decode_ge_p", "canon_reject",
                                  "wide_len_odd", "wide_ge_p", "wide_fold_carry", "wide_panic", "sqrt_residue", "sqrt_nonresidue", "sqrt_zero",
                                  "ratio_v0", "ratio_square", "ratio_nonsquare", "inv_zero", "alias_all", "alias_recv",
                                  "pow2k_panic", "near_p"]},
    "assumptions": [
        "the fiat limb code is sampled (steered corner operands + exact TLA+ oracle), not proved for every operand",
        "TLC evaluates 256-bit arithmetic through java.math.BigInteger (BigInt.tla overrides), re-validated by SelfTest.tla",
        "operands are placed through NewElementFromCanonicalBytes / raw limbs and read back through Bytes(); a defect in both "
        "directions that cancels exactly would be invisible",
    ],
}

PROPS["C02"] = {
    "title": "scalar operations are exact arithmetic modulo the group order n",
    "technique": 'TLA+ scalar spec (ScalarField): exhaustive TLC on miniature orders + TLC trace validation of every Scalar call at full size',
    "level": "exploration",
    "level_text": "Every Scalar method and raw scalar-fiat entry point of the real code is executed on steered corner operands "
                  "(sum/difference/Montgomery windows for modulus n, values around (n-1)/2, special inversion arguments, Sum/Product "
                  "vectors of length 0..6 with repeated and receiver-aliased entries, all 32-byte string classes, every alias "
                  "pattern) and every logged result is decided by TLC against ScalarField.tla at full size; the oracle and the "
                  "A-level algorithms (conditional subtraction, half-order borrow chain, folds) are model-checked exhaustively on "
                  "miniature group orders. Sampling with an exact model oracle, not a proof.",
    "level_note": "trusted: TLC, BigInt overrides (java.math.BigInteger, self-tested), the harness' logging; generators untrusted",
    "exhaustive": [
        {"spec": "MC_Scalar", "params": "mini163"},
        {"spec": "MC_Scalar", "params": "mini211", "tiers": ("thorough",)},
    ],
    "drivers": [
        {"driver": "scalar", "trace": "Trace_Scalar"},
        {"driver": "scalar", "trace": "Trace_Scalar", "goarch": "386"},
    ],
    "require_classes": {"quick": ["life_step", "life_zero", "life_reject", "sum_window", "diff_borrow", "mont_window", "mont_sqr_window", "decode_ge_n", "canon_reject",
                                  "inv_zero", "inv_special", "alias_all", "alias_recv", "half_boundary", "gt_half", "le_half",
                                  "sum_empty", "sum_alias", "sum_long", "sum_fold_window_value", "sum_fold_window_mont", "prod_empty", "pow2k_panic", "near_n", "cneg_zero"]},
    "assumptions": [
        "the fiat limb code is sampled (steered corner operands + exact TLA+ oracle), not proved for every operand",
        "TLC evaluates 256-bit arithmetic through java.math.BigInteger (BigInt.tla overrides), re-validated by SelfTest.tla",
        "operands are placed through NewScalarFromCanonicalBytes / raw limbs and read back through Bytes()",
    ],
}

PROPS["C03"] = {
    "title": "point addition/doubling/negation implement the secp256k1 group law completely",
    "technique": 'TLA+ transcription of the RCB formulas model-checked over all pairs of projective representatives of a miniature curve + TLC trace validation of the real group operations (stateful chains)',
    "level": "model_checking",
    "level_text": "The Renes-Costello-Batina formulas as transcribed from point_projective.go (Projective.tla) are model-checked by TLC on "
                  "miniature secp256k1-shaped curves for ALL pairs of projective representatives of ALL points (identity representatives "
                  "included), which makes 'valid representative of the right abstract point' an inductive invariant of every operation "
                  "sequence; the real code is bound to the same specification by trace validation at full size: Add/Subtract/Double/Negate/"
                  "conditional ops/Equal/IsIdentity/IsYOdd/encoders are driven on hand-built representatives (z in {1,2,p-1,random}, identity "
                  "as (0,Y,0)), every exceptional relation and alias pattern, and on random operation chains whose abstract state is carried "
                  "by the specification.",
    "level_note": "trusted: TLC, BigInt/EcAdd overrides (self-tested against the TLA+ definitions), verif accessors reading raw coordinates; "
                  "full-size behaviour is sampled with an exact oracle",
    "exhaustive": [
        {"spec": "MC_Projective", "params": "mini43", "env": {"VERIF_MCFULL": "0"}, "tiers": ("quick",)},
        {"spec": "MC_Projective", "params": "mini43", "env": {"VERIF_MCFULL": "1"}, "tiers": ("thorough",)},
        {"spec": "MC_Projective", "params": "mini79", "env": {"VERIF_MCFULL": "0"}, "tiers": ("thorough",)},
    ],
    "drivers": [
        {"driver": "point", "trace": "Trace_Point"},
        {"driver": "point", "trace": "Trace_Point", "goarch": "386", "tiers": ("thorough",)},
    ],
    "require_classes": {"quick": ["life_step", "life_reject", "life_reject_cmp", "life_decode_id", "equal_limb_twin", "life_inf", "life_ctrl", "add_inf_inf", "add_inf_p", "add_p_inf", "add_p_p", "add_p_negp", "add_generic", "add_inf_altrep",
                                  "z_not_one", "alias_recv", "alias_all", "mixed_p_p", "mixed_p_negp", "mixed_inf", "dbl_inf",
                                  "equal_true_diffrep", "equal_neg", "equal_same_y", "equal_collinear", "equal_inf_inf", "equal_p_inf", "yodd", "yeven", "inf_parity", "enc_inf",
                                  "chain_step"]},
    "assumptions": [
        "full-size group operations are sampled (steered representatives and relations, exact TLA+ oracle); exhaustiveness is on miniature curves",
        "raw projective coordinates are read through verif-tagged accessors added to a scratch copy of the tree",
    ],
}

_MUL_A = [
    {"spec": "MC_Mul", "params": "mini43", "env": {"VERIF_MCFULL": "0"}, "tiers": ("quick",)},
    {"spec": "MC_Mul", "params": "mini43", "env": {"VERIF_MCFULL": "1"}, "tiers": ("thorough",)},
    {"spec": "MC_Mul", "params": "mini79", "env": {"VERIF_MCFULL": "0"}, "tiers": ("thorough",), "timeout": 7200},
]
_MC_TEXT = ("The algorithm as coded (Mul.tla: split with round-by-carry, sign normalisation, fixed-window ladders over the low HBits, "
            "multiples tables with implicit zero entry, nibble/byte fixed-base walks, Straus) is model-checked by TLC against repeated addition "
            "for ALL scalars and ALL points of miniature secp256k1-shaped curves whose GLV constants are derived the libsecp256k1 way; ")

PROPS["C04"] = {
    "title": "variable-base scalar multiplication returns s*P for every scalar and point",
    "technique": 'TLA+ GLV/ladder spec model-checked for all scalars and points of miniature curves, closed-form half bounds evaluated by TLC at full size + TLC trace validation of the real multiplies (both build configurations)',
    "level": "model_checking",
    "level_text": _MC_TEXT + "the real code is bound by trace validation at full size: the constants of the running binary, the lattice relations "
                  "and the closed-form bound on both halves (< 2^128 for EVERY s; the same formula is validated exhaustively on the miniature curves) "
                  "are evaluated by TLC, splitGLV / mulGFlooredDiv are checked on scalars steered to extreme halves, rounding-bit flips and limb "
                  "carries, and ScalarMult / the variable-time twin / DoubleScalarMultBasepointVartime(0,s,P) / length-1 MultiScalarMult are checked "
                  "against Group!PMul on those scalars x {identity (two representatives), G, random, other representatives, receiver = P}.",
    "level_note": "trusted: TLC, BigInt/EcAdd/EcMul overrides (self-tested against the TLA+ definitions on every setup), verif accessors",
    "exhaustive": _MUL_A,
    "drivers": [{"driver": "mul", "trace": "Trace_Point"},
                {"driver": "mul", "trace": "Trace_Point", "tags": ("verif", "purego")},             # the portable lookup is part of this property's code
                {"driver": "mul", "trace": "Trace_Point", "goarch": "386", "tiers": ("thorough",)}],
    "require_classes": {"quick": ["split_extreme", "split_neg1", "split_neg2", "split_round_flip", "split_limb_carry", "split_edge",
                                  "mul_zero", "mul_inf", "mul_alias", "mul_edge_scalar", "mul_altrep", "glv_bound", "dsm_only_base", "dsm_only_var", "dsm_cancel", "mul_seq"]},
    "assumptions": ["full-size multiplications are sampled on steered scalars with an exact oracle; the for-all-s bound is a closed form evaluated at full size "
                    "and validated against exhaustive enumeration only on miniature curves"],
}

PROPS["C05"] = {
    "title": "fixed-base multiplication and the embedded generator tables are exact",
    "technique": 'TLA+ fixed-base spec model-checked on a miniature curve + stateful TLC trace validation walking all 8160+480 embedded table entries and every single-byte scalar (both build configurations)',
    "level": "model_checking",
    "level_text": _MC_TEXT + "at full size ALL 32x255 entries of the embedded table are walked by a stateful trace specification that carries its own "
                  "running multiple (entry j = entry j-1 + 256^i*G, each row closed by 256*base = next base), all 32x15 odd-table entries are checked "
                  "against (16j)*256^i*G, and ScalarBaseMult / the variable-time twin are checked against Group!PMulG for ALL 32x255 single-byte scalars, "
                  "zero nibbles/bytes in every position, two-byte combinations, edge and random scalars, plus PrivateKey -> PublicKey.",
    "level_note": "trusted: TLC, BigInt/EcAdd/EcMul overrides (self-tested), verif accessors reading the deserialised tables",
    "exhaustive": _MUL_A[:1] + [_MUL_A[1]],
    "drivers": [{"driver": "basemul", "trace": "Trace_Point"},
                {"driver": "basemul", "trace": "Trace_Point", "tags": ("verif", "purego")},         # both lookup configurations
                {"driver": "basemul", "trace": "Trace_Point", "tags": ("verif", "purego"), "goarch": "386"},    # ... and a 32-bit word size
                # ... and the assembly build on a CPU without the newer vector extensions (run-time dispatch, if any, takes its fallback)
                {"driver": "basemul", "trace": "Trace_Point", "env": _OLDCPU, "cfg": "-oldcpu"}],
    "require_classes": {"quick": ["tbl_huge", "tbl_odd", "tbl_row", "bm_single_byte", "bm_zero_nibble", "bm_edge", "bm_priv", "bm_priv_after_derive", "bm_recycled", "dsm_window_meet"]},
    "assumptions": ["table entries are exhaustively checked (finite set); multiplications on multi-byte scalars are sampled"],
    "min_counts": {"tbl_huge": 8160, "tbl_odd": 480, "tbl_row": 32, "bm_single_byte": 16320},
}

PROPS["C06"] = {
    "title": "SEC 1 point decoding is strict and encoding is a bijection on curve points",
    "technique": 'declarative TLA+ SEC 1 codec model-checked over every byte string of a one-byte-coordinate curve + TLC trace validation of the real decoders with receiver state before/after',
    "level": "model_checking",
    "level_text": "Sec1.tla states declaratively which byte strings encode which point; TLC checks on miniature curves with one-byte coordinates "
                  "(n < p < 2^8 < 2n, so non-canonical coordinates exist as on the real curve) for EVERY byte string of length 0..2W+1 that the decoder "
                  "accepts exactly the image of the encoders, that decode/encode are mutually inverse and one-to-one per format, that the step-by-step "
                  "algorithm of point_s11n.go refines it and writes its receiver only on success, and RecoverPoint for all (x mod n, id in 0..255). "
                  "The real decoders/constructors are bound by trace validation at full size on every class of input (all lengths 0..66, all 256 prefixes, "
                  "+p aliases of small coordinates, non-residues, wrong-sign / off-by-one y, hybrid prefixes, identity byte in each decoder, x in [n,p) "
                  "recovery) with receiver state logged before/after on initialised and zero-value receivers.",
    "level_note": "trusted: TLC, BigInt overrides (self-tested), the harness' logging",
    "exhaustive": [
        {"spec": "MC_Sec1", "params": "mini211", "env": {"VERIF_MCFULL": "0"}, "tiers": ("quick",)},
        {"spec": "MC_Sec1", "params": "mini211", "env": {"VERIF_MCFULL": "1"}, "tiers": ("thorough",)},
        {"spec": "MC_Sec1", "params": "mini163", "env": {"VERIF_MCFULL": "1"}, "tiers": ("thorough",)},
    ],
    "drivers": [{"driver": "sec1", "trace": "Trace_Point"},
                {"driver": "ptlife", "trace": "Trace_Point"}],       # both encoders (and XBytes / IsYOdd) on a long-lived object after every kind of operation
    "require_classes": {"quick": ["dec_ok_cmp", "dec_ok_unc", "dec_ok_inf", "dec_bad_len", "dec_bad_prefix", "dec_noncanon_x", "dec_noncanon_y",
                                  "dec_offcurve", "dec_nonresidue", "dec_hybrid", "dec_recv_uninit", "dec_recv_kept", "dec_fresh", "coords_ok", "coords_bad", "life_reject_cmp", "life_decode_id",
                                  "rec_ok_low", "rec_ok_high", "rec_overflow", "rec_overflow_low_limbs_pass", "rec_bad_id", "rec_nonresidue"]},
    "assumptions": ["full-size byte strings are sampled per class (exact oracle); all byte strings are enumerated only on the miniature curves"],
}

PROPS["C16"] = {
    "thorough_seeds": 3,      # driver seeds per thorough run (default 4); fitted to keep one run within about 20 minutes
    "title": "multi-scalar and double-scalar multiplication return the exact combination",
    "technique": 'TLA+ Straus / double-scalar spec model-checked on a miniature curve + TLC trace validation over list shapes, operand classes and aliasing (both build configurations)',
    "level": "model_checking",
    "level_text": _MC_TEXT + "including Straus over lists with repeated, mutually inverse and identity points and partial sums through the identity, and the "
                  "double-scalar multiply for all (u2, P) x edge u1; the real MultiScalarMult / MultiScalarMultVartime / DoubleScalarMultBasepointVartime "
                  "are bound by trace validation at full size over list shapes (length 0..6, 7..33, 64+ in thorough), scalar classes {0,1,n-1,-s_j,s_j,random}, "
                  "point classes {identity (two representatives), G, P_j in another representative, -P_j, random}, receiver aliasing an entry, cancelling "
                  "combinations and mismatched lengths (must panic with the receiver untouched); inputs must be unchanged afterwards.",
    "level_note": "trusted: TLC, BigInt/EcAdd/EcMul overrides (self-tested), verif accessors",
    "exhaustive": _MUL_A,
    "drivers": [{"driver": "msm", "trace": "Trace_Point"},
                {"driver": "msm", "trace": "Trace_Point", "tags": ("verif", "purego")}],
    "require_classes": {"quick": ["msm_len0", "msm_len1", "msm_len2", "msm_len3plus", "msm_long", "msm_zero_scalar", "msm_inf_point", "msm_dup",
                                  "msm_inverse", "msm_alias", "msm_alias_far", "msm_mismatch", "msm_cancel", "dsm", "mul_alias"]},
    "assumptions": ["full-size list shapes and operand classes are sampled with an exact oracle; exhaustiveness is on the miniature curve"],
}

_ECDSA_A = [
    {"spec": "MC_Ecdsa", "params": "mini43"},
    {"spec": "MC_Ecdsa", "params": "mini79", "tiers": ("thorough",), "timeout": 7200},
]
_ECDSA_MC = ("Ecdsa.tla states SEC 1 4.1.3-4.1.6 with the library's low-s / recovery-id rules; TLC checks on miniature curves (every point has a known "
             "discrete log, p-n = 12 makes x(R) >= n frequent) for ALL keys, ALL e, ALL (r,s) that the verification predicate is equivalent to 'some nonce k "
             "produces (r,s)', that the private-key path 4.1.5 agrees, that signing with ANY nonce retries exactly on r=0/s=0 and otherwise yields a low-s, "
             "valid signature whose id (and no other id in 0..7) recovers the signer, and that recovery fails exactly in the listed cases. ")

PROPS["C07"] = {
    "title": "ECDSA verification accepts exactly the signatures SEC 1 section 4.1.4 accepts",
    "technique": 'TLA+ ECDSA spec model-checked against a discrete-log definition of validity for all keys/e/(r,s) on a miniature curve + TLC trace validation of constructed boundary signatures at full size',
    "level": "model_checking",
    "level_text": _ECDSA_MC + "The real VerifyRaw / Verify (3 encodings x malleability x hash sizing) / bitcoin.VerifyASN1 / the private-key path are bound by "
                  "trace validation at full size: TLC evaluates the predicate (DER/compact/BIP-66 grammars from Wire.tla included) on the logged key, digest "
                  "and signature for constructed boundary cases: x(R) in [n,p) via chosen R and key recovery, R = infinity, e = 0, digest >= n, all digest "
                  "length edges, r/s in {0,n,n+1,2^256-1}, s vs n-s under both malleability settings, wrong recovery ids, bit flips, every byte of a DER "
                  "encoding mutated, and the Wycheproof files re-driven through the logger.",
    "level_note": "trusted: TLC, BigInt/EcMul/SHA-256 overrides (self-tested), harness logging; generators (incl. the recovery trick) untrusted",
    "exhaustive": _ECDSA_A,
    "drivers": [{"driver": "verify", "trace": "Trace_Ecdsa"},
                {"driver": "verify", "trace": "Trace_Ecdsa", "goarch": "386", "tiers": ("thorough",)}],
    "require_classes": {"quick": ["r_zero", "s_zero", "high_s_rej", "high_s_acc", "x_ge_n", "R_inf", "e_zero", "digest_ge_n", "digest_short",
                                  "digest_long", "digest_huge", "accept", "reject", "enc_asn1", "enc_compact", "enc_rec", "enc_bogus", "rec_wrong_v", "btc_accept",
                                  "btc_badenv", "btc_high_s", "hash_mismatch", "hash_exotic_accept", "parse_reject", "cmp_shift_n", "alt_path", "nil_opts", "after_scribble", "near_miss_r"]},
    "assumptions": ["full-size inputs are constructed per corner class and decided by an exact oracle; all inputs are enumerated only on miniature curves"],
}

PROPS["C08"] = {
    "title": "ECDSA signing always yields a valid, low-s, correctly recoverable signature",
    "technique": 'TLA+ signing step (SignWithNonce) model-checked for all (d,e,k) on a miniature curve + TLC trace validation inferring the nonce of every real signature',
    "level": "model_checking",
    "level_text": _ECDSA_MC + "The real SignRaw / Sign are bound by trace validation: for every logged signature TLC infers the nonce (+-s^-1(e + r d)) and requires "
                  "the output to be exactly SignWithNonce(d,e,k) (pins low-s and the recovery id), to verify, and to be recovered by its id and by no other id; "
                  "encoded outputs must be the canonical encoding and parse back; SelfVerify on/off must give identical bytes for identical entropy; "
                  "inadmissible digest lengths / encodings must give an error and no bytes. Keys {1, n-1, odd/even public y, random}, digests {0, ff, >= n, "
                  "lengths 0..65}, hedged and RFC 6979 nonces, every option combination.",
    "level_note": "trusted: TLC, BigInt/EcMul/SHA-256 overrides (self-tested), harness logging",
    "exhaustive": _ECDSA_A,
    "drivers": [{"driver": "sign", "trace": "Trace_Ecdsa"},
                {"driver": "sign", "trace": "Trace_Ecdsa", "goarch": "386", "tiers": ("thorough",)}],
    "require_classes": {"quick": ["d_one", "d_nm1", "pub_yodd", "pub_yeven", "digest_zero", "digest_ones", "digest_ge_n", "v0", "v1",
                                  "sv_same", "inadmissible_len", "inadmissible_enc", "rfc6979", "hedged", "sign_len_long", "enc_asn1", "enc_compact",
                                  "enc_rec", "nil_opts", "build_der", "build_short", "build_compact", "after_derive", "accept", "sig_stable"]},
    "assumptions": ["x(R) >= n, r = 0 and s = 0 cannot be reached through signing at full size (2^-128); those branches are covered on the miniature model "
                    "and, for ids 2/3, by C11's direct recovery events"],
}

PROPS["C09"] = {
    "title": "signing nonces are never reused, biased or RNG-trusting; RFC 6979 mode is exact",
    "technique": 'TLA+ state machine of one Sign call (Nonce.tla): TLC exhaustive + Apalache inductive invariant + TLAPS proof for all parameter values; RFC 6979 DRBG state machine; stateful TLC trace validation of scripted entropy readers (determinism / uniqueness maps)',
    "level": "model_checking",
    "level_text": "Nonce.tla is the state machine of one Sign call (io.ReadFull over an arbitrary reader script, the per-signature DRBG, the bounded rejection "
                  "sampler, the sign/retry loop); TLC enumerates all reader scripts x candidate-class sequences and checks 'signed => exactly W bytes of entropy, "
                  "nonce = first valid candidate (unreduced)', 'reader error before W bytes => no signature', bounded attempts; Rfc6979.tla is the HMAC_DRBG with "
                  "its deferred K/V update. The real code is bound by a STATEFUL trace: scripted readers (constant, counter, 1-byte-at-a-time, zero-length reads, "
                  "error with the last chunk, failing after j bytes for every j in 0..31) with every Read logged; TLC checks ReadFull's protocol, that equal "
                  "(key, e, entropy) give the identical signature under any chunking and that no two different triples ever share r (state: seenKey / seenR); "
                  "the sampler is driven on all candidate-class sequences (0, >= n, valid edge values) up to and past the retry limit; the DRBG's successive "
                  "reads are compared with the RFC's eager candidate loop (HMAC defined in TLA+); public RFC 6979 signatures must equal SignWithNonce with the "
                  "first RFC candidate.",
    "level_note": "trusted: TLC, BigInt/EcMul/SHA-256 overrides (self-tested), harness logging; TupleHash is uninterpreted (the property does not pin it)",
    "exhaustive": [{"spec": "MC_Nonce", "params": "mini43"},
                   {"spec": "MC_Nonce", "params": "mini43", "cfg": "MC_Nonce_buggy.cfg", "expect_violation": "NonceIsAcceptedCandidate"},
                   {"spec": "NonceInd", "engine": "apalache", "files": ["Nonce.tla", "NonceInd.tla"]},
                   {"spec": "NonceProof", "engine": "tlaps", "files": ["Nonce.tla", "NonceProof.tla"]}],
    "drivers": [{"driver": "nonce", "trace": "Trace_Ecdsa", "shards": 16}],
    "require_classes": {"quick": ["reader_short_reads", "reader_fail_0", "reader_fail_mid", "reader_fail_31", "reader_err_with_last", "reader_ok",
                                  "same_triple", "entropy_one_byte_diff", "constant_entropy_diff_msg", "nil_rand", "wiped_import", "digest_scribbled", "sample_first", "sample_after_zero",
                                  "sample_after_ge_n", "sample_exhausted", "sample_short", "sample_edge_accept", "drbg_multi", "drbg_vector", "drbg_long", "rfc6979", "rfc6979_short_nonce",
                                  "inadmissible_len"]},
    "assumptions": ["statistical unbiasedness is not decided, only the structural rule (reject, never reduce; bounded retries)",
                    "a rejected candidate inside a full Sign call needs a 2^-128 event; the sampler, the DRBG and the sign step are each checked and composed only in the model"],
}

PROPS["C10"] = {
    "title": "ECDH is symmetric and exact; key objects only ever hold valid keys",
    "technique": 'TLA+ ECDH/key spec model-checked for all key pairs of a miniature curve + TLC trace validation of constructors, cached encodings, immutability probes and repeated ECDH',
    "level": "model_checking",
    "level_text": _ECDSA_MC + "ECDH symmetry and exactness are model-checked for ALL (a, b) of the miniature curve. The real constructors / accessors / ECDH are bound by trace "
                  "validation: private-key candidates {0, 1, n-1, n, n+1, 2^256-1, wrong lengths, random}, public-key byte strings in every SEC 1 class plus hybrid, "
                  "+p aliases, twist and other-curve points and the identity, keys from points in any representative; cached Bytes/CompressedBytes/ASN1Bytes/Point must "
                  "equal the specification's encodings of d*G; ECDH(a,B) = ECDH(b,A) = x(abG) with the peer key travelling in each encoding.",
    "level_note": "trusted: TLC, BigInt/EcMul overrides (self-tested), harness logging",
    "exhaustive": _ECDSA_A[:1] + [{"spec": "MC_Sec1", "params": "mini211", "env": {"VERIF_MCFULL": "1"}}],
    "drivers": [{"driver": "keys", "trace": "Trace_Ecdsa"},
                {"driver": "keys", "trace": "Trace_Ecdsa", "goarch": "386", "tiers": ("thorough",)}],
    "require_classes": {"quick": ["priv_ok", "priv_zero", "priv_ge_n", "priv_badlen", "pub_ok_unc", "pub_ok_cmp", "pub_identity", "pub_invalid",
                                  "pub_twist", "ecdh_ok", "ecdh_edge", "ecdh_repeat", "key_immutable", "rec_q_inf", "key_after_rejected_decode", "pub_from_recycled_point"]},
    "assumptions": ["full-size keys are sampled per class with an exact oracle"],
}

PROPS["C11"] = {
    "title": "public-key recovery returns exactly the key the signature verifies under",
    "technique": 'TLA+ recovery spec model-checked for all (e,r,s,v) on a miniature curve + TLC trace validation for ids 0..255 on honest and constructed signatures',
    "level": "model_checking",
    "level_text": _ECDSA_MC + "The real RecoverPublicKey is bound by trace validation for ids 0..255 on honest signatures (only the emitted id recovers the signer), on r = x - n "
                  "for constructed x in [n,p) (ids 2/3 succeed and the key verifies), r >= p-n with bit 1 set (must fail), r not an x-coordinate, r or s = 0, "
                  "(r,s,e) with sR = eG (Q at infinity), short digests; every success is followed by a VerifyRaw event of the recovered key.",
    "level_note": "trusted: TLC, BigInt/EcMul overrides (self-tested), harness logging",
    "exhaustive": _ECDSA_A,
    "drivers": [{"driver": "recover", "trace": "Trace_Ecdsa"},
                {"driver": "recover", "trace": "Trace_Ecdsa", "goarch": "386", "tiers": ("thorough",)}],
    "require_classes": {"quick": ["rec_v_ge4", "rec_hi_ok", "rec_hi_overflow", "rec_not_x", "rec_q_inf", "rec_rs_zero", "rec_ok", "accept", "high_s_acc", "high_s_rej", "digest_ge_n", "digest_long", "digest_huge", "kept_key", "sig_stable"]},
    "assumptions": ["full-size inputs are constructed per corner class and decided by an exact oracle"],
}

PROPS["C12"] = {
    "title": "signature and key wire formats are strict, canonical, and parsed without panics",
    "technique": 'wire formats as TLA+ grammars (DER, BIP-66 from the BIP text, SPKI) model-checked over all short byte strings + TLC-enumerated deviation shapes (Shape_Wire.tla: every single and pair of structural deviations) instantiated at full size + TLC trace validation of every parser verdict',
    "level": "model_checking",
    "level_text": "Wire.tla states the accepted languages as grammars over byte sequences (strict-DER SEQUENCE{INTEGER,INTEGER}, compact forms, BIP-66 written "
                  "from the BIP text, SubjectPublicKeyInfo with exact OIDs and a BIT STRING without unused bits). TLC checks on a one-byte scalar width that for "
                  "EVERY byte string up to length 8 over a tag/length/content alphabet the DER grammar accepts exactly the image of the builder (one encoding per "
                  "(r,s), parse/build mutually inverse), and that the BIP-66 grammar is equivalent to the index arithmetic of asn1_shitcoin.go for every total "
                  "length 0..75, every R/S length header and the inspected content bytes over {00,01,7f,80,ff}. The real parsers/builders are bound by trace "
                  "validation at full size: TLC evaluates the grammar on the logged BYTES for every single and (sampled) pairwise structural deviation (tags, "
                  "short/long/indefinite/off-by-one lengths, extra/missing leading zeros, negative/empty/33-byte integers, values 0/n/2^256-1, trailing bytes "
                  "inside/outside, missing/extra elements), every BIP-66 total length and (lenR,lenS) split, SPKI deviations (unused bits 1..8 with zero and "
                  "non-zero padding, OIDs, parameters, trailing bytes at each level, every byte mutated, every SEC 1 class of content), the repository's vector "
                  "files and random/mutated strings of length 0..80; no parser may panic.",
    "level_note": "trusted: TLC, BigInt overrides (self-tested), harness logging (recover() around every parser call)",
    "exhaustive": [
        {"spec": "MC_Wire", "params": "mini211", "env": {"VERIF_MCFULL": "0"}, "tiers": ("quick",)},
        {"spec": "MC_Wire", "params": "mini211", "env": {"VERIF_MCFULL": "1"}, "tiers": ("thorough",), "timeout": 7200},
    ],
    "drivers": [{"driver": "wire", "trace": "Trace_Wire",
                 "shape": {"spec": "Shape_Wire", "cfg": "Shape_Wire.cfg", "mode": "bfs", "params": "mini211",
                           "what": "skeleton files (base + every single + every pair of structural deviations; NoSecondEncoding checked at miniature width)"}}],
    "require_classes": {"quick": ["der_ok", "der_bad", "der_len_long_form", "der_indefinite", "der_leading_zero", "der_negative", "der_trailing",
                                  "der_wrong_tag", "der_empty_int", "der_33_byte", "der_value_zero", "der_value_ge_n", "der_short_input",
                                  "build_roundtrip", "build_high_bit", "build_short", "cmp_ok", "cmp_bad_len", "cmp_zero", "cmp_ge_n", "cmpv_ok", "spki_prefix_sweep",
                                  "bip_ok", "bip_len_edge", "bip_bad", "bip_but_not_der", "bip_neg", "bip_len_wide", "bip_padding",
                                  "spki_ok_unc", "spki_ok_cmp", "spki_unused_bits", "spki_unused_bits_zero_pad", "spki_bad_oid", "spki_trailing",
                                  "spki_bad_point", "spki_identity", "spki_params", "spki_bad", "random_bytes", "model_sig_shape", "model_spki_shape", "enc_stable"]},
    "assumptions": ["full-size byte strings are enumerated per structural class and sampled at random; all strings are enumerated only at miniature width"],
}

_SCHNORR_A = [
    {"spec": "MC_Schnorr", "params": "mini43"},
    {"spec": "MC_Schnorr", "params": "mini79", "tiers": ("thorough",), "timeout": 7200},
]
_SCHNORR_MC = ("Schnorr.tla transcribes BIP-340 (lift_x, Verify, Sign with the default nonce derivation, tagged hashes defined over a SHA-256 primitive). "
               "TLC checks on miniature curves, with the challenge ranging over ALL of Z_n, that for ALL x-only keys (liftable or not, below or above p), ALL r "
               "(every one-byte value, so r >= p occurs) and ALL s in [0, n+4) verification accepts exactly when some nonce with even-y R, x(R) = r gives "
               "s = k + e d; that lift_x accepts exactly on-curve x < p; and that for ALL (d', k', e) the signing algebra negates d and k exactly by the "
               "parities of P and R and yields a signature that verifies. ")

PROPS["C12"]["drivers"].append(dict(PROPS["C12"]["drivers"][0], goarch="386", tiers=("thorough",)))     # the parsers' length arithmetic where int is 32 bits wide

PROPS["C13"] = {
    "title": "BIP-340 verification accepts exactly what the BIP-340 algorithm accepts",
    "technique": 'TLA+ transcription of BIP-340 Verify model-checked with the challenge ranging over Z_n on a miniature curve + TLC trace validation recomputing the tagged hashes',
    "level": "model_checking",
    "level_text": _SCHNORR_MC + "The real NewSchnorrPublicKey / Verify are bound by trace validation at full size: TLC recomputes the tagged challenge hash and the "
                  "whole Verify algorithm on the logged key, message and signature for honest signatures over message lengths {0,1,31,32,33,64,65,1000}, "
                  "r in {p-1, p, p+1, 2^256-1, 0}, s in {n-1, n, n+1, 0, 2^256-1}, constructed odd-y R (un-negated nonce), constructed R = infinity (s = e d), "
                  "bit flips, message truncation/extension, signature lengths 0/63/65, keys not on the curve / >= p / +p aliases / wrong lengths, and the "
                  "official vector file re-driven.",
    "level_note": "trusted: TLC, BigInt/EcMul/SHA-256 overrides (self-tested), harness logging; the tagged-hash accessor is used only to steer inputs",
    "exhaustive": _SCHNORR_A,
    "drivers": [{"driver": "schnorr", "trace": "Trace_Schnorr"},
                {"driver": "schnorr", "trace": "Trace_Schnorr", "tags": ("verif", "purego")}],   # the portable lookups are part of key derivation and signing
    "require_classes": {"quick": ["pk_ok", "pk_x_ge_n", "pk_not_on_curve", "pk_ge_p", "pk_bad_len", "vfy_accept", "vfy_reject", "r_ge_p", "s_ge_n", "s_zero",
                                  "R_odd_y", "R_inf", "x_mismatch", "msg_len_0", "msg_nil_accept", "msg_len_odd", "msg_len_long", "msg_len_blocks", "sig_bad_len", "vector"]},
    "assumptions": ["full-size inputs are constructed per corner class and decided by an exact oracle"],
}

PROPS["C14"] = {
    "title": "BIP-340 signing is the specified function of (key, aux randomness, message)",
    "technique": 'TLA+ transcription of BIP-340 Sign (byte for byte, tagged hashes in TLA+) + model-checked sign algebra + TLC trace validation of deep and public signing, key derivations and immutability',
    "level": "model_checking",
    "level_text": _SCHNORR_MC + "The real signSchnorr (deep, chosen aux) and the public Sign (scripted entropy reader) are bound by trace validation: the logged signature "
                  "must equal Schnorr!SignB(sk, m, aux) byte for byte (TLC evaluates the aux/nonce/challenge tagged hashes itself) and verify; all four "
                  "(P parity x R parity) cases, aux in {0, ff, random}, all message lengths, d' in {1, n-1, random}; a failing reader gives no signature; the "
                  "self-verification shortcut agrees with Verify on valid and corrupted signatures; keys derived from ECDSA keys and from points (odd / even y, "
                  "other representatives, identity refused) expose the even-y point, its x and a signing scalar d with d*G = that point.",
    "level_note": "trusted: TLC, BigInt/EcMul/SHA-256 overrides (self-tested), verif accessors (signSchnorr, d)",
    "exhaustive": _SCHNORR_A,
    "drivers": [{"driver": "schnorr", "trace": "Trace_Schnorr"},
                {"driver": "schnorr", "trace": "Trace_Schnorr", "tags": ("verif", "purego")}],   # the portable lookups are part of key derivation and signing
    "require_classes": {"quick": ["sign_P_even_R_even", "sign_P_even_R_odd", "sign_P_odd_R_even", "sign_P_odd_R_odd", "aux_zero", "aux_ones",
                                  "sign_public_api", "sign_reader_fail", "from_point_odd", "from_point_even", "from_point_inf", "from_point_altrep",
                                  "from_ecdsa", "self_verify", "immutable", "msg_len_0", "msg_nil_sign", "msg_len_odd", "msg_len_long", "msg_len_blocks", "vector"]},
    "assumptions": ["k' = 0 (a 2^-256 event) is covered only by the model"],
}

PROPS["C15"] = {
    "title": "hash-to-curve equals RFC 9380 (secp256k1 XMD:SHA-256 SSWU RO/NU) on every input",
    "technique": 'TLA+ transcription of RFC 9380 (XMD, hash_to_field, SWU 6.6.2 and F.2, isogeny) with F.2 = 6.6.2 and the whole map (SWU + a genuine 3-isogeny, Velu-derived) model-checked for all u on miniature fields + TLC recomputing the whole pipeline for every logged call',
    "level": "model_checking",
    "level_text": "H2C.tla transcribes RFC 9380: expand_message_xmd (incl. DSTs over 255 bytes), hash_to_field with L = 48, the simplified SWU map in its "
                  "declarative form (6.6.2: inv0, is_square, sqrt, sgn0), the 3-isogeny with the RFC's constants, and the straight-line form F.2 with "
                  "sqrt_ratio as coded in internal/swu. TLC checks on a miniature SWU-capable curve (parameters found by the RFC's H.2 procedure) that for "
                  "ALL u the straight-line algorithm equals the declarative map, lands on E', obeys the sgn0 rule and handles the exceptional u, and that "
                  "sqrt_ratio meets its contract for ALL (u, v). The real suites / SetUniformBytes / expandMessageXMD / swu.MapToCurveSimpleSWU / swu.IsoMap are "
                  "bound by trace validation at full size: TLC recomputes the WHOLE pipeline (SHA-256 primitive) from the logged message / DST / uniform bytes "
                  "for DST lengths {1,254,255,256,257,1000,5000,0}, message lengths 0..300, uniform strings of every length 31..65 incl. values >= p, "
                  "u in {0,1,p-1, sqrt(1/11) when it exists, random of either parity / either gx1 residuosity}, isogeny denominators' roots, output lengths "
                  "around block boundaries and the ell limit, and the RFC vector files; every output must be on the curve and repeatable.",
    "level_note": "trusted: TLC, BigInt/EcAdd/SHA-256 overrides (self-tested); the isogeny constants are the RFC's (also checked: E' points map onto E)",
    "exhaustive": [
        {"spec": "MC_H2C", "params": "mini211"},
        {"spec": "MC_H2C", "params": "mini163"},
        {"spec": "MC_H2C", "params": "mini43", "tiers": ("thorough",)},
        {"spec": "MC_H2C", "params": "mini79", "tiers": ("thorough",)},
    ],
    "drivers": [{"driver": "h2c", "trace": "Trace_H2C"},
                {"driver": "h2c", "trace": "Trace_H2C", "goarch": "386"}],                  # length arithmetic where int is 32 bits wide
    "require_classes": {"quick": ["suite_ro", "suite_nu", "dst_1", "dst_254", "dst_255", "dst_256", "dst_257", "dst_long", "dst_wide", "u_short", "dst_empty", "msg_empty",
                                  "msg_long", "uni_len_32", "uni_len_48", "uni_len_64", "uni_len_other", "uni_ge_p", "uni_panic", "u_zero", "u_one",
                                  "u_pm1", "u_exceptional", "gx1_square", "gx1_nonsquare", "u_odd", "u_even", "y_flipped", "xmd_ok", "xmd_err",
                                  "xmd_len_edge", "xmd_ell_max", "xmd_vector", "iso_ok", "swu_ok", "suite_vector", "pure"]},
    "assumptions": ["full-size inputs are sampled per class with an exact oracle; the equivalence F.2 = 6.6.2 for all u is exhaustive only on miniature fields",
                    "a root of the isogeny's denominators is exercised only if one exists over F_p (class iso_exceptional is reported, not required)"],
}

PROPS["C18"] = {
    "thorough_seeds": 2,      # driver seeds per thorough run (default 4); fitted to keep one run within about 20 minutes
    "title": "no invalid objects via the API; aliasing and caller mutation are harmless",
    "technique": 'TLA+ state machine of the public API (Api.tla): points, scalars, buffers, ECDSA / BIP-340 key objects and signatures as pool objects; exhaustive TLC exploration on a miniature curve, TLC-generated call schedules (one per call x alias pattern x byte class x context, each followed by the caller scribbling over its buffers; plus simulated histories) replayed on real objects, whole-pool trace validation',
    "level": "model_checking",
    "level_text": "Api.tla is the state machine of the public API over a pool of Point slots (possibly zero-value), Scalar slots, byte buffers shared with the "
                  "library and a private/public key object: Step(st, call) gives the outcome kind (ok / err / panic) and successor state of every call, with slot "
                  "indices as arguments so that every receiver/argument alias pattern is a distinct call, plus environment steps for the caller scribbling over "
                  "anything it supplied or received. (A) TLC explores the machine breadth-first on a miniature curve from the all-uninitialised pool over EVERY "
                  "call x slot assignment x byte class to a depth bound and checks StateOK (points valid, scalars canonical, key pair consistent, public key never "
                  "the identity) and StepOK (failure => nothing changed; only key constructors change key objects). (C) The same next-state relation, in simulation "
                  "mode, emits schedules that the Go replayer executes on real objects; (B) the full-size trace, carrying the projection of the WHOLE pool after every "
                  "call, is validated by Trace_Api with the same Step from the specification's own state: wrong outcome kind (a zero-value operand that did not "
                  "panic), any object changed by a failed/panicking call, alias-unsafe results, or a key object that moved after caller mutation are rejected steps. "
                  "Signatures are pool objects as well: key.Sign / key.Verify / key.Recover / skey.Sign / spub.Verify read digests and signatures from the caller's "
                  "buffers and write signatures into them, exactly (RFC 6979 candidate loop, BIP-340 with fixed entropy), so a later signing call that disturbs an "
                  "earlier signature, a verdict that ignores caller mutation, or a recovery that yields an invalid key object is a rejected step too; SignOK "
                  "(sign => verifies in every encoding and recovers to the held key) is an invariant of the miniature model.",
    "level_note": "trusted: TLC, BigInt/EcMul overrides (self-tested), the replayer's projection (library encoders, cross-checked by C03/C06) and recover() wrappers",
    "exhaustive": [
        {"spec": "MC_Api", "params": "mini211", "cfg": "MC_Api.cfg", "big": True},
        {"spec": "MC_Api", "params": "mini211", "cfg": "MC_Api_bug1.cfg", "big": True, "expect_violation": "Steps"},   # a failed decode clears its receiver
        {"spec": "MC_Api", "params": "mini211", "cfg": "MC_Api_bug2.cfg", "big": True, "expect_violation": "Steps"},   # the key aliases the import buffer
        {"spec": "MC_Api", "params": "mini211", "cfg": "MC_Api_deep.cfg", "big": True, "tiers": ("thorough",), "timeout": 7200},
    ],
    "drivers": [{"driver": "api", "trace": "Trace_Api",
                 "shape": [{"spec": "MC_Api", "cfg": "Sys_Api.cfg", "params": "mini211", "mode": "bfs", "big": True},
                           {"spec": "MC_Api", "cfg": "Shape_Api.cfg", "params": "mini211", "num": (20, 100), "depth": 60, "procs": 16, "big": True}]}],
    "require_classes": {"quick": ["alias_recv", "alias_args", "alias_all", "kind_panic", "kind_err", "kind_ok", "uninit_operand", "decode_fail_valid_recv",
                                  "decode_fail_uninit_recv", "decode_ok", "key_ctor_ok", "key_ctor_err", "mutate_with_key", "mutate_buf_with_key",
                                  "mutate_scalar_with_key", "mutate_point_with_key", "msm", "msm_mismatch", "scalar_decode_err", "reply", "reset",
                                  "schnorr_ctor_ok", "schnorr_ctor_err", "mutate_with_schnorr_key", "recover_call", "coords_call", "fresh_ctor",
                                  "sign_ok", "sign_err", "verify_true", "verify_false", "sig_recover_ok", "sig_recover_err", "sig_recover_qinf", "sig_kept_across_sign",
                                  "schnorr_sign", "schnorr_verify_true", "schnorr_verify_false", "ctrl_not_bool",
                                  "uniform_ok", "uniform_uninit_recv", "uniform_exceptional", "uniform_panic",
                                  "btc_true", "btc_false", "spki_build", "spki_parse_ok", "spki_parse_err", "append_byte",
                                  "equal_true", "equal_false", "equal_foreign", "prehash_ok", "prehash_err", "generate", "blind_step",
                                  "sc_ctor", "sc_ctor_err", "split_ok", "split_panic", "signraw_ok", "signraw_err", "verifyraw_true", "verifyraw_false",
                                  "hedged_ok", "hedged_err", "h2c_ok", "h2c_err", "h2c_args_same", "bip66_true", "bip66_false"]},
    "assumptions": ["histories are sampled by TLC's simulator from the exhaustive call set (all alias patterns are enumerated; sequences are random); the depth-bounded "
                    "exhaustive exploration is on the miniature curve",
                    "pool signing uses the RFC 6979 selector and fixed BIP-340 entropy so that every reply is a function of the pool; for the hedged signing operation (round 8) the pool model fixes only validity, low s, placement and the frame - which nonce is used is C09's business"],
}


def _same_traces(work, files, drv, env):
    """C19: the arithmetic harnesses run under -tags verif and -tags verif,purego with the same seed must log identical traces"""
    import hashlib as _h
    key = drv["pair_key"]
    st = env["extra_cov"].setdefault("_pair", {})
    digest = _h.sha256()
    n = 0
    for f in files:
        for line in open(f):
            digest.update(line.replace('"build":"purego"', '"build":"asm"').encode())
            n += 1
    st.setdefault(key, []).append((tuple(drv.get("tags", ())), digest.hexdigest(), n))
    out = {}
    if len(st[key]) == 2:
        a, b = st[key]
        same = a[1] == b[1]
        out["config_pairs"] = env["extra_cov"].get("config_pairs", []) + [{"driver": drv["driver"], "lines": a[2], "identical": same}]
        if not same:
            env["violations"].append({"driver": drv["driver"], "trace": "cross-configuration comparison",
                                      "line": "trace of driver %s under %s differs from the trace under %s (same seed)" % (drv["driver"], a[0], b[0])})
    return out


_PG = ("verif", "purego")
PROPS["C19"] = {
    "thorough_seeds": 1,      # driver seeds per thorough run (default 4); fitted to keep one run within about 20 minutes
    "title": "assembly and pure-Go builds are observationally identical",
    "technique": 'instruction-level TLA+ model generated from point_mul_table_amd64.s and model-checked + TLC trace validation of both lookups against the portable reference + identical-trace comparison of all arithmetic harnesses across build configurations',
    "level": "model_checking",
    "level_text": "Trace_Lookup.tla states the contract of the two constant-time table lookups (entry idx bit for bit, identity for index 0, only coordinate bytes "
                  "written, and an access pattern that is a function of the routine and the table placement only). A renamed copy of the CURRENT portable lookup is "
                  "generated into the build so that both implementations live in one binary; the driver runs all 16 indices on random limbs, all-ones, zeros and "
                  "all-ones / single-bit patterns in each of the 15 slots x 12 (8) limb positions, in BOTH build configurations, and TLC checks every output against "
                  "the selected entry and against the reference; a page-fault oracle observes which entries are touched. The arithmetic harnesses of C03/C04/C05/C16 "
                  "and slices of the others are executed under -tags verif and -tags verif,purego with the same seed: the traces must be identical line by line and "
                  "each is validated against the specification. LookupAsm.tla is an instruction-level model GENERATED from point_mul_table_amd64.s and model-checked.",
    "level_note": "trusted: TLC, the generated reference copy (text of point_mul_table_ref.go), raw-memory accessors, SetPanicOnFault-based fault observation",
    "exhaustive": [],
    "asm_model": True,
    "drivers": [
        {"driver": "lookup", "trace": "Trace_Lookup", "shards": 4},
        {"driver": "lookup", "trace": "Trace_Lookup", "shards": 4, "tags": _PG},
        {"driver": "lookup", "trace": "Trace_Lookup", "shards": 4, "env": _OLDCPU, "cfg": "-oldcpu"},      # the assembly build where run-time CPU feature dispatch (if any) falls back
        {"driver": "basemul", "trace": "Trace_Point", "env": _OLDCPU, "cfg": "-oldcpu"},
        {"driver": "point", "trace": "Trace_Point", "post": _same_traces, "pair_key": "point"},
        {"driver": "point", "trace": "Trace_Point", "tags": _PG, "post": _same_traces, "pair_key": "point"},
        {"driver": "mul", "trace": "Trace_Point", "post": _same_traces, "pair_key": "mul"},
        {"driver": "mul", "trace": "Trace_Point", "tags": _PG, "post": _same_traces, "pair_key": "mul"},
        {"driver": "basemul", "trace": "Trace_Point", "post": _same_traces, "pair_key": "basemul"},
        {"driver": "basemul", "trace": "Trace_Point", "tags": _PG, "post": _same_traces, "pair_key": "basemul"},
        {"driver": "msm", "trace": "Trace_Point", "post": _same_traces, "pair_key": "msm"},
        {"driver": "msm", "trace": "Trace_Point", "tags": _PG, "post": _same_traces, "pair_key": "msm"},
        {"driver": "sign", "trace": "Trace_Ecdsa", "tags": _PG, "post": _same_traces, "pair_key": "sign"},
        {"driver": "sign", "post": _same_traces, "pair_key": "sign"},
        {"driver": "schnorr", "trace": "Trace_Schnorr", "tags": _PG, "post": _same_traces, "pair_key": "schnorr"},
        {"driver": "schnorr", "post": _same_traces, "pair_key": "schnorr"},
        {"driver": "keys", "trace": "Trace_Ecdsa", "tags": _PG, "post": _same_traces, "pair_key": "keys"},
        {"driver": "keys", "post": _same_traces, "pair_key": "keys"},
        {"driver": "h2c", "trace": "Trace_H2C", "tags": _PG, "post": _same_traces, "pair_key": "h2c"},
        {"driver": "h2c", "post": _same_traces, "pair_key": "h2c"},
    ],
    "require_classes": {"quick": ["proj_idx0", "proj_idx", "aff_idx0", "aff_idx", "pat_random", "pat_limb_ones", "pat_limb_bit", "pat_ones", "pat_zeros",
                                  "pat_align0", "pat_align8",
                                  "touch_ct", "touch_all_readable", "touch_vartime_differs", "layout", "build_asm", "build_purego",
                                  "tbl_huge", "bm_single_byte", "mul_alias", "msm_alias", "add_p_negp"]},
    "assumptions": ["indices >= 16 are outside the lookups' contract (callers pass a 4-bit window); they are not asserted",
                    "the cross-configuration comparison covers the seeded inputs of the listed harnesses, not all inputs"],
}

PROPS["C20"] = {
    "title": "keys, points, scalars and tables are safe for concurrent read-only use",
    "technique": 'TLA+ goroutine model (frame condition => race freedom, results as alone; buggy variant must fail) + race-instrumented concurrent driver validated by a stateful TLC trace spec (sequential results, deep memory images)',
    "level": "exploration",
    "level_text": "Conc.tla models N goroutines performing read-only operations on shared objects at memory-access grain; TLC shows (3 goroutines x 2 operations, all "
                  "interleavings) that the FRAME CONDITION - no step of an operation writes a shared location - implies race freedom and that every call returns what "
                  "it returns alone, and that a variant which parks a scratch value in the shared object violates both (non-vacuity). The implementation is bound to the "
                  "frame condition by a -race build of the harness: 32..64 goroutines x {hedged and RFC 6979 signing, verify, recover, ECDH, ScalarMult, ScalarBaseMult, "
                  "MultiScalarMult, DoubleScalarMult, encoders, point ops, key accessors, hash-to-curve, Schnorr sign/verify} on shared keys / a non-normalised point / "
                  "scalars, under several GOMAXPROCS values and seeds; any race-detector report is a violation; Trace_Conc (stateful) requires every concurrent result to "
                  "equal the sequential result of the same call and the deep memory images of all shared objects (unexported fields, cached encodings) and the table "
                  "checksums to be unchanged; first use of the tables from 32 goroutines in a fresh process must agree with the sequential value.",
    "level_note": "schedules are sampled (the Go scheduler) and the race detector is dynamic; trusted: TLC, the Go race detector, raw-memory accessors",
    "exhaustive": [
        {"spec": "MC_Conc", "cfg": "MC_Conc.cfg", "params": "mini43", "workers": 4},
        {"spec": "MC_Conc", "cfg": "MC_Conc_buggy.cfg", "params": "mini43", "workers": 4, "expect_violation": "NoRace"},
    ],
    "drivers": [
        {"driver": "conc", "trace": "Trace_Conc", "shards": 1, "build": ("-race",), "race": True, "tags": ("verif",)},
        {"driver": "conchammer", "trace": "Trace_Conc", "shards": 1, "build": ("-race",), "race": True, "race_halt": True, "tags": ("verif",)},
        {"driver": "conchammer", "trace": "Trace_Conc", "shards": 1, "build": ("-race",), "race": True, "race_halt": True, "tags": ("verif", "purego")},
        {"driver": "conc", "trace": "Trace_Conc", "shards": 1, "build": ("-race",), "race": True, "tags": ("verif", "purego"), "tiers": ("thorough",)},
    ],
    "require_classes": {"quick": ["base", "call", "frame_key", "frame_table", "frame_other", "init", "race_build", "many_goroutines"]},
    "rule": "events are calls made concurrently by many goroutines on shared objects; a call is non-trivial (all are) when its result is compared with the sequential "
            "result of the same (operation, argument) and the run was race-instrumented",
    "assumptions": ["interleavings are those the Go scheduler produced in this run (several GOMAXPROCS values); the race detector only sees executed accesses"],
}


def _ct_funcs(work, files, drv, env):
    """C17: list every function of the module with its coverage after running ONLY the secret-handling operations
    (go tool covdata func) and hand the list to TLC as ct.Func events"""
    import json as _j, os as _o, re as _re, subprocess as _sp
    tag = "-".join(drv.get("tags", ("verif",)))
    d = _o.path.join(work, "cov-" + tag)
    e = dict(_o.environ, GOFLAGS="-mod=mod", GOPROXY="off", GOSUMDB="off", GOTOOLCHAIN="local")
    r = _sp.run(["go", "tool", "covdata", "func", "-i=" + d], cwd=_o.path.join(work, "repo"), env=e, capture_output=True, text=True)
    out = _o.path.join(work, "tr-ct-funcs-%s.ndjson" % tag)
    n = 0
    with open(out, "w") as fh:
        for line in r.stdout.splitlines():
            m = _re.match(r"^(\S+):(\d+):\s+(\S+)\s+([0-9.]+)%$", line.strip())
            if not m or "/verifcmd/" in m.group(1) or m.group(1).endswith("verif_export.go") or m.group(1).endswith("verif_ref_copy.go"):
                continue
            name = m.group(3)
            fh.write(_j.dumps({"ev": "ct.Func", "build": "purego" if "purego" in tag else "asm", "file": m.group(1).split("secp256k1-voi/")[-1],
                               "name": name, "vartime": "vartime" in name.lower(), "covered": float(m.group(4)) > 0}) + "\n")
            n += 1
    if n == 0:
        raise RuntimeError("go tool covdata func produced no function list: " + (r.stdout + r.stderr)[-500:])
    files.append(out)
    return {"functions_listed": env["extra_cov"].get("functions_listed", 0) + n}


_COVER = ("-cover", "-covermode=atomic", "-coverpkg=gitlab.com/yawning/secp256k1-voi/...")
PROPS["C17"] = {
    "title": "secret-handling operations run a secret-independent control and lookup pattern",
    "technique": 'constant time as a TLA+ relation on observations (CT.tla) + stateful TLC validation of per-call coverage-counter vectors across secret families, Vartime reachability, page-fault access patterns + instruction-level TLA+ model generated from the assembly',
    "level": "exploration",
    "level_text": "CT.tla defines constant time as a relation on observations (the bag of basic blocks executed and the sequence of table entries touched must be a "
                  "function of the public input alone) and gives the observation semantics of the two window ladders; TLC shows on a miniature instance that the "
                  "relation holds for the constant-time ladder for ALL secrets and fails for the Vartime twin (the observer is not blind). The implementation is bound "
                  "by three observations of the real code, in both build configurations: (1) a coverage-instrumented build (-covermode=atomic over every package of "
                  "the module): for field / scalar arithmetic, ScalarMult, ScalarBaseMult, MultiScalarMult, private-key import, public-key derivation, ECDH, hedged "
                  "and RFC 6979 SignRaw, Schnorr key derivation and signing, the per-call block-counter vector is recorded for a family of secrets (0-heavy / F-heavy "
                  "nibbles, 1, n-1, both signs of the split halves, odd / even public y, steered and random) with the public inputs fixed, and Trace_CT (stateful) "
                  "requires it to be IDENTICAL across secrets - never compared with a fixed expected value; the Vartime twins are run as negative controls and must "
                  "differ; (2) after running only secret-handling operations no function whose name contains Vartime may have been entered (go tool covdata func); "
                  "(3) a page-fault oracle places lookup tables across an unreadable page: whether a lookup faults must not depend on the index (Trace_Lookup).",
    "level_note": "secrets are sampled; a data-dependent memory index WITHOUT a branch outside the lookup routines is not visible to the block counters; hardware timing is "
                  "out of scope. Trusted: Go's coverage instrumentation, TLC, SetPanicOnFault-based fault observation",
    "exhaustive": [{"spec": "MC_CT", "cfg": "MC_CT.cfg", "params": "mini43", "workers": 1}],
    "asm_model": True,
    "drivers": [
        {"driver": "ct", "trace": "Trace_CT", "shards": 1, "build": _COVER, "env": {"VERIF_COVDIR": "{work}/cov-verif"}, "post": _ct_funcs},
        {"driver": "ct", "trace": "Trace_CT", "shards": 1, "build": _COVER, "tags": _PG, "env": {"VERIF_COVDIR": "{work}/cov-verif-purego"}, "post": _ct_funcs},
        {"driver": "lookup", "trace": "Trace_Lookup", "shards": 4},
        {"driver": "lookup", "trace": "Trace_Lookup", "shards": 4, "tags": _PG},
    ],
    "require_classes": {"quick": ["obs_first", "obs_same", "secret_zero", "secret_zero_heavy", "secret_f_heavy", "secret_one", "secret_nm1", "secret_random", "secret_neg_half",
                                  "secret_pos_half", "secret_odd_y", "secret_even_y", "control_differs", "func_ct_covered", "func_vartime_unreached",
                                  "build_asm", "build_purego", "op_field", "op_scalar", "op_mult", "op_basemult", "op_msm", "op_key", "op_ecdh", "op_sign",
                                  "op_schnorr", "touch_ct", "touch_vartime_differs"]},
    "rule": "one observation per (operation, fixed public input, secret); an observation is non-trivial (all are) when it is compared with the observation of another "
            "secret for the same operation and public input; distinct_nontrivial counts distinct (operation, public input, secret) triples",
    "assumptions": ["secrets are sampled families, not all secrets", "block counters cannot see branch-free data-dependent addressing outside the lookup routines",
                    "micro-architectural timing is out of scope, as in the property"],
}

# ---- non-vacuity of the exhaustive models (session 4): every model is also run with deliberately wrong designs that it must reject.
# (Mutating the specification's algorithms is the model-level twin of the seeded defects: an invariant that a wrong design still
# satisfies would be vacuous.  This found one: the quick alphabet of MC_Wire contained no accepted DER string.)
_BUGS = {
    "C01": [_bug("MC_Field", "mini163", "inv_exponent", "PairInv"), _bug("MC_Field", "mini163", "wide_drop_top", "WideInv")],
    "C02": [_bug("MC_Scalar", "mini163", "gthalf_ge", "PairInv"), _bug("MC_Scalar", "mini163", "reduce_strict", "ByteInv")],
    "C03": [_bug("MC_Projective", "mini43", "incomplete_add", "GroupLaw"), _bug("MC_Projective", "mini43", "equal_x_only", "GroupLaw")],
    "C04": [_bug("MC_Mul", "mini43", "round_down", "SplitInv")],
    "C06": [_bug("MC_Sec1", "mini211", "prefix_flag", "DecodeInv"), _bug("MC_Sec1", "mini211", "stale_receiver", "DecodeInv")],
    "C07": [_bug("MC_Ecdsa", "mini43", "verify_no_mod_n", "VerifyInv")],
    "C08": [_bug("MC_Ecdsa", "mini43", "sign_high_s", "SignInv")],
    "C10": [_bug("MC_Sec1", "mini211", "prefix_flag", "DecodeInv")],
    "C11": [_bug("MC_Ecdsa", "mini43", "recover_ignores_bit1", "RecoverInv"), _bug("MC_Sec1", "mini211", "recover_no_overflow_check", "BijectionInv")],
    "C12": [_bug("MC_Wire", "mini211", "compact_and", "BuildInv"), _bug("MC_Wire", "mini211", "der_negative_ok", "DerInv")],
    "C13": [_bug("MC_Schnorr", "mini43", "odd_R_accepted", "VerifyInv"), _bug("MC_Schnorr", "mini43", "s_reduced", "VerifyInv")],
    "C14": [_bug("MC_Schnorr", "mini43", "sign_no_negate_k", "SignInv")],
    "C15": [_bug("MC_H2C", "mini211", "sgn0_ignored", "SwuInv")],
    "C16": [_bug("MC_Mul", "mini43", "dsm_vanish", "DsmInv")],
}
for _pid, _l in _BUGS.items():
    PROPS[_pid]["exhaustive"] = list(PROPS[_pid]["exhaustive"]) + _l
