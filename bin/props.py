"""Per-property configuration of bin/check: which exhaustive miniature models (pipeline A), which Go
drivers and which trace specifications (pipelines B/C) decide each property, and which corner
classes a run must have exercised to count as non-vacuous."""

PROPS = {}
NOT_APPLICABLE = {}

PROPS["C01"] = {
    "title": "field-element operations are exact arithmetic modulo p",
    "level": "exploration",
    "level_text": "Every field operation and raw fiat entry point of the real code is executed on steered corner operands "
                  "(sum/difference/Montgomery windows, limb patterns, all byte-string classes, every alias pattern) and every "
                  "logged result is decided by TLC against Field.tla at full size; the oracle itself and the A-level "
                  "algorithms are model-checked exhaustively on miniature primes. Sampling with an exact model oracle, not a proof.",
    "level_note": "trusted: TLC, BigInt overrides (java.math.BigInteger, self-tested), the harness' logging; generators untrusted",
    "exhaustive": [
        {"spec": "MC_Field", "params": "mini163"},
        {"spec": "MC_Field", "params": "mini211", "tiers": ("thorough",)},
    ],
    "drivers": [
        {"driver": "field", "trace": "Trace_Field"},
    ],
    "require_classes": {"quick": ["sum_window", "diff_borrow", "mont_window", "mont_sqr_window", "decode_ge_p", "canon_reject",
                                  "wide_len_odd", "wide_ge_p", "wide_panic", "sqrt_residue", "sqrt_nonresidue", "sqrt_zero",
                                  "ratio_v0", "ratio_square", "ratio_nonsquare", "inv_zero", "alias_all", "alias_recv",
                                  "pow2k_panic", "near_p"]},
    "assumptions": [
        "the fiat limb code is sampled (steered corner operands + exact TLA+ oracle), not proved for every operand",
        "TLC evaluates 256-bit arithmetic through java.math.BigInteger (BigInt.tla overrides), re-validated by SelfTest.tla",
        "operands are placed through NewElementFromCanonicalBytes / raw limbs and read back through Bytes(); a defect in both "
        "directions that cancels exactly would be invisible",
    ],
}

PROPS["C02"] = {
    "title": "scalar operations are exact arithmetic modulo the group order n",
    "level": "exploration",
    "level_text": "Every Scalar method and raw scalar-fiat entry point of the real code is executed on steered corner operands "
                  "(sum/difference/Montgomery windows for modulus n, values around (n-1)/2, special inversion arguments, Sum/Product "
                  "vectors of length 0..6 with repeated and receiver-aliased entries, all 32-byte string classes, every alias "
                  "pattern) and every logged result is decided by TLC against ScalarField.tla at full size; the oracle and the "
                  "A-level algorithms (conditional subtraction, half-order borrow chain, folds) are model-checked exhaustively on "
                  "miniature group orders. Sampling with an exact model oracle, not a proof.",
    "level_note": "trusted: TLC, BigInt overrides (java.math.BigInteger, self-tested), the harness' logging; generators untrusted",
    "exhaustive": [
        {"spec": "MC_Scalar", "params": "mini163"},
        {"spec": "MC_Scalar", "params": "mini211", "tiers": ("thorough",)},
    ],
    "drivers": [
        {"driver": "scalar", "trace": "Trace_Scalar"},
    ],
    "require_classes": {"quick": ["sum_window", "diff_borrow", "mont_window", "mont_sqr_window", "decode_ge_n", "canon_reject",
                                  "inv_zero", "inv_special", "alias_all", "alias_recv", "half_boundary", "gt_half", "le_half",
                                  "sum_empty", "sum_alias", "sum_long", "prod_empty", "pow2k_panic", "near_n", "cneg_zero"]},
    "assumptions": [
        "the fiat limb code is sampled (steered corner operands + exact TLA+ oracle), not proved for every operand",
        "TLC evaluates 256-bit arithmetic through java.math.BigInteger (BigInt.tla overrides), re-validated by SelfTest.tla",
        "operands are placed through NewScalarFromCanonicalBytes / raw limbs and read back through Bytes()",
    ],
}

PROPS["C03"] = {
    "title": "point addition/doubling/negation implement the secp256k1 group law completely",
    "level": "model_checking",
    "level_text": "The Renes-Costello-Batina formulas as transcribed from point_projective.go (Projective.tla) are model-checked by TLC on "
                  "miniature secp256k1-shaped curves for ALL pairs of projective representatives of ALL points (identity representatives "
                  "included), which makes 'valid representative of the right abstract point' an inductive invariant of every operation "
                  "sequence; the real code is bound to the same specification by trace validation at full size: Add/Subtract/Double/Negate/"
                  "conditional ops/Equal/IsIdentity/IsYOdd/encoders are driven on hand-built representatives (z in {1,2,p-1,random}, identity "
                  "as (0,Y,0)), every exceptional relation and alias pattern, and on random operation chains whose abstract state is carried "
                  "by the specification.",
    "level_note": "trusted: TLC, BigInt/EcAdd overrides (self-tested against the TLA+ definitions), verif accessors reading raw coordinates; "
                  "full-size behaviour is sampled with an exact oracle",
    "exhaustive": [
        {"spec": "MC_Projective", "params": "mini43", "env": {"VERIF_MCFULL": "0"}, "tiers": ("quick",)},
        {"spec": "MC_Projective", "params": "mini43", "env": {"VERIF_MCFULL": "1"}, "tiers": ("thorough",)},
        {"spec": "MC_Projective", "params": "mini79", "env": {"VERIF_MCFULL": "0"}, "tiers": ("thorough",)},
    ],
    "drivers": [
        {"driver": "point", "trace": "Trace_Point"},
    ],
    "require_classes": {"quick": ["add_inf_inf", "add_inf_p", "add_p_inf", "add_p_p", "add_p_negp", "add_generic", "add_inf_altrep",
                                  "z_not_one", "alias_recv", "alias_all", "mixed_p_p", "mixed_p_negp", "mixed_inf", "dbl_inf",
                                  "equal_true_diffrep", "equal_neg", "equal_inf_inf", "equal_p_inf", "yodd", "yeven", "enc_inf",
                                  "chain_step"]},
    "assumptions": [
        "full-size group operations are sampled (steered representatives and relations, exact TLA+ oracle); exhaustiveness is on miniature curves",
        "raw projective coordinates are read through verif-tagged accessors added to a scratch copy of the tree",
    ],
}

_MUL_A = [
    {"spec": "MC_Mul", "params": "mini43", "env": {"VERIF_MCFULL": "0"}, "tiers": ("quick",)},
    {"spec": "MC_Mul", "params": "mini43", "env": {"VERIF_MCFULL": "1"}, "tiers": ("thorough",)},
    {"spec": "MC_Mul", "params": "mini79", "env": {"VERIF_MCFULL": "0"}, "tiers": ("thorough",), "timeout": 7200},
]
_MC_TEXT = ("The algorithm as coded (Mul.tla: split with round-by-carry, sign normalisation, fixed-window ladders over the low HBits, "
            "multiples tables with implicit zero entry, nibble/byte fixed-base walks, Straus) is model-checked by TLC against repeated addition "
            "for ALL scalars and ALL points of miniature secp256k1-shaped curves whose GLV constants are derived the libsecp256k1 way; ")

PROPS["C04"] = {
    "title": "variable-base scalar multiplication returns s*P for every scalar and point",
    "level": "model_checking",
    "level_text": _MC_TEXT + "the real code is bound by trace validation at full size: the constants of the running binary, the lattice relations "
                  "and the closed-form bound on both halves (< 2^128 for EVERY s; the same formula is validated exhaustively on the miniature curves) "
                  "are evaluated by TLC, splitGLV / mulGFlooredDiv are checked on scalars steered to extreme halves, rounding-bit flips and limb "
                  "carries, and ScalarMult / the variable-time twin / DoubleScalarMultBasepointVartime(0,s,P) / length-1 MultiScalarMult are checked "
                  "against Group!PMul on those scalars x {identity (two representatives), G, random, other representatives, receiver = P}.",
    "level_note": "trusted: TLC, BigInt/EcAdd/EcMul overrides (self-tested against the TLA+ definitions on every setup), verif accessors",
    "exhaustive": _MUL_A,
    "drivers": [{"driver": "mul", "trace": "Trace_Point"}],
    "require_classes": {"quick": ["split_extreme", "split_neg1", "split_neg2", "split_round_flip", "split_limb_carry", "split_edge",
                                  "mul_zero", "mul_inf", "mul_alias", "mul_edge_scalar", "mul_altrep", "glv_bound"]},
    "assumptions": ["full-size multiplications are sampled on steered scalars with an exact oracle; the for-all-s bound is a closed form evaluated at full size "
                    "and validated against exhaustive enumeration only on miniature curves"],
}

PROPS["C05"] = {
    "title": "fixed-base multiplication and the embedded generator tables are exact",
    "level": "model_checking",
    "level_text": _MC_TEXT + "at full size ALL 32x255 entries of the embedded table are walked by a stateful trace specification that carries its own "
                  "running multiple (entry j = entry j-1 + 256^i*G, each row closed by 256*base = next base), all 32x15 odd-table entries are checked "
                  "against (16j)*256^i*G, and ScalarBaseMult / the variable-time twin are checked against Group!PMulG for ALL 32x255 single-byte scalars, "
                  "zero nibbles/bytes in every position, two-byte combinations, edge and random scalars, plus PrivateKey -> PublicKey.",
    "level_note": "trusted: TLC, BigInt/EcAdd/EcMul overrides (self-tested), verif accessors reading the deserialised tables",
    "exhaustive": _MUL_A[:1] + [_MUL_A[1]],
    "drivers": [{"driver": "basemul", "trace": "Trace_Point"}],
    "require_classes": {"quick": ["tbl_huge", "tbl_odd", "tbl_row", "bm_single_byte", "bm_zero_nibble", "bm_edge", "bm_priv"]},
    "assumptions": ["table entries are exhaustively checked (finite set); multiplications on multi-byte scalars are sampled"],
    "min_counts": {"tbl_huge": 8160, "tbl_odd": 480, "tbl_row": 32, "bm_single_byte": 16320},
}

PROPS["C06"] = {
    "title": "SEC 1 point decoding is strict and encoding is a bijection on curve points",
    "level": "model_checking",
    "level_text": "Sec1.tla states declaratively which byte strings encode which point; TLC checks on miniature curves with one-byte coordinates "
                  "(n < p < 2^8 < 2n, so non-canonical coordinates exist as on the real curve) for EVERY byte string of length 0..2W+1 that the decoder "
                  "accepts exactly the image of the encoders, that decode/encode are mutually inverse and one-to-one per format, that the step-by-step "
                  "algorithm of point_s11n.go refines it and writes its receiver only on success, and RecoverPoint for all (x mod n, id in 0..255). "
                  "The real decoders/constructors are bound by trace validation at full size on every class of input (all lengths 0..66, all 256 prefixes, "
                  "+p aliases of small coordinates, non-residues, wrong-sign / off-by-one y, hybrid prefixes, identity byte in each decoder, x in [n,p) "
                  "recovery) with receiver state logged before/after on initialised and zero-value receivers.",
    "level_note": "trusted: TLC, BigInt overrides (self-tested), the harness' logging",
    "exhaustive": [
        {"spec": "MC_Sec1", "params": "mini211", "env": {"VERIF_MCFULL": "0"}, "tiers": ("quick",)},
        {"spec": "MC_Sec1", "params": "mini211", "env": {"VERIF_MCFULL": "1"}, "tiers": ("thorough",)},
        {"spec": "MC_Sec1", "params": "mini163", "env": {"VERIF_MCFULL": "1"}, "tiers": ("thorough",)},
    ],
    "drivers": [{"driver": "sec1", "trace": "Trace_Point"}],
    "require_classes": {"quick": ["dec_ok_cmp", "dec_ok_unc", "dec_ok_inf", "dec_bad_len", "dec_bad_prefix", "dec_noncanon_x", "dec_noncanon_y",
                                  "dec_offcurve", "dec_nonresidue", "dec_hybrid", "dec_recv_uninit", "dec_recv_kept", "coords_ok", "coords_bad",
                                  "rec_ok_low", "rec_ok_high", "rec_overflow", "rec_bad_id", "rec_nonresidue"]},
    "assumptions": ["full-size byte strings are sampled per class (exact oracle); all byte strings are enumerated only on the miniature curves"],
}

PROPS["C16"] = {
    "title": "multi-scalar and double-scalar multiplication return the exact combination",
    "level": "model_checking",
    "level_text": _MC_TEXT + "including Straus over lists with repeated, mutually inverse and identity points and partial sums through the identity, and the "
                  "double-scalar multiply for all (u2, P) x edge u1; the real MultiScalarMult / MultiScalarMultVartime / DoubleScalarMultBasepointVartime "
                  "are bound by trace validation at full size over list shapes (length 0..6, 7..33, 64+ in thorough), scalar classes {0,1,n-1,-s_j,s_j,random}, "
                  "point classes {identity (two representatives), G, P_j in another representative, -P_j, random}, receiver aliasing an entry, cancelling "
                  "combinations and mismatched lengths (must panic with the receiver untouched); inputs must be unchanged afterwards.",
    "level_note": "trusted: TLC, BigInt/EcAdd/EcMul overrides (self-tested), verif accessors",
    "exhaustive": _MUL_A,
    "drivers": [{"driver": "msm", "trace": "Trace_Point"}],
    "require_classes": {"quick": ["msm_len0", "msm_len1", "msm_len2", "msm_len3plus", "msm_long", "msm_zero_scalar", "msm_inf_point", "msm_dup",
                                  "msm_inverse", "msm_alias", "msm_mismatch", "msm_cancel", "dsm", "mul_alias"]},
    "assumptions": ["full-size list shapes and operand classes are sampled with an exact oracle; exhaustiveness is on the miniature curve"],
}
