"""Per-property configuration of bin/check: which exhaustive miniature models (pipeline A), which Go
drivers and which trace specifications (pipelines B/C) decide each property, and which corner
classes a run must have exercised to count as non-vacuous."""

PROPS = {}
NOT_APPLICABLE = {}

PROPS["C01"] = {
    "title": "field-element operations are exact arithmetic modulo p",
    "level": "exploration",
    "level_text": "Every field operation and raw fiat entry point of the real code is executed on steered corner operands "
                  "(sum/difference/Montgomery windows, limb patterns, all byte-string classes, every alias pattern) and every "
                  "logged result is decided by TLC against Field.tla at full size; the oracle itself and the A-level "
                  "algorithms are model-checked exhaustively on miniature primes. Sampling with an exact model oracle, not a proof.",
    "level_note": "trusted: TLC, BigInt overrides (java.math.BigInteger, self-tested), the harness' logging; generators untrusted",
    "exhaustive": [
        {"spec": "MC_Field", "params": "mini163"},
        {"spec": "MC_Field", "params": "mini211", "tiers": ("thorough",)},
    ],
    "drivers": [
        {"driver": "field", "trace": "Trace_Field"},
    ],
    "require_classes": {"quick": ["sum_window", "diff_borrow", "mont_window", "mont_sqr_window", "decode_ge_p", "canon_reject",
                                  "wide_len_odd", "wide_ge_p", "wide_panic", "sqrt_residue", "sqrt_nonresidue", "sqrt_zero",
                                  "ratio_v0", "ratio_square", "ratio_nonsquare", "inv_zero", "alias_all", "alias_recv",
                                  "pow2k_panic", "near_p"]},
    "assumptions": [
        "the fiat limb code is sampled (steered corner operands + exact TLA+ oracle), not proved for every operand",
        "TLC evaluates 256-bit arithmetic through java.math.BigInteger (BigInt.tla overrides), re-validated by SelfTest.tla",
        "operands are placed through NewElementFromCanonicalBytes / raw limbs and read back through Bytes(); a defect in both "
        "directions that cancels exactly would be invisible",
    ],
}

PROPS["C02"] = {
    "title": "scalar operations are exact arithmetic modulo the group order n",
    "level": "exploration",
    "level_text": "Every Scalar method and raw scalar-fiat entry point of the real code is executed on steered corner operands "
                  "(sum/difference/Montgomery windows for modulus n, values around (n-1)/2, special inversion arguments, Sum/Product "
                  "vectors of length 0..6 with repeated and receiver-aliased entries, all 32-byte string classes, every alias "
                  "pattern) and every logged result is decided by TLC against ScalarField.tla at full size; the oracle and the "
                  "A-level algorithms (conditional subtraction, half-order borrow chain, folds) are model-checked exhaustively on "
                  "miniature group orders. Sampling with an exact model oracle, not a proof.",
    "level_note": "trusted: TLC, BigInt overrides (java.math.BigInteger, self-tested), the harness' logging; generators untrusted",
    "exhaustive": [
        {"spec": "MC_Scalar", "params": "mini163"},
        {"spec": "MC_Scalar", "params": "mini211", "tiers": ("thorough",)},
    ],
    "drivers": [
        {"driver": "scalar", "trace": "Trace_Scalar"},
    ],
    "require_classes": {"quick": ["sum_window", "diff_borrow", "mont_window", "mont_sqr_window", "decode_ge_n", "canon_reject",
                                  "inv_zero", "inv_special", "alias_all", "alias_recv", "half_boundary", "gt_half", "le_half",
                                  "sum_empty", "sum_alias", "sum_long", "prod_empty", "pow2k_panic", "near_n", "cneg_zero"]},
    "assumptions": [
        "the fiat limb code is sampled (steered corner operands + exact TLA+ oracle), not proved for every operand",
        "TLC evaluates 256-bit arithmetic through java.math.BigInteger (BigInt.tla overrides), re-validated by SelfTest.tla",
        "operands are placed through NewScalarFromCanonicalBytes / raw limbs and read back through Bytes()",
    ],
}
